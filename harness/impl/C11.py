"""C11 implementation driver: runs the real L2CAPLayer inside a Sandbox.
stdin: {"send": [[mtu, cid, hex], ...], "recv": [[[flag, hex], ...], ...]}
stdout: RESULT {"send": [ {"frags": [[flag, hex], ...]} | {"exc": cls} ], "recv": [ {"out": [[cid, hex],...]} | {"exc": cls} ]}
"""
import sys, json, logging
logging.disable(logging.CRITICAL)
from whad.common.stack import alias
from whad.common.stack.tests import Sandbox
from whad.ble.stack.l2cap import L2CAPLayer
from whad.ble.stack.att import ATTLayer
from whad.ble.stack.smp import SMPLayer

L2CAPLayer.remove(ATTLayer)
L2CAPLayer.remove(SMPLayer)

@alias('ll')
class LL(Sandbox):
    def __init__(self, parent=None, layer_name=None, options={}):
        super().__init__(parent=parent, layer_name=layer_name, options=options)
        self.l2 = self.instantiate(L2CAPLayer)
        self.target = self.l2.name
LL.add(L2CAPLayer)

CID_OF = {'att': 4, 'smp': 6}

def do_send(mtu, cid, sdu):
    ll = LL()
    ll.l2.set_remote_mtu(mtu)
    try:
        if cid == 6:
            ll.l2.on_smp_packet_recv(sdu)
        elif cid == 4:
            ll.l2.on_att_packet_recv(sdu)
        else:
            ll.l2.on_att_packet_recv(sdu, channel=cid)
    except Exception as e:  # noqa
        return {"exc": type(e).__name__}
    frags = []
    for m in ll.messages:
        if m.destination == 'll':
            frags.append([bool(m.args.get('fragment', False)), bytes(m.data).hex()])
    return {"frags": frags}

def do_recv(frs):
    ll = LL()
    try:
        for flag, hx in frs:
            ll.send(ll.target, bytes.fromhex(hx), fragment=bool(flag))
    except Exception as e:  # noqa
        return {"exc": type(e).__name__}
    out = []
    for m in ll.messages:
        if m.source == ll.target and m.destination in CID_OF:
            out.append([CID_OF[m.destination], bytes(m.data).hex()])
    return {"out": out}

def main():
    req = json.load(sys.stdin)
    res = {"send": [do_send(m, c, bytes.fromhex(h)) for m, c, h in req.get("send", [])],
           "recv": [do_recv(f) for f in req.get("recv", [])]}
    print("RESULT " + json.dumps(res))

main()
