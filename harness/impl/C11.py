"""C11 implementation driver: runs the real L2CAPLayer inside a Sandbox.
stdin: {"send": [[mtu, cid, hex], ...], "recv": [[[flag, hex], ...], ...]}
stdout: RESULT {"send": [ {"frags": [[flag, hex], ...]} | {"exc": cls} ], "recv": [ {"out": [[cid, hex],...]} | {"exc": cls} ]}
"""
import sys, json, logging
logging.disable(logging.CRITICAL)
from whad.common.stack import alias
from whad.common.stack.tests import Sandbox
from whad.ble.stack.l2cap import L2CAPLayer
from whad.ble.stack.att import ATTLayer
from whad.ble.stack.smp import SMPLayer

L2CAPLayer.remove(ATTLayer)
L2CAPLayer.remove(SMPLayer)

@alias('ll')
class LL(Sandbox):
    def __init__(self, parent=None, layer_name=None, options={}):
        super().__init__(parent=parent, layer_name=layer_name, options=options)
        self.l2 = self.instantiate(L2CAPLayer)
        self.target = self.l2.name
LL.add(L2CAPLayer)

CID_OF = {'att': 4, 'smp': 6}

def do_send(mtu, cid, sdu):
    ll = LL()
    ll.l2.set_remote_mtu(mtu)
    try:
        if cid == 6:
            ll.l2.on_smp_packet_recv(sdu)
        elif cid == 4:
            ll.l2.on_att_packet_recv(sdu)
        else:
            ll.l2.on_att_packet_recv(sdu, channel=cid)
    except Exception as e:  # noqa
        return {"exc": type(e).__name__}
    frags = []
    for m in ll.messages:
        if m.destination == 'll':
            frags.append([bool(m.args.get('fragment', False)), bytes(m.data).hex()])
    return {"frags": frags}

def do_recv(frs):
    ll = LL()
    try:
        for flag, hx in frs:
            ll.send(ll.target, bytes.fromhex(hx), fragment=bool(flag))
    except Exception as e:  # noqa
        return {"exc": type(e).__name__}
    out = []
    for m in ll.messages:
        if m.source == ll.target and m.destination in CID_OF:
            out.append([CID_OF[m.destination], bytes(m.data).hex()])
    return {"out": out}

# ---- end to end through the real LinkLayer (on_l2cap_send_data / on_data_pdu) ----
from scapy.layers.bluetooth4LE import BTLE_DATA
from whad.ble.stack.constants import BtVersion
from whad.ble.stack.llm import LinkLayer
from whad.hub.ble.bdaddr import BDAddress

@alias('phy')
class Phy(Sandbox):
    @property
    def bt_version(self): return BtVersion(4, 0)
    @property
    def manufacturer_id(self): return 2
    @property
    def bt_sub_version(self): return 0x100
Phy.add(LinkLayer)

def mk_phy(handle=42):
    p = Phy()
    ll = p.get_layer('ll')
    ll.on_connect(handle, BDAddress('11:22:33:44:55:66'), BDAddress('66:55:44:33:22:11'))
    l2 = ll.get_layer(ll.state.get_connection_l2cap(handle))
    l2.register_monitor_callback(p.log_message)
    return p, l2

def do_send_ll(mtu, cid, sdu):
    p, l2 = mk_phy()
    l2.set_remote_mtu(mtu)
    try:
        if cid == 6:
            l2.on_smp_packet_recv(sdu)
        elif cid == 4:
            l2.on_att_packet_recv(sdu)
        else:
            l2.on_att_packet_recv(sdu, channel=cid)
    except Exception as e:  # noqa
        return {"exc": type(e).__name__}
    pdus = []
    for m in p.messages:
        if m.destination == 'phy' and m.tag == 'data':
            pdus.append([int(m.data.LLID), bytes(m.data.payload).hex()])
    return {"pdus": pdus}

def do_recv_ll(pdus):
    p, l2 = mk_phy()
    try:
        for llid, hx in pdus:
            p.send('ll', BTLE_DATA(LLID=llid) / bytes.fromhex(hx), tag='data', conn_handle=42)
    except Exception as e:  # noqa
        return {"exc": type(e).__name__}
    out = []
    for m in p.messages:
        if m.source == l2.name and m.destination in CID_OF:
            out.append([CID_OF[m.destination], bytes(m.data).hex()])
    return {"out": out}

def do_send_after(ops, cid, sdu):
    """history of set_local_mtu / set_remote_mtu calls, then one SDU"""
    ll = LL()
    try:
        for is_local, m in ops:
            (ll.l2.set_local_mtu if is_local else ll.l2.set_remote_mtu)(m)
        if cid == 6:
            ll.l2.on_smp_packet_recv(sdu)
        elif cid == 4:
            ll.l2.on_att_packet_recv(sdu)
        else:
            ll.l2.on_att_packet_recv(sdu, channel=cid)
    except Exception as e:  # noqa
        return {"exc": type(e).__name__}
    frags = [[bool(m.args.get('fragment', False)), bytes(m.data).hex()] for m in ll.messages if m.destination == 'll']
    return {"frags": frags, "local_mtu": int(ll.l2.get_local_mtu())}

def do_e2e(mtu, cid, sdus, handle=42):
    """two real LinkLayer+L2CAP stacks; the data PDU OBJECTS emitted towards phy by the
    first are handed, as produced, to the second."""
    pa, la = mk_phy(handle)
    pb, lb = mk_phy(handle)
    la.set_remote_mtu(mtu)
    out, sizes = [], []
    try:
        for sdu in sdus:
            pa.messages.clear()
            if cid == 6:
                la.on_smp_packet_recv(sdu)
            else:
                la.on_att_packet_recv(sdu)
            for m in list(pa.messages):
                if m.destination == 'phy' and m.tag == 'data':
                    sizes.append(len(bytes(m.data.payload)))
                    pb.send('ll', m.data, tag='data', conn_handle=handle)
    except Exception as e:  # noqa
        return {"exc": type(e).__name__}
    for m in pb.messages:
        if m.source == lb.name and m.destination in CID_OF:
            out.append([CID_OF[m.destination], bytes(m.data).hex()])
    return {"out": out, "sizes": sizes}

def main():
    req = json.load(sys.stdin)
    res = {"send": [do_send(m, c, bytes.fromhex(h)) for m, c, h in req.get("send", [])],
           "recv": [do_recv(f) for f in req.get("recv", [])],
           "send_ll": [do_send_ll(m, c, bytes.fromhex(h)) for m, c, h in req.get("send_ll", [])],
           "recv_ll": [do_recv_ll(f) for f in req.get("recv_ll", [])],
           "send_after": [do_send_after(o, c, bytes.fromhex(h)) for o, c, h in req.get("send_after", [])],
           "e2e": [do_e2e(e[0], e[1], [bytes.fromhex(h) for h in e[2]], *(e[3:4])) for e in req.get("e2e", [])]}
    print("RESULT " + json.dumps(res))

main()
