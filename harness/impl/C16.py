"""C16 implementation driver: builds GATT Profile classes with type(), runs add/update/remove
service operations on the real whad.ble.profile code and returns canonical observables.

stdin : {"cases": [case, ...]}   (case format: see harness/props/C16.py, gen_case)
stdout: RESULT {"cases": [result, ...]}

result = {"steps": [light, ...],          # after build and after every operation
          "final": [entry, ...],           # full attribute DB dump (sorted by key)
          "lookups": {...}, "export": [...], "export_text": str,
          "reimport": {"same": bool, "export": [...], "db": [...], "final": [...], "lookups": {...}} | {"exc": cls}}
       | {"exc": cls, "stage": "build" | "op<k>" | "export" | ..., + whatever was observed before}
light  = {"db": [[key, cls, obj.handle], ...] (dict iteration order), "next": int|None, "svcs": [[handle, end_handle], ...]}
Only the public API is used, except `_Profile__handle` (next free handle; None if absent).
"""
import sys, json, logging
logging.disable(logging.CRITICAL)
from whad.ble.profile import Profile
from whad.ble.profile.attribute import UUID, Attribute
from whad.ble.profile.service import (Service, PrimaryService, SecondaryService, IncludeService,
                                      StandardService)
from whad.ble.profile.characteristic import (Characteristic, CharacteristicValue, Descriptor,
                                             CharacteristicDescriptor, ClientCharacteristicConfig,
                                             ReportReference, ReportReferenceDescriptor, UserDescription,
                                             CharacteristicUserDescriptionDescriptor)
from whad.ble.stack.att.constants import (SecurityAccess, ReadAccess, WriteAccess, Encryption,
                                          Authentication, Authorization)


# ---------------------------------------------------------------- construction

def mk_uuid(u):
    t = u["t"]
    if t in ("i16", "i128"):
        return UUID(int(u["v"]))
    if t in ("s4", "s36"):
        return UUID(u["s"])
    if t in ("b16", "b2"):
        return UUID(bytes.fromhex(u["h"]))
    raise ValueError(t)


def mk_security(sec, single, union):
    if sec is None:
        return None
    objs = []
    for typ, enc, auth, authz in sec:
        cls = {"r": ReadAccess, "w": WriteAccess, "b": SecurityAccess}[typ]
        props = [c for c, f in ((Encryption, enc), (Authentication, auth), (Authorization, authz)) if f]
        if union and len(props) >= 2:
            u = props[0]
            for q in props[1:]:
                u = u | q
            objs.append(cls(u))
        else:
            objs.append(cls(*props))
    if single and len(objs) == 1:
        return objs[0]
    return objs


def mk_desc(d):
    k = d["k"]
    old = d.get("old", False)
    if k == "cccd":
        return ClientCharacteristicConfig(notify=d["notify"], indicate=d["indicate"])
    if k == "report":
        return (ReportReferenceDescriptor if old else ReportReference)()
    if k == "user":
        return (CharacteristicUserDescriptionDescriptor if old else UserDescription)(description=d["text"])
    if k == "generic":
        return (CharacteristicDescriptor if old else Descriptor)(mk_uuid(d["uuid"]), value=bytes.fromhex(d["value"]))
    raise ValueError(k)


SHARED = {}      # per case: characteristic TEMPLATE objects declared in several services


def mk_char(c, share=True):
    if share and c.get("shared") is not None:
        if c["shared"] not in SHARED:
            SHARED[c["shared"]] = mk_char(c, share=False)
        return SHARED[c["shared"]]
    kw = dict(uuid=mk_uuid(c["uuid"]), value=bytes.fromhex(c["value"]), properties=c["properties"],
              notify=c["notify"], indicate=c["indicate"])
    if c["permissions"] is not None:
        kw["permissions"] = list(c["permissions"])
    if c["description"] is not None:
        kw["description"] = c["description"]
    sec = mk_security(c["security"], c.get("sec_single", False), c.get("sec_union", False))
    if sec is not None:
        kw["security"] = sec
    if c["descriptors"]:
        kw["descriptors"] = [mk_desc(d) for d in c["descriptors"]]
    return Characteristic(**kw)


def mk_service(s):
    """A service TEMPLATE object as a user would declare it."""
    kind = s["kind"]
    uuid = mk_uuid(s["uuid"])
    chars = [("c%02d" % i, mk_char(c)) for i, c in enumerate(s["chars"])]
    incs = [("i%02d" % i, SecondaryService(mk_uuid(u))) for i, u in enumerate(s["includes"])]
    if kind == "primary":
        children = chars + incs
        if s.get("includes_first"):
            children = incs + chars
        return PrimaryService(uuid=uuid, **dict(children))
    if kind == "secondary":
        svc = SecondaryService(uuid)
        for _n, ch in chars:
            svc.add_characteristic(ch)
        return svc
    if kind == "standard":
        ns = {"_uuid": uuid}
        ns.update(dict(chars + incs))
        return type("Std_%s" % s["name"], (StandardService,), ns)()
    raise ValueError(kind)


# ---------------------------------------------------------------- observation

def uuid_obs(u):
    return {"k": 16 if len(u.packed) == 2 else 128, "v": str(int.from_bytes(u.packed, "little")), "s": str(u)}


def cls_of(a):
    if isinstance(a, Service):
        return "svc"
    if isinstance(a, IncludeService):
        return "inc"
    if isinstance(a, Characteristic):
        return "chr"
    if isinstance(a, CharacteristicValue):
        return "val"
    if isinstance(a, Descriptor):
        return "dsc"
    return "other"


def sec_obs(sec):
    out = []
    for a in sec:
        typ = "r" if isinstance(a, ReadAccess) else ("w" if isinstance(a, WriteAccess) else "b")
        out.append([typ, Encryption in a.access, Authentication in a.access, Authorization in a.access])
    return out


def entry(key, a):
    c = cls_of(a)
    e = {"key": key, "cls": c, "handle": a.handle, "type": uuid_obs(a.type_uuid)}
    if c == "svc":
        e.update(primary=isinstance(a, PrimaryService), secondary=isinstance(a, SecondaryService),
                 uuid=uuid_obs(a.uuid), end=a.end_handle,
                 chars=[ch.handle for ch in a.characteristics()],
                 incs=[i.handle for i in a.included_services()])
    elif c == "inc":
        e.update(uuid=uuid_obs(a.service_uuid))
    elif c == "chr":
        e.update(uuid=uuid_obs(a.uuid), props=a.properties, vhandle=a.value_handle, end=a.end_handle,
                 sec=sec_obs(a.security), descs=[d.handle for d in a.descriptors()],
                 vattr=a.value_attr.handle)
    elif c == "val":
        ch = a.characteristic
        e.update(value=Attribute.value.fget(a).hex(), chr=(ch.handle if ch is not None else None))
    elif c == "dsc":
        dk = ("cccd" if isinstance(a, ClientCharacteristicConfig) else
              "report" if isinstance(a, ReportReference) else
              "user" if isinstance(a, UserDescription) else "generic")
        e.update(dkind=dk, uuid=uuid_obs(a.type_uuid), value=Attribute.value.fget(a).hex())
    return e


def listed_services(p):
    """Service objects of the profile in handle order (public API only), each object once."""
    seen, out = set(), []
    for s in p.services():
        if id(s) not in seen:
            seen.add(id(s))
            out.append(s)
    out.sort(key=lambda s: s.handle)
    return out


def light(p):
    db = list(p.db.items())           # dict iteration order
    return {"db": [[k, cls_of(a), a.handle] for k, a in db],
            "next": getattr(p, "_Profile__handle", None),
            "svcs": [[s.handle, s.end_handle] for s in listed_services(p)]}


def full(p):
    return [entry(k, a) for k, a in p.db.items()]       # dict iteration order


def guard(f):
    try:
        return f()
    except Exception as e:  # noqa
        return {"exc": type(e).__name__}


def lookups(p, q):
    nxt = q.get("hmax") or (max(list(p.db.keys()) + [getattr(p, "_Profile__handle", 0) or 0]) + 2)
    lo = q.get("hmin", 0)
    res = {"hmax": nxt, "hmin": lo}
    def by_handle(h):
        a = p.find_object_by_handle(h)
        return [cls_of(a), a.handle]
    def val2chr(h):
        c = p.find_characteristic_by_value_handle(h)
        return None if c is None else c.handle
    def chr2svc(h):
        return p.find_service_by_characteristic_handle(h).handle
    res["by_handle"] = [guard(lambda h=h: by_handle(h)) for h in range(lo, nxt + 1)]
    res["val2chr"] = [guard(lambda h=h: val2chr(h)) for h in range(lo, nxt + 1)]
    res["chr2svc"] = [guard(lambda h=h: chr2svc(h)) for h in range(lo, nxt + 1)]
    res["chr_end"] = [guard(lambda h=h: p.find_characteristic_end_handle(h)) for h in range(lo, nxt + 1)]
    res["ranges"] = [guard(lambda a=a, b=b: [[cls_of(o), o.handle] for o in p.find_objects_by_range(a, b)])
                     for a, b in q["ranges"]]
    res["by_type"] = [guard(lambda u=u, a=a, b=b: [o.handle for o in p.attr_by_type_uuid(mk_uuid(u), a, b)])
                      for u, a, b in q["by_type"]]
    def svc_by(u):
        s = p.service(mk_uuid(u))
        return None if s is None else s.handle
    def chr_by(u):
        c = p.char(mk_uuid(u))
        return None if c is None else c.handle
    res["svc_by_uuid"] = [guard(lambda u=u: svc_by(u)) for u in q["svc_uuids"]]
    res["svc_by_uuid_old"] = [guard(lambda u=u: (lambda s: None if s is None else s.handle)(p.get_service_by_uuid(mk_uuid(u))))
                              for u in q["svc_uuids"]]
    res["chr_by_uuid"] = [guard(lambda u=u: chr_by(u)) for u in q["chr_uuids"]]
    return res


def text_uuid(s):
    """UUID as exported text -> observable (kind by text form)."""
    if not isinstance(s, str):
        return {"k": 0, "v": "0", "s": repr(s)}
    t = s.replace("-", "")
    try:
        v = int.from_bytes(bytes.fromhex(t)[::-1], "little")
    except ValueError:
        return {"k": 0, "v": "0", "s": s}
    if len(s) == 4:
        return {"k": 16, "v": str(v), "s": s}
    if len(s) == 36:
        return {"k": 128, "v": str(v), "s": s}
    return {"k": 129, "v": str(v), "s": s}     # 32 hex characters without dashes (UUID built from a 128-bit int)


def parse_export(j):
    d = json.loads(j)
    out = []
    for s in d.get("services", []):
        chars = []
        for c in s.get("characteristics", []):
            v = c.get("value", {})
            chars.append({"handle": c.get("handle", -1), "uuid": text_uuid(c.get("uuid")),
                          "props": c.get("properties", -1), "sec": c.get("security", -1),
                          "vhandle": v.get("handle", -1), "vuuid": text_uuid(v.get("uuid")),
                          "data": v.get("data", "<missing>"),
                          "descs": [{"handle": x.get("handle", -1), "uuid": text_uuid(x.get("uuid")),
                                     "value": x.get("value", "<missing>")} for x in c.get("descriptors", [])]})
        out.append({"uuid": text_uuid(s.get("uuid")), "type": text_uuid(s.get("type_uuid")),
                    "start": s.get("start_handle", -1), "end": s.get("end_handle", -1), "chars": chars})
    out.sort(key=lambda s: (s["start"], json.dumps(s, sort_keys=True)))
    return out


# ---------------------------------------------------------------- one case

def run_case(case):
    res = {"steps": []}
    SHARED.clear(); MID.clear()
    try:
        ns = {}
        for s in case["services"]:
            ns[s["name"]] = mk_service(s)
        cls = type("GenProfile", (Profile,), ns)
        p = cls(start_handle=case["start"]) if case["start"] != 1 or case.get("explicit_start") else cls()
    except Exception as e:  # noqa
        res.update(exc=type(e).__name__, stage="build", msg=str(e)[:200])
        return res
    res["steps"].append(light(p))
    # further instances of the SAME class (other / same start handle): each must get its own
    # objects and leave the first instance untouched
    if case.get("again"):
        try:
            before = (light(p), full(p), p.export_json())
            ids1 = {id(a) for a in p.db.values()}
            res["again"] = []
            for st in case["again"]:
                p2 = cls(start_handle=st)
                after = (light(p), full(p), p.export_json())
                res["again"].append({"start": st, "light": light(p2),
                                     "disjoint": not (ids1 & {id(a) for a in p2.db.values()}),
                                     "first_same": after == before, "first_light": after[0]})
        except Exception as e:  # noqa
            res.update(exc=type(e).__name__, stage="second-instance", msg=str(e)[:200])
            return res
    for k, op in enumerate(case["ops"]):
        try:
            svcs = listed_services(p)
            o = op["op"]
            if o == "add":
                p.add_service(mk_service(op["svc"]))
            elif op["i"] >= len(svcs):
                pass
            elif o == "update":
                res.setdefault("rets", {})[str(k)] = p.update_service(svcs[op["i"]])
            elif o == "addchar":
                s = svcs[op["i"]]
                s.add_characteristic(mk_char(op["char"], share=False))
                MID[k] = ["add_characteristic", obj_layout(s)]
                res.setdefault("rets", {})[str(k)] = p.update_service(s)
            elif o == "delchar":
                s = svcs[op["i"]]
                cs = list(s.characteristics())
                if op["j"] < len(cs):
                    s.remove_characteristic(cs[op["j"]])
                    MID[k] = ["remove_characteristic", obj_layout(s)]
                    res.setdefault("rets", {})[str(k)] = p.update_service(s)
            elif o == "adddesc":
                s = svcs[op["i"]]
                cs = list(s.characteristics())
                if op["j"] < len(cs):
                    d = mk_desc(op["desc"])
                    d.characteristic = cs[op["j"]]
                    cs[op["j"]].add_descriptor(d)
                res.setdefault("rets", {})[str(k)] = p.update_service(s)
            elif o == "remove":
                p.remove_service(svcs[op["i"]])
            else:
                raise ValueError(o)
        except Exception as e:  # noqa
            res.update(exc=type(e).__name__, stage="op%d" % k, msg=str(e)[:200])
            res["steps"].append(guard(lambda: light(p)))
            return res
        res["steps"].append(light(p))
    res["mid"] = {str(k): v for k, v in MID.items()}
    try:
        res["final"] = full(p)
        res["lookups"] = lookups(p, case["queries"])
    except Exception as e:  # noqa
        res.update(exc=type(e).__name__, stage="observe", msg=str(e)[:200])
        return res
    try:
        j = p.export_json()
        res["export_text"] = j if len(j) < 3000 else j[:3000]
        res["export"] = parse_export(j)
    except Exception as e:  # noqa
        res.update(exc=type(e).__name__, stage="export", msg=str(e)[:200])
        return res
    try:
        q = Profile(from_json=j)
        j2 = q.export_json()
        res["reimport"] = {"same": j2 == j, "export": parse_export(j2),
                           "db": light(q)["db"], "final": full(q),
                           "lookups": lookups(q, case["queries"])}
    except Exception as e:  # noqa
        res["reimport"] = {"exc": type(e).__name__, "msg": str(e)[:200]}
    return res


def obj_layout(s):
    """The handles a service OBJECT carries (public properties), before the profile re-registers it."""
    return {"handle": s.handle, "end": s.end_handle, "incs": [i.handle for i in s.included_services()],
            "chars": [[c.handle, c.value_handle, c.end_handle, [d.handle for d in c.descriptors()]] for c in s.characteristics()]}


MID = {}         # per case: step index -> layout of the mutated service object, before update_service


def apply_op(p, op, k=None):
    """One operation on the profile (same as in run_case)."""
    svcs = listed_services(p)
    o = op["op"]
    if o == "add":
        p.add_service(mk_service(op["svc"]))
    elif op["i"] >= len(svcs):
        pass
    elif o == "update":
        p.update_service(svcs[op["i"]])
    elif o == "addchar":
        s = svcs[op["i"]]
        s.add_characteristic(mk_char(op["char"], share=False))
        MID[k] = ["add_characteristic", obj_layout(s)]
        p.update_service(s)
    elif o == "delchar":
        s = svcs[op["i"]]
        cs = list(s.characteristics())
        if op["j"] < len(cs):
            s.remove_characteristic(cs[op["j"]])
            MID[k] = ["remove_characteristic", obj_layout(s)]
            p.update_service(s)
    elif o == "adddesc":
        s = svcs[op["i"]]
        cs = list(s.characteristics())
        if op["j"] < len(cs):
            d = mk_desc(op["desc"])
            d.characteristic = cs[op["j"]]
            cs[op["j"]].add_descriptor(d)
        p.update_service(s)
    elif o == "remove":
        p.remove_service(svcs[op["i"]])
    else:
        raise ValueError(o)


def run_hist(case):
    """A history in which service objects are assembled by hand, in any order of the primitive
    operations, interleaved with operations on the profile; observed after EVERY step."""
    res = {"steps": []}
    SHARED.clear(); MID.clear()
    try:
        ns = {}
        for s in case["services"]:
            ns[s["name"]] = mk_service(s)
        cls = type("GenProfile", (Profile,), ns)
        p = cls(start_handle=case["start"])
    except Exception as e:  # noqa
        res.update(exc=type(e).__name__, stage="build", msg=str(e)[:200])
        return res
    res["steps"].append(light(p))
    pending = []
    for k, h in enumerate(case["hops"]):
        try:
            t = h["h"]
            if t == "new":
                pending.append(PrimaryService(uuid=mk_uuid(h["uuid"])) if h["primary"] else SecondaryService(mk_uuid(h["uuid"])))
            elif t == "op":
                apply_op(p, h["op"], k)
            elif h["i"] >= len(pending):
                pass
            elif t == "attach":
                pending[h["i"]].add_characteristic(mk_char(h["char"], share=False))
            elif t == "desc":
                cs = list(pending[h["i"]].characteristics())
                if h["j"] < len(cs):
                    d = mk_desc(h["desc"])
                    d.characteristic = cs[h["j"]]
                    cs[h["j"]].add_descriptor(d)
            elif t == "incl":
                pending[h["i"]].add_included_service(IncludeService(mk_uuid(h["uuid"])))
            elif t == "register":
                p.add_service(pending.pop(h["i"]))
            else:
                raise ValueError(t)
        except Exception as e:  # noqa
            res.update(exc=type(e).__name__, stage="hop%d" % k, msg=str(e)[:200])
            res["steps"].append(guard(lambda: light(p)))
            return res
        res["steps"].append(light(p))
    res["mid"] = {str(k): v for k, v in MID.items()}
    try:
        res["final"] = full(p)
        res["lookups"] = lookups(p, case["queries"])
        j = p.export_json()
        res["export_text"] = j[:3000]
        res["export"] = parse_export(j)
    except Exception as e:  # noqa
        res.update(exc=type(e).__name__, stage="observe", msg=str(e)[:200])
        return res
    try:
        q = Profile(from_json=j)
        j2 = q.export_json()
        res["reimport"] = {"same": j2 == j, "export": parse_export(j2), "db": light(q)["db"], "final": full(q),
                           "lookups": lookups(q, case["queries"])}
    except Exception as e:  # noqa
        res["reimport"] = {"exc": type(e).__name__, "msg": str(e)[:200]}
    return res


def sec_case(c):
    """SecurityAccess conversions on their own: list -> int -> list -> int."""
    try:
        objs = mk_security(c["sec"], False, c.get("union", False))
        n = SecurityAccess.accesses_to_int(objs)
        back = SecurityAccess.int_to_accesses(n)
        return {"int": n, "back": sec_obs(back), "int2": SecurityAccess.accesses_to_int(back)}
    except Exception as e:  # noqa
        return {"exc": type(e).__name__}


def int_case(n):
    try:
        back = SecurityAccess.int_to_accesses(n)
        return {"back": sec_obs(back), "int2": SecurityAccess.accesses_to_int(back)}
    except Exception as e:  # noqa
        return {"exc": type(e).__name__}


def main():
    req = json.load(sys.stdin)
    out = {"cases": [(run_hist(c) if "hops" in c else run_case(c)) for c in req.get("cases", [])],
           "sec": [sec_case(c) for c in req.get("sec", [])],
           "ints": [int_case(n) for n in req.get("ints", [])]}
    print("RESULT " + json.dumps(out))


main()
