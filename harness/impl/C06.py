"""C06 implementation driver (runs under /venv/bin/python, PYTHONPATH = tree under verification).

stdin  {"mode": "translate"}                       -> RESULT <translator output>
stdin  {"mode": "eval", "preds": [...], "ctors": [...], "ops": [...], "di": [...]}
  preds : [domain_key, cmds, caps, noise_seed]     -> [truth value of every predicate of the domain, in translator order]
  ctors : [role_id, cmds, caps, dom(bool), noise_seed, [names of optional constructor parameters to supply]]
          -> {"r": "ok"|"false"|exception class, "sent": [domain message names]} | {"skip": reason}
  ops   : [op_id, cmds, caps, noise_seed]          -> same, or {"skip": reason} when the connector itself cannot be built
  di    : [[words], [[domain, commands], ...], domain, capmask] -> [has_domain, caps|null, cmds|null, has_domain_cap]
The real connectors run against a recording interface: a VirtualDevice subclass without
transport that answers the discovery queries from the requested words, records every
message the connector sends and acknowledges every domain command with Success.
Only instrumentation from outside the tree: ConnIoThread.start is replaced by a no-op (no
background thread per connector; the observables do not depend on it).
"""
import sys, os, json, logging, random, inspect, importlib
logging.disable(logging.CRITICAL)
HERE = os.path.dirname(os.path.abspath(__file__))
sys.path.insert(0, os.path.join(os.path.dirname(HERE), "translators"))
import C06_preds as T


def load_runtime():
    global VirtualDevice, DeviceInfo, Domain, CommandResult, connector_mod
    from whad.device.device import VirtualDevice
    from whad.device.info import DeviceInfo
    from whad.hub.discovery import Domain
    from whad.hub.generic.cmdresult import CommandResult
    import whad.device.connector as connector_mod
    connector_mod.ConnIoThread.start = lambda self: None

    class RecDevice(VirtualDevice):
        """Recording interface."""
        INTERFACE_NAME = "c06rec"

        def __init__(self, words, commands):
            super().__init__()
            self._dev_type, self._dev_id = 4, b"c06"
            self._fw_author, self._fw_url, self._fw_version = b"verif", b"none", (9, 9, 9)
            self.words = list(words)            # raw capability words advertised
            self.commands = dict(commands)      # domain -> supported command mask
            self.log = []                       # (message_type, message_name) of everything sent by the connector
            self._Device__timeout = 0.05

        def open(self):
            self._Device__opened = True

        def close(self):
            self._Device__opened = False

        def reset(self):
            return None

        def send_message(self, message, keep=None):
            self.log.append((message.message_type, message.message_name))
            super().send_message(message, keep)

        def _on_whad_discovery_info_query(self, _):
            self._send_whad_message(self.hub.discovery.create_info_resp(
                4, self._dev_id, 0x0100, 0, self._fw_author, self._fw_url, 9, 9, 9, self.words))

        def _on_whad_discovery_domain_query(self, message):
            self._send_whad_message(self.hub.discovery.create_domain_resp(
                message.domain, self.commands.get(message.domain, 0)))

        def _on_whad_message(self, message):
            if message.message_type == "discovery" and message.message_name in ("info_query", "domain_query"):
                return super()._on_whad_message(message)
            if message.message_type == "phy" and message.message_name == "get_supported_freq":
                return self._send_whad_message(self.hub.phy.create_supported_freq_ranges([(2400000000, 2500000000)]))
            if message.message_type == "phy" and message.message_name == "sched_send":
                return self._send_whad_message(self.hub.phy.create_schedule_packet_response(1, False))
            self._send_whad_command_result(CommandResult.SUCCESS)

        def domain_messages(self):
            return [n for t, n in self.log if t not in ("discovery", "generic")]

        def domain_message_bits(self, enums):
            """command number of each domain message sent (-1: no command known for that message)"""
            out = []
            for t, n in self.log:
                if t in ("discovery", "generic"):
                    continue
                cmd = MSG_CMD.get(t, {}).get(n)
                if cmd is None and n.startswith("prepare"):
                    cmd = "PrepareSequence"
                out.append(enums.get(t, {}).get(cmd, -1))
            return out

    return RecDevice


# domain message (protobuf field name) -> name of the command (class Commands) the interface must advertise
MSG_CMD = {
    "ble": {"set_bd_addr": "SetBdAddress", "sniff_adv": "SniffAdv", "jam_adv": "JamAdv", "jam_adv_chan": "JamAdvOnChannel",
            "reactive_jam": "ReactiveJam", "sniff_connreq": "SniffConnReq", "sniff_aa": "SniffAccessAddress",
            "sniff_conn": "SniffActiveConn", "jam_conn": "JamConn", "scan_mode": "ScanMode", "adv_mode": "AdvMode",
            "set_adv_data": "SetAdvData", "central_mode": "CentralMode", "connect": "ConnectTo", "send_raw_pdu": "SendRawPDU",
            "send_pdu": "SendPDU", "disconnect": "Disconnect", "periph_mode": "PeripheralMode", "start": "Start", "stop": "Stop",
            "encryption": "SetEncryption", "hijack_master": "HijackMaster", "hijack_slave": "HijackSlave",
            "hijack_both": "HijackBoth", "prepare": "PrepareSequence", "trigger": "TriggerSequence", "delete_seq": "DeleteSequence"},
    "dot15d4": {"set_node_addr": "SetNodeAddress", "sniff": "Sniff", "jam": "Jam", "ed": "EnergyDetection", "send": "Send",
                "send_raw": "SendRaw", "end_device": "EndDeviceMode", "router": "RouterMode", "coordinator": "CoordinatorMode",
                "start": "Start", "stop": "Stop", "mitm": "ManInTheMiddle"},
    "esb": {"set_node_addr": "SetNodeAddress", "sniff": "Sniff", "jam": "Jam", "send": "Send", "send_raw": "SendRaw",
            "prx": "PrimaryReceiverMode", "ptx": "PrimaryTransmitterMode", "start": "Start", "stop": "Stop"},
    "unifying": {"set_node_addr": "SetNodeAddress", "sniff": "Sniff", "jam": "Jam", "send": "Send", "send_raw": "SendRaw",
                 "dongle": "LogitechDongleMode", "keyboard": "LogitechKeyboardMode", "mouse": "LogitechMouseMode",
                 "start": "Start", "stop": "Stop", "sniff_pairing": "SniffPairing"},
    "phy": {"mod_ask": "SetASKModulation", "mod_fsk": "SetFSKModulation", "mod_gfsk": "SetGFSKModulation",
            "mod_bpsk": "SetBPSKModulation", "mod_qpsk": "SetQPSKModulation", "mod_4fsk": "Set4FSKModulation",
            "mod_msk": "SetMSKModulation", "get_supported_freq": "GetSupportedFrequencies", "set_freq": "SetFrequency",
            "datarate": "SetDataRate", "endianness": "SetEndianness", "tx_power": "SetTXPower", "packet_size": "SetPacketSize",
            "sync_word": "SetSyncWord", "sniff": "Sniff", "send": "Send", "send_raw": "SendRaw", "start": "Start", "stop": "Stop",
            "jam": "Jam", "monitor": "Monitor", "mod_lora": "SetLoRaModulation", "sched_send": "ScheduleSend"},
}
ENUMS = {}     # message_type -> {command name: number}, filled in main()

ALL_DOMAINS = [0x01000000, 0x03000000, 0x04000000, 0x06000000, 0x07000000]


def make_device(RecDevice, domain, cmds, caps, dom, seed):
    """An interface advertising `domain` (if dom) with the given words, plus other domains
    with unrelated random words (so that reading another domain's words would show)."""
    rng = random.Random(seed)
    words, commands = [], {}
    for d in ALL_DOMAINS:
        if d == domain:
            continue
        if rng.random() < 0.6:
            words.append(d | rng.getrandbits(24))
            commands[d] = rng.getrandbits(32)
    if dom:
        words.insert(rng.randrange(len(words) + 1), domain | (caps & 0xFFFFFF))
        commands[domain] = cmds
    return RecDevice(words, commands)


def outcome(fn, dev):
    try:
        r = fn()
        res = "false" if (r is False or r is None) else "ok"
    except BaseException as e:  # noqa
        res = type(e).__name__
    return {"r": res, "sent": dev.domain_messages(), "bits": dev.domain_message_bits(ENUMS)}


# ---- arguments for guarded operations (only matter on paths where the guard holds) ----
def op_args(fn, dk, variant=None):
    """variant "ctrl": BLE PDU arguments carry a link-layer CONTROL layer (BTLE_CTRL)"""
    from scapy.packet import Raw
    sig = inspect.signature(fn)
    args = {}
    for name, p in sig.parameters.items():
        if name == "channel" and p.default is None:
            args[name] = 5          # no cached channel on a fresh connector
            continue
        if p.default is not inspect.Parameter.empty or p.kind in (p.VAR_POSITIONAL, p.VAR_KEYWORD):
            continue
        if name == "trigger":
            from whad.common.triggers import ManualTrigger
            args[name] = ManualTrigger()
        elif name in ("pdu", "packet", "data"):
            if dk == "ble" and variant == "ctrl":
                from scapy.layers.bluetooth4LE import BTLE_DATA, BTLE_CTRL, LL_TERMINATE_IND
                args[name] = BTLE_DATA(LLID=3) / BTLE_CTRL() / LL_TERMINATE_IND(code=0x13)
            elif dk == "ble":
                from scapy.layers.bluetooth4LE import BTLE_DATA
                args[name] = BTLE_DATA() / Raw(b"\x01\x02")
            elif dk == "phy":
                args[name] = b"\x01\x02\x03"
            elif dk == "dot15d4":
                args[name] = b"\x01\x02\x03\x04\x05"
            else:
                from whad.scapy.layers.esb import ESB_Hdr, ESB_Payload_Hdr
                args[name] = ESB_Hdr(address="11:22:33:44:55") / ESB_Payload_Hdr() / Raw(b"\x01\x02\x03")
        elif name in ("connection_data", "disconnection_data"):
            from whad.hub.events import ConnectionEvt
            args[name] = ConnectionEvt(conn_handle=1, initiator=b"\x11" * 6, advertiser=b"\x22" * 6, access_address=0,
                                       adv_addr_type=0, init_addr_type=0, reason=0x13)
        elif name == "pattern":
            args[name] = b"\xaa"
        elif name in ("access_address", "address"):
            args[name] = 0x1234 if dk == "dot15d4" else (0x12345678 if dk == "ble" else "11:22:33:44:55")
        elif name == "bd_address":
            args[name] = "11:22:33:44:55:66"
        elif name == "channel":
            args[name] = 11
        elif name == "frequency":
            args[name] = 2402000000
        elif name in ("rate", "size", "tx_power", "sf", "cr", "bw", "preamble"):
            args[name] = 8
        elif name == "sync_word":
            args[name] = b"\xaa\xaa"
        elif name == "endianness":
            from whad.hub.phy import Endianness
            args[name] = Endianness.BIG
        else:
            args[name] = 1
    return args


# ---- optional constructor arguments (supplied by name on request) -------------------------
def ctor_kwargs(names):
    """values for optional constructor parameters; unknown names are reported, not guessed"""
    kw, unknown = {}, []
    for n in names:
        if n == "bd_address":
            kw[n] = "11:22:33:44:55:66"
        elif n in ("adv_data", "scan_data"):
            from whad.ble.profile.advdata import AdvDataFieldList, AdvFlagsField
            kw[n] = AdvDataFieldList(AdvFlagsField())
        elif n == "profile":
            from whad.ble.profile import GenericProfile
            kw[n] = GenericProfile()
        elif n == "security_database":
            from whad.ble.stack.smp import CryptographicDatabase
            kw[n] = CryptographicDatabase()
        elif n == "public":
            kw[n] = False
        elif n == "synchronous":
            kw[n] = True
        elif n in ("applications", "profiles"):
            kw[n] = []
        elif n in ("existing_connection", "connection"):
            # the pseudo connection Hijacker.available_actions() builds after a hijack
            from whad.hub.events import ConnectionEvt
            c = ConnectionEvt()
            c.conn_handle = 0
            c.initiator = b"\x00\x00\x00\x00\x00\x00"
            c.init_addr_type = 0
            c.advertiser = b"\x00\x00\x00\x00\x00\x00"
            c.adv_addr_type = 0
            c.access_address = 0
            kw[n] = c
        elif n == "from_json":
            from whad.ble.profile import GenericProfile
            kw[n] = GenericProfile().export_json()
        elif n == "stack":
            from whad.ble.stack import BleStack
            kw[n] = BleStack
        elif n == "gatt":
            from whad.ble.stack.gatt import GattServer
            kw[n] = GattServer
        elif n == "client":
            from whad.ble.stack.gatt import GattClient
            kw[n] = GattClient
        elif n == "pairing":
            from whad.ble.stack.smp import Pairing
            kw[n] = Pairing()
        elif n == "configuration":
            from whad.rf4ce.connector.sniffer import SnifferConfiguration
            kw[n] = SnifferConfiguration()
        elif n == "scapy_config":
            kw[n] = "zigbee"
        else:
            unknown.append(n)
    return kw, unknown


SUPPLYABLE = ["bd_address", "adv_data", "scan_data", "profile", "security_database", "public", "synchronous",
              "applications", "profiles", "existing_connection", "connection", "from_json", "stack", "gatt", "client",
              "pairing", "configuration", "scapy_config"]


def main():
    req = json.load(sys.stdin)
    if req.get("mode") == "translate":
        print("RESULT " + json.dumps(T.translate(want_ops=req.get("want_ops", ()))))
        return
    RecDevice = load_runtime()
    res = {"preds": [], "ctors": [], "ops": [], "di": [], "seqs": []}
    # ---- predicates
    bases, pred_names, dvals = {}, {}, {}
    for dk, (modname, cname) in T.BASES.items():
        mod = importlib.import_module(modname)
        cls = getattr(mod, cname)
        bases[dk] = cls
        dvals[dk] = T.domain_of(cls)[0]
        ENUMS[dk] = {k: int(v) for k, v in vars(mod.Commands).items() if not k.startswith("_") and isinstance(v, int)}
        import ast
        _p, _s, cn = T.class_node(cls)
        names = []
        for m in cn.body:
            if isinstance(m, ast.FunctionDef) and (m.name.startswith("can_") or m.name.startswith("support_")) and m.name not in names:
                names.append(m.name)
        pred_names[dk] = names
    for dk, cmds, caps, seed in req.get("preds", []):
        dev = make_device(RecDevice, dvals[dk], cmds, caps, True, seed)
        try:
            conn = bases[dk](dev)
            out = []
            for n in pred_names[dk]:
                try:
                    out.append(bool(getattr(conn, n)()))
                except BaseException as e:  # noqa
                    out.append(type(e).__name__)
            res["preds"].append(out)
        except BaseException as e:  # noqa
            res["preds"].append({"exc": type(e).__name__})
    # ---- constructors
    roles = {rid: (modname, cname, dk) for rid, modname, cname, dk in T.ROLES}
    rcls = {}
    for case in req.get("ctors", []):
        rid, cmds, caps, dom, seed = case[:5]
        modname, cname, dk = roles[rid]
        if rid not in rcls:
            rcls[rid] = getattr(importlib.import_module(modname), cname)
        dev = make_device(RecDevice, dvals[dk], cmds, caps, dom, seed)
        try:
            kw, unknown = ctor_kwargs(case[5] if len(case) > 5 else [])
        except BaseException as e:  # noqa
            res["ctors"].append({"skip": "args:" + type(e).__name__})
            continue
        if unknown:
            res["ctors"].append({"skip": "no recipe for " + ",".join(unknown)})
            continue
        res["ctors"].append(outcome(lambda: rcls[rid](dev, **kw) or True, dev))
    # ---- guarded operations
    ocls = {}
    def device_event(conn, dev, dk, name):
        """a notification originating from the device, delivered the way the connector's I/O thread
        delivers it: Connector.on_device_event(MessageReceived(device, hub message))"""
        from whad.device.device import MessageReceived
        h = dev.hub
        if dk == "ble":
            from whad.hub.ble.bdaddr import BDAddress
            from whad.hub.ble.chanmap import ChannelMap
            a, b = BDAddress("11:22:33:44:55:66"), BDAddress("66:55:44:33:22:11")
            msg = {"connected": lambda: h.ble.create_connected(a, b, 0x12345678, 1),
                   "disconnected": lambda: h.ble.create_disconnected(0x13, 1),
                   "synchronized": lambda: h.ble.create_synchronized(0x12345678, 6, 5, ChannelMap(), 0x123456),
                   "desynchronized": lambda: h.ble.create_desynchronized(0x12345678),
                   "triggered": lambda: h.ble.create_triggered(0)}[name]()
        else:
            msg = {"jammed": lambda: getattr(h, dk).create_jammed(1234),
                   "ed_sample": lambda: h.dot15d4.create_energy_detection_sample(1234, 5)}[name]()
        return outcome(lambda: conn.on_device_event(MessageReceived(dev, msg)) or True, dev)

    def call_method(conn, dev, dk, meth):
        if meth.startswith("@"):
            return device_event(conn, dev, dk, meth[1:])
        meth, _, variant = meth.partition("#")        # "send_pdu#ctrl": argument variant
        fn = getattr(conn, meth)
        kw = op_args(fn, dk, variant or None)
        return outcome(lambda: fn(**kw), dev)

    for case in req.get("ops", []):
        oid, cmds, caps, seed = case[:4]
        prefix = case[4] if len(case) > 4 else []
        dk, cname, meth = oid.split(".")
        if len(case) > 5 and case[5]:
            meth = meth + "#" + case[5]
        key = (dk, cname)
        if key not in ocls:
            modname = [m for d, m, c in T.OP_CLASSES if d == dk and c == cname][0]
            ocls[key] = getattr(importlib.import_module(modname), cname)
        dev = make_device(RecDevice, dvals[dk], cmds, caps, True, seed)
        try:
            conn = ocls[key](dev)
        except BaseException as e:  # noqa
            res["ops"].append({"skip": type(e).__name__})
            continue
        pre = []
        try:
            for pm in prefix:       # operations called before, on the same connector
                dev.log.clear()
                pre.append(call_method(conn, dev, dk, pm))
            dev.log.clear()
            o = call_method(conn, dev, dk, meth)
        except BaseException as e:  # noqa  (argument recipe failed)
            res["ops"].append({"skip": "args:" + type(e).__name__})
            continue
        if prefix:
            o["pre"] = pre
        res["ops"].append(o)
    # ---- sequences of operations on one role connector
    for rid, cmds, caps, seed, meths in req.get("seqs", []):
        modname, cname, dk = roles[rid]
        if rid not in rcls:
            rcls[rid] = getattr(importlib.import_module(modname), cname)
        dev = make_device(RecDevice, dvals[dk], cmds, caps, True, seed)
        holder = {}
        def build():
            holder["c"] = rcls[rid](dev)
            return True
        o = {"ctor": outcome(build, dev), "steps": []}
        if "c" in holder:
            for m in meths:
                dev.log.clear()
                try:
                    o["steps"].append(dict(call_method(holder["c"], dev, dk, m), op=m))
                except BaseException as e:  # noqa
                    o["steps"].append({"op": m, "skip": "args:" + type(e).__name__})
        res["seqs"].append(o)
    # ---- DeviceInfo
    from whad.hub import ProtocolHub
    for words, adds, d, cap in req.get("di", []):
        msg = ProtocolHub(2).discovery.create_info_resp(0, b"x", 2, 0, b"a", b"u", 1, 0, 0, list(words))
        info = DeviceInfo(msg)
        for dd, cc in adds:
            info.add_supported_commands(dd, cc)
        res["di"].append([bool(info.has_domain(d)), info.get_domain_capabilities(d), info.get_domain_commands(d),
                          bool(info.has_domain_cap(d, cap))])
    print("RESULT " + json.dumps(res))
    sys.stdout.flush()
    os._exit(0)     # connectors may have started helper threads; nothing left to observe


main()
