"""C04/C05 implementation driver: the real Device / VirtualDevice / Connector code (and the real
DevInThread / DevOutThread / ConnIoThread run loops) under forced schedules.

stdin : {"cases": [case, ...], "labels": bool}
  case = {"cfg": {"conn": bool, "virt": bool, "tmo": int},
          "script": [["cmd", fc, [[frame, ...], ...]] | ["send", fc|null, [[frame, ...], ...]]
                     | ["lock"] | ["unlock"] | ["sync", mode] | ["wait", t|null]],
          "spont": [[frame, ...], ...], "locked0": bool,
          "prefix": [action, ...], "tail": bool, "cap": int}
  frame  = [cls, uid, pkt] | null (undecodable);  action = 0 A, 1 W, 2 R, 3 C, 4 tick, 5 emit
stdout: RESULT {"results": [{"sched": [...], "obs": {...}, "capped": bool, "info": {...}} | {"error": str}]}
"""
import sys, os, json, logging, threading, time as _rt
logging.disable(logging.CRITICAL)
sys.path.insert(0, os.path.dirname(os.path.abspath(__file__)))
import C04_sched as S

D, K, B = S.install()

# Connector.__callbacks_lock only guards the monitoring callback tables (none attached here):
# it is not a yield point of the model.  Done from outside, after the real __init__ ran.
_CONN_INIT = K.Connector.__init__


def _conn_init(self, device=None):
    _CONN_INIT(self, device)
    self._Connector__callbacks_lock.yielding = False


K.Connector.__init__ = _conn_init

from whad.hub import ProtocolHub
from whad.hub.ble import Direction, AdvType
from whad.hub.ble.bdaddr import BDAddress
from whad.hub.ble.pdu import BlePduReceived, BleAdvPduReceived
from whad.hub.ble.connect import Disconnected as BleDisconnected
from whad.hub.discovery import DomainInfoQueryResp
from whad.exceptions import WhadDeviceTimeout

HUB = ProtocolHub(2)
UNDECODABLE = [b"", b"\x08\x01", b"\xff\xff\xff", b"\x0a\x00", b"\x12\x00"]
A, W, R, C, TICK, EMIT = 0, 1, 2, 3, 4, 5
TNAME = {A: "A", W: "W", R: "R", C: "C"}


def mk(fr):
    cls, uid, pkt = fr
    if cls == 13:
        # a packet-type message with no scapy counterpart: to_packet() returns None
        return HUB.ble.create_adv_pdu_received(AdvType.ADV_UNKNOWN, -40, BDAddress("00:11:22:33:44:55"),
                                               bytes([3, 0xff, uid & 0xff, (uid >> 8) & 0xff]))
    if pkt:
        return HUB.ble.create_pdu_received(Direction.MASTER_TO_SLAVE, b"\x02\x02" + bytes([uid & 0xff, (uid >> 8) & 0xff]), uid & 0xffff)
    if cls == 12:
        return HUB.ble.create_disconnected(0x13, uid & 0xffff)
    return HUB.discovery.create_domain_resp(cls << 24, uid)


def classify(m):
    """(cls, uid, pkt) of a hub message -- the inverse of mk()."""
    if isinstance(m, BlePduReceived):
        p = bytes(m.pdu)
        return [0, p[2] | (p[3] << 8), True]
    if isinstance(m, BleAdvPduReceived):
        d = bytes(m.adv_data)
        return [13, d[2] | (d[3] << 8), True]
    if isinstance(m, DomainInfoQueryResp):
        return [m.domain >> 24, m.supported_commands, False]
    if isinstance(m, BleDisconnected):
        return [12, m.conn_handle, False]
    return [99, 0, False]


def classify_packet(p):
    raw = bytes(p)
    return [0, raw[-2] | (raw[-1] << 8), True]


def keep_for(fc):
    if fc == 0:
        return lambda m: isinstance(m, BlePduReceived)
    if fc == 13:
        return lambda m: isinstance(m, BleAdvPduReceived)
    if fc == 12:
        return lambda m: isinstance(m, BleDisconnected)
    return lambda m: isinstance(m, DomainInfoQueryResp) and (m.domain >> 24) == fc


def enc_frame(fr, k):
    raw = UNDECODABLE[k % len(UNDECODABLE)] if fr is None else mk(fr).serialize()
    return bytes([0xAC, 0xBE, len(raw) & 0xff, (len(raw) >> 8) & 0xff]) + raw


class NativeDev(D.Device):
    INTERFACE_NAME = "sched"

    def __init__(self, reactions, tmo):
        super().__init__(index=0)
        self.wire = []
        self.reactions = reactions
        self.nwrites = 0
        self.undec = 0
        self.emitted = []
        self._Device__opened = True
        self._Device__timeout = float(tmo)

    def encode(self, chunk):
        out = b""
        for fr in chunk:
            out += enc_frame(fr, self.undec)
            if fr is None:
                self.undec += 1
        return out

    def read(self):
        s = S.cur()
        while True:
            s.yield_point("dev.read", lambda: bool(self.wire))
            if self.wire:
                return self.wire.pop(0)

    def write(self, payload):
        S.cur().yield_point("dev.write")
        if self.nwrites < len(self.reactions):
            for c in self.reactions[self.nwrites]:
                self.wire.append(self.encode(c))
                self.emitted += [fr for fr in c if fr is not None]
        self.nwrites += 1
        return len(payload)


class VirtDev(D.VirtualDevice):
    INTERFACE_NAME = "vsched"

    def __init__(self, reactions, tmo):
        super().__init__(index=0)
        self.wire = []
        self.reactions = reactions
        self.ncmds = 0
        self.emitted = []
        self._Device__opened = True
        self._Device__timeout = float(tmo)

    def encode(self, chunk):
        return [mk(fr) for fr in chunk if fr is not None]

    def read(self):
        s = S.cur()
        while True:
            s.yield_point("dev.read", lambda: bool(self.wire))
            if self.wire:
                return self.wire.pop(0)

    def _on_whad_message(self, message):
        r = self.reactions[self.ncmds] if self.ncmds < len(self.reactions) else []
        self.ncmds += 1
        self.emitted += [fr for chunk in r for fr in chunk if fr is not None]
        for chunk in r:
            for fr in chunk:
                if fr is not None:
                    self._send_whad_message(mk(fr))


class VirtAsync(threading.Thread):
    """The virtual device's own thread (what a sniffing VirtualDevice runs): same loop as
    DevOutThread.run without the byte framing -- read(), then put_message per message."""
    def __init__(self, dev):
        super().__init__(daemon=True)
        self.dev = dev

    def run(self):
        while True:
            for m in self.dev.read():
                self.dev.put_message(m)


class RecConn(K.Connector):
    def __init__(self, dev):
        self.delivered = []
        self.delivered_at = []
        self.dispatched = []
        self.on_packets = []
        self.now = lambda: 0
        super().__init__(dev)

    def on_any_msg(self, message):
        self.delivered.append(classify(message))
        self.delivered_at.append(self.now())

    def on_discovery_msg(self, message):
        pass

    def on_generic_msg(self, message):
        pass

    def on_domain_msg(self, domain, message):
        pass

    def on_packet(self, packet):
        self.on_packets.append(classify_packet(packet))

    def on_event(self, event):
        pass

    def _Connector__process_pkt_message(self, message):
        """The connector's packet dispatch routine (called by process_message and by unlock()):
        observed, and made a yield point of the scheduler, from outside the tree."""
        s = S.cur()
        if s is not None:
            s.yield_point("dispatch")
        self.dispatched.append(classify(message))
        return _PROCESS_PKT(self, message)


_PROCESS_PKT = K.Connector._Connector__process_pkt_message


def namer(t):
    return {"DevInThread": "W", "DevOutThread": "R", "VirtAsync": "R", "ConnIoThread": "C"}.get(type(t).__name__)


def run_case(case, want_labels=False):
    cfg = case["cfg"]
    script = case["script"]
    reactions = [op[2] for op in script if op[0] in ("cmd", "send")]
    tmo = int(cfg["tmo"])
    s = S.new_sched(watchdog=15.0)
    s.namer = namer
    s.record = True
    dev = (VirtDev if cfg["virt"] else NativeDev)(reactions, tmo)
    conn = None
    if cfg["conn"]:
        conn = RecConn(dev)
        conn._Connector__callbacks_lock.yielding = False
        if case.get("locked0"):
            conn.lock()
    if cfg["virt"]:
        VirtAsync(dev).start()
    else:
        D.DevInThread(dev).start()
        D.DevOutThread(dev).start()
    spont = list(case.get("spont", []))
    returned, retrieved, spans, returned_at = [], [], [], []
    sent, nsent = [], [0]
    sched = []
    if conn is not None:
        conn.now = lambda: len(sched)

    def app():
        for op in script:
            spans.append([s.clock, None])
            run_op(op)
            spans[-1][1] = s.clock
            if op[0] == "cmd":
                returned_at.append(len(sched))

    def run_op(op):
        if True:
            if op[0] == "cmd":
                try:
                    r = dev.send_command(HUB.discovery.create_domain_query((len(returned) + 1) << 24), keep=keep_for(op[1]))
                    returned.append(["ok"] + classify(r) if r is not None else ["none"])
                except WhadDeviceTimeout:
                    returned.append(["timeout"])
                except S.Kill:
                    raise
                except Exception as e:      # noqa
                    returned.append(["exc", type(e).__name__])
            elif op[0] == "send":
                # send_message(msg, keep): no wait; op[1] = filter class or None (no filter given)
                try:
                    dev.send_message(HUB.discovery.create_domain_query((nsent[0] + 1) << 24),
                                     keep=None if op[1] is None else keep_for(op[1]))
                    sent.append(["sent"])
                except S.Kill:
                    raise
                except Exception as e:      # noqa
                    sent.append(["exc", type(e).__name__])
            elif op[0] == "lock":
                conn.lock()
            elif op[0] == "unlock":
                conn.unlock()
            elif op[0] == "sync":
                conn.enable_synchronous(op[1] != 0, events=(op[1] == 2))
            elif op[0] == "wait":
                try:
                    p = conn.wait_packet(timeout=None if op[1] is None else float(op[1]))
                    retrieved.append(classify_packet(p) if p is not None else None)
                except S.Kill:
                    raise
                except Exception:           # noqa
                    retrieved.append(None)

    s.spawn("A", app)
    # ghost: out_q.get calls the caller starts after the deadline of the running command
    late = {"n": 0, "start": None, "prev": None}

    def do(a):
        sched.append(a)
        if a == TICK:
            s.tick()
        elif a == EMIT:
            if spont:
                c = spont.pop(0)
                dev.wire.append(dev.encode(c))
                dev.emitted += [fr for fr in c if fr is not None]
        else:
            name = TNAME[a]
            ts = s.threads.get(name)
            if a == A and ts is not None and not ts.done:
                lab = ts.label
                # W1: the clock read that follows the `opened` test of wait_for_message
                if lab == "time" and late["prev"] is not None and late["prev"].startswith("load opened"):
                    late["start"] = s.clock
                    late["n"] = 0
                if lab == OUTQ[0] + ".get" and ts.first and late["start"] is not None \
                        and s.clock - late["start"] > tmo:
                    late["n"] += 1
                late["prev"] = lab
            s.step(name)

    OUTQ[0] = dev._Device__out_messages.name
    for a in case.get("prefix", []):
        do(int(a))
    capped = False
    cap = int(case.get("cap", 4000))
    nsteps = [0]

    def quiescent_or_stuck():
        """Nobody can make progress without the clock; returns 'stop' or 'tick'."""
        if s.threads["A"].done:
            return "stop"
        if any(waits_clock(s, TNAME[a]) and not (a == W and idle_writer(s, dev)) for a in (A, W, R, C)):
            return "tick"
        return "stop"

    if case.get("policy") == "np":
        # non pre-emptive base schedule (run a thread until it blocks) + forced pre-emptions
        pre = {int(k): int(t) for k, t in case.get("preempt", [])}
        order = [int(a) for a in case.get("order", [A, W, R, C, EMIT])]

        def can(a):
            if a == EMIT:
                return bool(spont)
            if a == W and idle_writer(s, dev):
                return False
            return s.enabled(TNAME[a])
        curt = order[0]
        alone = 0
        while True:
            k = len(sched)
            if k in pre and can(pre[k]):
                curt = pre[k]
            if not can(curt):
                i = order.index(curt)
                n_ = len(order)
                nxt = [order[(i + j) % n_] for j in range(1, n_ + 1) if can(order[(i + j) % n_])]
                if not nxt:
                    if quiescent_or_stuck() == "stop":
                        break
                    do(TICK)
                    if len(sched) >= cap:
                        capped = True
                        break
                    continue
                curt = nxt[0]
            do(curt)
            if curt == A:
                alone += 1
                if alone % 64 == 0:
                    do(TICK)    # a thread spinning on its own must not stop the clock
            else:
                alone = 0
            if len(sched) >= cap:
                capped = True
                break
    elif case.get("tail", True):
        alone = 0
        while True:
            ran = []
            if spont:
                do(EMIT); ran.append(EMIT)
            for a in (A, W, R, C):
                name = TNAME[a]
                if not s.enabled(name):
                    continue
                if a == W and idle_writer(s, dev):
                    continue
                do(a); ran.append(a)
            if len(sched) >= cap:
                capped = True
                break
            if not ran:
                if quiescent_or_stuck() == "stop":
                    break
                do(TICK)
                alone = 0
            elif ran == [A]:
                alone += 1
                if alone % 8 == 0:
                    do(TICK)        # a thread spinning on its own must not stop the clock
            else:
                alone = 0
    ev_items = lambda q: [classify(e.message) for e in q.items() if isinstance(e, D.MessageReceived)]
    obs = {
        "returned": returned, "retrieved": retrieved,
        "delivered": conn.delivered if conn else [], "dispatched": conn.dispatched if conn else [],
        "on_packets": conn.on_packets if conn else [],
        "out_q": [classify(m) for m in dev._Device__out_messages.items()],
        "events": ev_items(conn._Connector__events) if conn else [],
        "locked_q": [classify(m) for m in conn._Connector__locked_pdus.items()] if conn else [],
        "sync_q": ev_items(conn._Connector__sync_events) if conn else [],
        "cleared": [classify(e.message) for e in conn._Connector__sync_events.cleared if isinstance(e, D.MessageReceived)] if conn else [],
        "clock": s.clock, "locked": bool(conn._Connector__locked) if conn else bool(case.get("locked0")),
        "late": late["n"], "adone": bool(s.threads["A"].done),
    }
    info = {"crashed": {n: type(t.exc).__name__ for n, t in s.threads.items() if t.exc is not None},
            "pending": {n: t.label for n, t in s.threads.items() if not t.done},
            "in_q": len(dev._Device__in_messages.items()),
            "queue_bounds": queue_bounds(dev, conn),
            "emitted": dev.emitted, "spans": spans, "returned_at": returned_at, "sent": sent,
            "delivered_at": conn.delivered_at if conn else [], "wire_left": len(dev.wire), "spont_left": len(spont),
            "labelset": sorted({canon_label(t, l) for (t, l, k) in s.trace if k == "run"})}
    res = {"sched": sched, "obs": obs, "capped": capped, "info": info}
    if want_labels:
        res["labels"] = [[t, l, k] for (t, l, k) in s.trace]
    S.drop_sched()
    return res


OUTQ = [None]


def queue_bounds(dev, conn):
    """maxsize of every queue the model takes as unbounded (0 = unbounded)."""
    b = {"device.in": dev._Device__in_messages.maxsize, "device.out": dev._Device__out_messages.maxsize}
    if conn is not None:
        b.update({"connector.events": conn._Connector__events.maxsize,
                  "connector.locked_pdus": conn._Connector__locked_pdus.maxsize,
                  "connector.sync_events": conn._Connector__sync_events.maxsize})
    return b
QNAMES = {}


def canon_label(t, l):
    """Thread + operation kind, independent of line numbers."""
    l = l.split(":")[0]
    return t + " " + l


def idle_writer(s, dev):
    ts = s.threads.get("W")
    return ts is not None and ts.label.endswith(".get") and not dev._Device__in_messages.items()


def waits_clock(s, name):
    """The thread is parked in a get() with a timeout."""
    ts = s.threads.get(name)
    if ts is None or ts.done:
        return False
    return bool(ts.timed)


def main():
    req = json.load(sys.stdin)
    out = []
    t0 = _rt.time()
    for case in req["cases"]:
        try:
            out.append(run_case(case, req.get("labels", False)))
        except Exception as e:      # noqa
            import traceback
            out.append({"error": "%s: %s" % (type(e).__name__, e), "tb": traceback.format_exc()[-1500:]})
            try:
                S.drop_sched()
            except Exception:       # noqa
                pass
    print("RESULT " + json.dumps({"results": out, "wall": round(_rt.time() - t0, 2)}))
    sys.stdout.flush()
    os._exit(0)


if __name__ == "__main__":
    main()
