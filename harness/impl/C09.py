"""C09 / C10 implementation driver: two REAL whad BLE stacks back to back in one process.

client side : LL mock -> L2CAPLayer -> ATTLayer -> GattClient (+ an empty GenericProfile as model)
server side : LL mock -> L2CAPLayer -> ATTLayer -> GattServer (+ a real Profile built from the spec)
Every link-layer payload one side emits is handed synchronously to the peer's L2CAP layer
(bytes on the wire: the peer re-dissects them with scapy).

stdin : {"mode": "c09", "cases": [{"profile": spec, "ops": [[name, args...], ...]}, ...]}
        {"mode": "c10", "cases": [{"profile": spec, "mtu": m}, ...]}
 spec  = [{"uuid": hex, "chars": [{"uuid": hex, "props": int, "value": hex,
           "descs": [{"uuid": hex, "value": hex, "kind": "generic"|"cccd"|"userdesc"}]}]}]
 (uuid hex = packed little-endian bytes, 2 or 16 bytes)
stdout: RESULT {"cases": [...]}   (see run_c09 / run_c10)
"""
import sys, json, logging, threading, time
logging.disable(logging.CRITICAL)
import builtins
_print = builtins.print
builtins.print = lambda *a, **k: None      # the stack prints debug text on stdout

from whad.common.stack import alias
from whad.common.stack.tests import Sandbox
from whad.ble.stack.l2cap import L2CAPLayer
from whad.ble.stack.att import ATTLayer
from whad.ble.stack.att.exceptions import AttError, error_response_to_exc
from whad.ble.stack.gatt import GattClient, GattServer, GattLayer
from whad.ble.stack.gatt.exceptions import GattTimeoutException
from whad.ble.profile import GenericProfile, Profile
from whad.ble.profile.attribute import UUID, Attribute
from whad.ble.profile.characteristic import (Characteristic, CharacteristicValue, Descriptor,
                                             ClientCharacteristicConfig, UserDescription)
from whad.ble.profile.service import PrimaryService, SecondaryService, IncludeService

WAIT = 0.03          # GATT response timeout used instead of 10 s (the relay is synchronous)
PDU_CAP = 6000       # relayed PDUs per procedure before we call it a spin

_orig_wait = GattLayer.wait_for_message
def _short_wait(self, message_clazz, timeout=10.0):
    return _orig_wait(self, message_clazz, timeout=WAIT)
GattLayer.wait_for_message = _short_wait

# wait_for_message measures its timeout with time(): on a loaded machine a thread that is
# descheduled for 30 ms between two calls would time out with the answer already queued.
# The module's clock is replaced by a virtual one advancing WAIT/10 per reading, so the wait
# loop always polls the queue ten times, whatever the load.
import whad.ble.stack.gatt as _gatt_mod
_vclock = [0.0]
def _virtual_time():
    _vclock[0] += WAIT / 10.0
    return _vclock[0]
assert hasattr(_gatt_mod, "time")
_gatt_mod.time = _virtual_time


class HarnessSpin(BaseException):
    """raised from inside the relay when a procedure keeps sending PDUs"""


class CliATT(ATTLayer):
    LAYERS = {}
CliATT.add(GattClient)
class SrvATT(ATTLayer):
    LAYERS = {}
SrvATT.add(GattServer)
class CliL2(L2CAPLayer):
    LAYERS = {}
CliL2.add(CliATT)
class SrvL2(L2CAPLayer):
    LAYERS = {}
SrvL2.add(SrvATT)


class LLBase(Sandbox):
    L2 = None
    def __init__(self):
        super().__init__()
        self.l2 = self.instantiate(self.L2)
        self.target = self.l2.name
        self.peer = None
        self.link = None
        self.state.auth = False
    def log_message(self, *a, **k):       # do not accumulate messages
        pass
    def get_handler(self, source, tag='default'):
        def handler(src, data, **kw):
            self.link.carry(self, tag, data, kw)
        handler.is_contextual = True
        return handler

@alias('ll')
class CliLL(LLBase):
    LAYERS = {}
    L2 = CliL2
CliLL.add(CliL2)

@alias('ll')
class SrvLL(LLBase):
    LAYERS = {}
    L2 = SrvL2
SrvLL.add(SrvL2)


class Link:
    """Synchronous relay between the two link-layer mocks."""
    def __init__(self, profile):
        self.cli, self.srv = CliLL(), SrvLL()
        self.cli.peer, self.srv.peer = self.srv, self.cli
        self.cli.link = self.srv.link = self
        self.pdus = 0
        self.cap = PDU_CAP
        self.wcmd_error = False       # server answered a Write Command with an Error Response
        self.srv_pdus = []            # first bytes of ATT PDUs sent by the server during the current op
        self.gc = self.cli.l2.get_layer('gatt')
        self.gs = self.srv.l2.get_layer('gatt')
        self.gs.set_model(profile)
        self.cmodel = GenericProfile()
        self.gc.set_model(self.cmodel)
        self.reasm = {id(self.cli): b'', id(self.srv): b''}
    def carry(self, frm, tag, data, kw):
        if tag != 'default':
            return
        raw = bytes(data)
        self.pdus += 1
        if self.pdus > self.cap:
            raise HarnessSpin()
        frag = bool(kw.get('fragment', False))
        if frm is self.srv and not frag and len(raw) >= 5:
            # ATT opcode, and for an Error Response the request opcode
            self.srv_pdus.append(raw[4:6].hex())
            if raw[4] == 0x01 and len(raw) >= 6 and raw[5] == 0x52:
                self.wcmd_error = True
        to = frm.peer
        to.send(to.target, raw, fragment=frag)


def mk_uuid(hx):
    b = bytes.fromhex(hx)
    assert len(b) in (2, 16)
    return UUID(b)


def build_profile(spec):
    svcs = {}
    for i, s in enumerate(spec):
        chars = {}
        for j, c in enumerate(s["chars"]):
            descs = []
            for d in c.get("descs", []):
                k = d.get("kind", "generic")
                if k == "cccd":
                    descs.append(ClientCharacteristicConfig())
                elif k == "userdesc":
                    descs.append(UserDescription(description=bytes.fromhex(d["value"]).decode("utf-8")))
                else:
                    descs.append(Descriptor(mk_uuid(d["uuid"]), value=bytes.fromhex(d["value"])))
            chars["c%02d" % j] = Characteristic(uuid=mk_uuid(c["uuid"]), properties=c["props"],
                                                value=bytes.fromhex(c["value"]), descriptors=descs)
        svcs["s%02d" % i] = PrimaryService(uuid=mk_uuid(s["uuid"]), **chars)
    return type("GenProfile", (Profile,), svcs)()


def raw_value(attr):
    return bytes(Attribute.value.fget(attr))


def attr_table(profile):
    """[[handle, kind, ...]] sorted by handle.
    primary: uuid, end ; decl: props, value_handle, uuid ; value: uuid, value ; cccd: value ; desc: uuid, value"""
    out = []
    for h in sorted(profile.db):
        a = profile.db[h]
        if isinstance(a, PrimaryService):
            out.append([h, "primary", a.uuid.packed.hex(), a.end_handle])
        elif isinstance(a, SecondaryService):
            out.append([h, "secondary", a.uuid.packed.hex(), a.end_handle])
        elif isinstance(a, IncludeService):
            out.append([h, "include", raw_value(a).hex()])
        elif isinstance(a, Characteristic):
            out.append([h, "decl", a.properties, a.value_handle, a.uuid.packed.hex()])
        elif isinstance(a, CharacteristicValue):
            out.append([h, "value", a.uuid.packed.hex(), raw_value(a).hex()])
        elif isinstance(a, ClientCharacteristicConfig):
            out.append([h, "cccd", raw_value(a).hex()])
        elif isinstance(a, Descriptor):
            out.append([h, "desc", a.type_uuid.packed.hex(), raw_value(a).hex()])
        else:
            out.append([h, "other", type(a).__name__])
    return out


def structure(profile, with_values=False):
    """services -> characteristics -> descriptors with the fields named in C10."""
    out = []
    for s in profile.services():
        sd = {"uuid": s.uuid.packed.hex(), "type": s.type_uuid.packed.hex(), "start": s.handle, "end": s.end_handle, "chars": []}
        for c in s.characteristics():
            cd = {"handle": c.handle, "props": c.properties, "vh": c.value_handle, "uuid": c.uuid.packed.hex(),
                  "type": c.type_uuid.packed.hex(), "descs": []}
            if with_values:
                cd["value"] = raw_value(c.value_attr).hex()
            for d in c.descriptors():
                dd = {"handle": d.handle, "uuid": d.type_uuid.packed.hex()}
                if with_values:
                    dd["value"] = raw_value(d).hex()
                    dd["kind"] = ("cccd" if isinstance(d, ClientCharacteristicConfig) else "desc")
                cd["descs"].append(dd)
            sd["chars"].append(cd)
        out.append(sd)
    return out


CODE_OF = {}
for _c in range(1, 0x12):
    CODE_OF[type(error_response_to_exc(_c, 0, 0)).__name__] = _c


def enc_result(v):
    if v is None:
        return {"ok": "none"}
    if v is True:
        return {"ok": "true"}
    if v is False:
        return {"ok": "false"}
    if isinstance(v, int):
        return {"ok": "int", "v": v}
    if isinstance(v, (bytes, bytearray)):
        return {"ok": "bytes", "v": bytes(v).hex()}
    return {"ok": "other", "v": type(v).__name__}


def enc_exc(e):
    n = type(e).__name__
    if isinstance(e, AttError):
        return {"exc": n, "kind": "att", "code": CODE_OF.get(n, 0)}
    if isinstance(e, GattTimeoutException):
        return {"exc": n, "kind": "timeout"}
    return {"exc": n, "kind": "other"}


BLOCK_WAIT = [1.5]

def call_guarded(fn, may_block):
    """Run a client procedure. When the previous outcome may have left the procedure lock
    held, run it in a thread so that a blocked procedure is observed instead of hanging."""
    box = {}
    def target():
        try:
            box["r"] = enc_result(fn())
        except HarnessSpin:
            box["r"] = {"spin": True}
        except Exception as e:  # noqa
            box["r"] = enc_exc(e)
    if not may_block:
        target()
        return box["r"]
    t = threading.Thread(target=target, daemon=True)
    t.start()
    t.join(BLOCK_WAIT[0])
    if t.is_alive():
        BLOCK_WAIT[0] = 0.25      # nobody releases a procedure lock: later calls on this connection block too
        return {"blocked": True}
    return box["r"]


def run_c09(case):
    prof = build_profile(case["profile"])
    link = Link(prof)
    gc = link.gc
    table0 = attr_table(prof)
    snap = {h: raw_value(a) for h, a in prof.db.items()}
    steps = []
    may_block = False
    BLOCK_WAIT[0] = 1.5
    for op in case["ops"]:
        name, args = op[0], op[1:]
        link.pdus = 0
        link.srv_pdus = []
        if name == "set_mtu":
            fn = lambda: gc.set_mtu(args[0])
        elif name == "srv_set_mtu":
            # MTU exchange initiated by the server (handled by GattClient.on_exch_mtu_request)
            fn = lambda: link.gs.set_mtu(args[0])
        elif name == "read":
            fn = lambda: gc.read(args[0])
        elif name == "read_blob":
            fn = lambda: gc.read_blob(args[0], args[1])
        elif name == "read_long":
            fn = lambda: gc.read_long(args[0])
        elif name == "write":
            fn = lambda: gc.write(args[0], bytes.fromhex(args[1]))
        elif name == "write_long":
            fn = lambda: gc.write_long(args[0], bytes.fromhex(args[1]))
        elif name == "write_command":
            fn = lambda: gc.write_command(args[0], bytes.fromhex(args[1]))
        else:
            raise ValueError(name)
        r = call_guarded(fn, may_block)
        if r.get("kind") == "other" or r.get("blocked") or r.get("spin"):
            may_block = True
        now = {h: raw_value(a) for h, a in prof.db.items()}
        delta = [[h, now[h].hex()] for h in sorted(now) if now[h] != snap.get(h)]
        snap = now
        steps.append({"res": r, "delta": delta, "wcmd_error": link.wcmd_error,
                      "srv_pdus": link.srv_pdus[:40], "npdu": link.pdus,
                      "cmtu": gc.att.get_server_mtu(), "smtu": link.gs.att.get_client_mtu()})
    return {"table": table0, "steps": steps}


def run_c10(case):
    # other devices discovered earlier in the same process (fresh stacks, fresh client model each)
    for other in case.get("before", []):
        l0 = Link(build_profile(other))
        try:
            l0.gc.discover()
        except BaseException:  # noqa
            pass
    prof = build_profile(case["profile"])
    link = Link(prof)
    gc = link.gc
    served = structure(prof, with_values=True)
    table0 = attr_table(prof)
    out = {"table": table0, "served": served}
    mtu = case.get("mtu", 23)
    if mtu != 23:
        r = call_guarded(lambda: gc.set_mtu(mtu), False)
        out["set_mtu"] = r
    link.pdus = 0
    link.cap = case.get("cap", PDU_CAP)
    box = {}
    def target():
        try:
            if "primary_from" in case:
                # only the primary service enumeration, from a given start handle
                got = list(gc.discover_primary_services(case["primary_from"]))
                box["r"] = {"ok": True, "services": [[x.uuid.packed.hex(), x.handle, x.end_handle] for x in got]}
            else:
                gc.discover()
                box["r"] = {"ok": True}
        except HarnessSpin:
            box["r"] = {"spin": True}
        except Exception as e:  # noqa
            box["r"] = enc_exc(e)
    t = threading.Thread(target=target, daemon=True)
    t.start()
    t.join(case.get("deadline", 20.0))
    if t.is_alive():
        link.cap = 0            # make the spinning thread die on its next PDU
        out["disc"] = {"hang": True}
        t.join(2.0)
    else:
        out["disc"] = box["r"]
    out["npdu"] = link.pdus
    try:
        out["discovered"] = structure(link.cmodel)
    except Exception as e:  # noqa
        out["discovered"] = {"exc": type(e).__name__}
    return out


def main():
    req = json.load(sys.stdin)
    fn = run_c09 if req["mode"] == "c09" else run_c10
    res = []
    for c in req["cases"]:
        try:
            res.append(fn(c))
        except Exception as e:  # noqa  (driver-level failure on this case: report, do not die)
            import traceback
            res.append({"driver_error": type(e).__name__ + ": " + str(e), "tb": traceback.format_exc()[-1500:]})
    _print("RESULT " + json.dumps({"cases": res}))

main()
