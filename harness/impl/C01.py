"""C01 implementation driver: drives the REAL DevOutThread.run (hence ingest) / DevInThread.serialize
of the tree on PYTHONPATH with the real ProtocolHub.

stdin (JSON), all fields optional:
  "messages": [[factory_name, n, seed, target_or_null], ...]   build real hub messages
  "sender_seq": [index into messages, ...]                     one DevInThread framing these messages in a row
  "pbmut":    true                                             protobuf-level value mutations of every kind
  "parse":    [payload_hex | [payload_hex, hub_version], ...]  standalone hub.parse outcomes, computed in forked
                                                               children (one per domain and hub version)
  "cases":    [[chunk_hex | null, ...], ...]                   scripted read() results (null = None, "" = b''),
                                                               consumed by the real DevOutThread.run loop;
              an entry may be {"chunks": [...], "v": 1|null (hub version), "isolated": bool (forked child)}
  "sweep":    {"tokens": [hex,...], "maxlen": n, "minlen": m, "first": [i,...] | null, "second": [i,...] | null}
stdout: RESULT {"messages": [{"ser": hex, "frame": hex, "rt": outcome of hub.parse(ser)} | {"exc": cls}],
                "parse": [outcome], "cases": [{"out": [hex], "exc": cls|null, "table": [[hex, outcome]]}],
                "sweep": {"n": count, "obs": [[token_indices, [hex...], exc|null], ...] (only streams that deliver/raise),
                          "deviations": [...], "table": [[hex, outcome]], "runs": total}}
outcome = ["same", class] | ["msg", hex, class] | ["none"] | ["raise", exception class]
Messages are built (one forked child per message) as FRESH objects: the frame comes from
DevInThread.serialize(obj) on an object never serialized before, "ser" from another fresh object.
"""
import sys, os, json, logging, random, itertools, signal
logging.disable(logging.CRITICAL)
from whad.device.device import Device, DevOutThread, DevInThread, DeviceEvt
from whad.exceptions import WhadDeviceNotReady
from whad.hub.ble import Direction as BleDirection
from whad.hub.generic.verbose import Verbose
from whad.hub.generic.debug import Debug


class ScriptedDevice(Device):
    """A Device without transport: read() replays a scripted schedule of results (bytes, b'' or
    None) and then raises WhadDeviceNotReady, which ends DevOutThread.run; put_message records
    what the reader thread delivers."""
    INTERFACE_NAME = "verif"

    def __init__(self):
        super().__init__(index=0)
        self.got = []
        self.script = iter(())

    def is_open(self):
        return True

    def read(self):
        try:
            return next(self.script)
        except StopIteration:
            raise WhadDeviceNotReady() from None

    def put_message(self, message):
        if not isinstance(message, DeviceEvt):
            self.got.append(message)


class IngestHang(Exception):
    """ingest() did not return within the watchdog period (reception has stopped)."""


def _on_alarm(_sig, _frm):
    raise IngestHang()


signal.signal(signal.SIGALRM, _on_alarm)
WATCHDOG_S = 10
HANGS = [0]          # after 3 hangs the remaining work is skipped (each costs WATCHDOG_S)

from whad.hub import ProtocolHub

DEV = ScriptedDevice()            # hub of the default (last) protocol version, as Device creates it
HUB = DEV.hub
DEV1 = ScriptedDevice()           # a device that negotiated protocol version 1 (as Device.discover() does)
DEV1._Device__hub = ProtocolHub(1)
DEVS = {None: DEV, 1: DEV1}
REAL_PARSE = {None: DEV.hub.parse, 1: DEV1.hub.parse}     # bound methods of the real ProtocolHubs
_REAL_PARSE = REAL_PARSE[None]
PARSE_LOG = {}


def cls_name(m):
    return type(m).__module__ + "." + type(m).__name__


def msg_id(m):
    """identity of a delivered message: its serialized bytes (ingest itself never serializes: a
    wrapper that cannot re-serialize odd field values must not look like an ingest failure)"""
    try:
        return bytes(m.serialize())
    except Exception as e:  # noqa
        return ("unserializable:%s:%s" % (type(m).__name__, type(e).__name__)).encode()


def outcome_of(payload, fn):
    """["same", cls] | ["msg", hex, cls] | ["none"] | ["raise", exc]"""
    try:
        m = fn(payload)
    except Exception as e:  # noqa
        return ["raise", type(e).__name__], None, e
    if m is None:
        return ["none"], None, None
    ser = msg_id(m)
    return (["same", cls_name(m)] if ser == payload else ["msg", ser.hex(), cls_name(m)]), m, None


def _recorder(real):
    def recording_parse(data):
        """The real hub.parse, with (payload -> outcome) recorded for the model's table."""
        oc, m, exc = outcome_of(bytes(data), real)
        PARSE_LOG[bytes(data)] = oc
        if exc is not None:
            raise exc
        return m
    return recording_parse


DEV.hub.parse = _recorder(REAL_PARSE[None])
DEV1.hub.parse = _recorder(REAL_PARSE[1])


def isolated(fn):
    """Run fn() in a forked child and return its (JSON) result: whatever process-global state the
    code under verification keeps (class-level caches, registries) starts from the state of this
    process at the time of the fork and cannot leak back.  Used so that the EXPECTED identity of a
    message (class, bytes) is computed without any other domain's messages having been handled."""
    r, w = os.pipe()
    pid = os.fork()
    if pid == 0:
        try:
            os.close(r)
            try:
                data = json.dumps({"ok": fn()}).encode()
            except BaseException as e:  # noqa
                data = json.dumps({"err": type(e).__name__ + ": " + str(e)[:200]}).encode()
            with os.fdopen(w, "wb") as f:
                f.write(data)
        finally:
            os._exit(0)
    os.close(w)
    buf = bytearray()
    with os.fdopen(r, "rb") as f:
        while True:
            b = f.read(1 << 16)
            if not b:
                break
            buf += b
    os.waitpid(pid, 0)
    d = json.loads(bytes(buf).decode()) if buf else {"err": "child died"}
    if "err" in d:
        raise RuntimeError("isolated child failed: " + d["err"])
    return d["ok"]


def domain_of_payload(b):
    """name of the top-level oneof member a payload selects (None if undecodable / unset)"""
    from whad.protocol.whad_pb2 import Message
    try:
        m = Message()
        m.ParseFromString(b)
        return m.WhichOneof("msg")
    except Exception:  # noqa
        return None


def fill(n, seed):
    """n pseudo-random bytes, biased towards the marker bytes so that payloads contain
    AC BE pairs and look-alike headers."""
    rng = random.Random(seed)
    out = bytearray()
    while len(out) < n:
        r = rng.random()
        if r < 0.08:
            out += b"\xac\xbe"
        elif r < 0.12:
            out += bytes([0xac, 0xbe, rng.randrange(6), 0])
        elif r < 0.2:
            out.append(rng.choice([0xac, 0xbe, 0]))
        else:
            out.append(rng.randrange(256))
    out = out[:n]
    if n and seed % 3 == 0:
        out[-1] = 0xAC          # payloads ending in AC (a following gap may start with BE)
    if n and seed % 5 == 0:
        out[0] = 0xBE
    return bytes(out)


from whad.hub.generic import cmdresult as _cmdresult
from whad.hub.generic.progress import Progress


def _set(obj, **kw):
    for k, v in kw.items():
        setattr(obj, k, v)
    return obj


FACTORIES = {
    # (HUB.generic.create_verbose/create_debug pass keyword names the wrappers do not have and
    #  yield an EMPTY message -- a matter for C02; the wrappers are built directly here)
    "generic.verbose": lambda b, r: Verbose(msg=b),
    "generic.debug": lambda b, r: Debug(level=r.randrange(1, 5), msg=b),
    "generic.verbose_factory": lambda b, r: HUB.generic.create_verbose(b),
    "generic.success": lambda b, r: HUB.generic.create_success(),
    "generic.error": lambda b, r: HUB.generic.create_error(),
    "generic.progress": lambda b, r: HUB.generic.create_progress(r.randrange(1, 100)),
    "generic.param_error": lambda b, r: HUB.generic.create_param_error(),
    "generic.disconnected": lambda b, r: HUB.generic.create_disconnected(),
    "generic.wrong_mode": lambda b, r: HUB.generic.create_wrong_mode(),
    "generic.unsupported_domain": lambda b, r: HUB.generic.create_unsupported_domain(),
    "generic.busy": lambda b, r: HUB.generic.create_busy(),
    "generic.cmd_result_code": lambda b, r: HUB.generic.create_command_result(r.randrange(0, 7)),
    # wrappers created directly / fields assigned after construction
    "generic.Error()": lambda b, r: _cmdresult.Error(),
    "generic.Success()": lambda b, r: _cmdresult.Success(),
    "generic.Busy()": lambda b, r: _cmdresult.Busy(),
    "generic.result_set_later": lambda b, r: _set(_cmdresult.CommandResult(), result_code=r.randrange(0, 7)),
    "generic.progress_set_later": lambda b, r: _set(Progress(), value=r.randrange(1, 1000)),
    "generic.verbose_set_later": lambda b, r: _set(Verbose(), msg=b or b"late"),
    "generic.debug_set_later": lambda b, r: _set(Debug(), level=r.randrange(1, 5), msg=b or b"late"),
    "discovery.reset": lambda b, r: HUB.discovery.create_reset_query(),
    "discovery.ready": lambda b, r: HUB.discovery.create_device_ready(),
    "discovery.info_query": lambda b, r: HUB.discovery.create_info_query(0x0100 + r.randrange(3)),
    "discovery.domain_resp": lambda b, r: HUB.discovery.create_domain_resp(0x01000000, r.randrange(1, 1 << 20)),
    "discovery.set_speed": lambda b, r: HUB.discovery.create_set_speed(r.choice([115200, 921600, 0xACBE])),
    "discovery.info_resp": lambda b, r: HUB.discovery.create_info_resp(
        1, b[:16] or b"id", 0x0100, 115200, b"auth" + b[:8], b"url" + b, 1, 2, 3, [0x01000000 | 0x2c, 0x02000000 | 0xbeac]),
    "ble.pdu": lambda b, r: HUB.ble.create_pdu_received(BleDirection.SLAVE_TO_MASTER, b, r.randrange(1, 0xffff), processed=bool(r.randrange(2))),
    "ble.send_pdu": lambda b, r: HUB.ble.create_send_pdu(BleDirection.MASTER_TO_SLAVE, b, r.randrange(1, 64)),
    "ble.adv_mode": lambda b, r: HUB.ble.create_adv_mode(b[:31], b[31:62] or None),
    # one protobuf kind (ble.prepare) whose wrapper class depends on the CONTENT (the trigger)
    "ble.prepare_manual": lambda b, r: HUB.ble.create_prepare_sequence_manual(r.randrange(1, 200), BleDirection.MASTER_TO_SLAVE, [b[:20] or b"\x01\x02", b"\xac\xbe"]),
    "ble.prepare_connevt": lambda b, r: HUB.ble.create_prepare_sequence_conn_evt(r.randrange(1, 200), BleDirection.SLAVE_TO_MASTER, r.randrange(1, 5000), [b[:20] or b"\x03"]),
    "ble.prepare_pattern": lambda b, r: HUB.ble.create_prepare_sequence_pattern(r.randrange(1, 200), BleDirection.MASTER_TO_SLAVE, b"\x0a\xac", b"\xff\xff", r.randrange(0, 8), [b[:20] or b"\x04\x05"]),
    "ble.start": lambda b, r: HUB.ble.create_start(),
    "ble.stop": lambda b, r: HUB.ble.create_stop(),
    "ble.disconnected": lambda b, r: HUB.ble.create_disconnected(r.randrange(1, 255), r.randrange(1, 0xffff)),
    "phy.packet": lambda b, r: HUB.phy.create_packet_received(r.choice([433920000, 868000000, 2402000000]), b, rssi=-r.randrange(20, 90), timestamp=r.randrange(1, 1 << 32)),
    "phy.send": lambda b, r: HUB.phy.create_send_packet(b),
    "phy.sync_word": lambda b, r: HUB.phy.create_set_sync_word(b[:8] or b"\xac\xbe"),
    "phy.freq": lambda b, r: HUB.phy.create_set_freq(r.choice([0xACBE, 0xBEAC00, 868100000])),
    "esb.pdu": lambda b, r: HUB.esb.create_pdu_received(r.randrange(0, 100), b, rssi=-r.randrange(20, 90), timestamp=r.randrange(1, 1 << 32), crc_validity=True),
    "esb.send_pdu": lambda b, r: HUB.esb.create_send_pdu(r.randrange(0, 100), b, retr_count=r.randrange(0, 15)),
    "esb.start": lambda b, r: HUB.esb.create_start(),
    "dot15d4.pdu": lambda b, r: HUB.dot15d4.create_pdu_received(r.randrange(11, 27), b, rssi=-r.randrange(20, 90), timestamp=r.randrange(1, 1 << 32), fcs_validity=True, lqi=r.randrange(1, 255)),
    "dot15d4.send_pdu": lambda b, r: HUB.dot15d4.create_send_pdu(r.randrange(11, 27), b),
    "dot15d4.sniff": lambda b, r: HUB.dot15d4.create_sniff_mode(r.randrange(11, 27)),
    "unifying.start": lambda b, r: HUB.unifying.create_start(),
    "unifying.stop": lambda b, r: HUB.unifying.create_stop(),
    "unifying.jam": lambda b, r: HUB.unifying.create_jam_mode(r.randrange(0, 100)),
}

SENDER = DevInThread(DEV)

# ---------------------------------------------------------------------------
# Payloads that ARE valid protobuf of a known message kind but carry semantically odd field
# values: built from the descriptors of whad_pb2.Message (every domain, every message kind),
# encoded on the wire by hand so that values the Python protobuf API would refuse can be written.
# ---------------------------------------------------------------------------
from google.protobuf.descriptor import FieldDescriptor as _FD

_VARINT = {_FD.TYPE_INT64, _FD.TYPE_UINT64, _FD.TYPE_INT32, _FD.TYPE_BOOL, _FD.TYPE_UINT32, _FD.TYPE_ENUM,
           _FD.TYPE_SINT32, _FD.TYPE_SINT64}
_FIX64 = {_FD.TYPE_DOUBLE, _FD.TYPE_FIXED64, _FD.TYPE_SFIXED64}
_FIX32 = {_FD.TYPE_FLOAT, _FD.TYPE_FIXED32, _FD.TYPE_SFIXED32}


def _varint(n):
    n &= (1 << 64) - 1
    out = bytearray()
    while True:
        b = n & 0x7f
        n >>= 7
        if n:
            out.append(b | 0x80)
        else:
            out.append(b); return bytes(out)


def _key(num, wt):
    return _varint((num << 3) | wt)


def _ld(num, b):
    return _key(num, 2) + _varint(len(b)) + b


def _is_repeated(f):
    if hasattr(f, "is_repeated"):
        r = f.is_repeated
        return r() if callable(r) else bool(r)
    return f.label == _FD.LABEL_REPEATED


def _enc_scalar(f, v):
    """field f carrying the integer / bytes value v"""
    if f.type in _VARINT:
        one = _varint(v)
        return _ld(f.number, one) if _is_repeated(f) else _key(f.number, 0) + one
    if f.type in _FIX64:
        b = (v & ((1 << 64) - 1)).to_bytes(8, "little")
        return _ld(f.number, b) if _is_repeated(f) else _key(f.number, 1) + b
    if f.type in _FIX32:
        b = (v & 0xffffffff).to_bytes(4, "little")
        return _ld(f.number, b) if _is_repeated(f) else _key(f.number, 5) + b
    if f.type in (_FD.TYPE_BYTES, _FD.TYPE_STRING, _FD.TYPE_MESSAGE):
        return _ld(f.number, v if isinstance(v, bytes) else b"")
    return b""


def _baseline(desc, skip=None):
    """every field of the message set to a small ordinary value (nested messages empty)"""
    out = b""
    for f in desc.fields:
        if skip is not None and f.number == skip:
            continue
        if f.containing_oneof is not None and f.containing_oneof.fields[0] is not f:
            continue                       # one member per oneof
        out += _enc_scalar(f, b"\x01\x02" if f.type in (_FD.TYPE_BYTES, _FD.TYPE_STRING) else
                           (b"" if f.type == _FD.TYPE_MESSAGE else 1))
    return out


def _field_mutations(f):
    """[(tag, encoded field)] odd values for one field"""
    res = []
    if f.type == _FD.TYPE_ENUM:
        mx = max(v.number for v in f.enum_type.values)
        for tag, v in (("enum_max+1", mx + 1), ("enum_127", 127), ("enum_int32max", 0x7fffffff), ("enum_-1", -1)):
            res.append((tag, _enc_scalar(f, v)))
    elif f.type in _VARINT or f.type in _FIX64 or f.type in _FIX32:
        for tag, v in (("int_2^64-1", (1 << 64) - 1), ("int_2^31", 1 << 31), ("int_2^32", 1 << 32)):
            res.append((tag, _enc_scalar(f, v)))
    elif f.type in (_FD.TYPE_BYTES, _FD.TYPE_STRING):
        for tag, v in (("bytes_empty", b""), ("bytes_300", bytes([0xAC, 0xBE, 1]) * 100), ("bytes_3000", bytes(range(250)) * 12)):
            res.append((tag, _enc_scalar(f, v)))
    elif f.type == _FD.TYPE_MESSAGE:
        res.append(("submsg_empty", _ld(f.number, b"")))
        res.append(("submsg_unknown_field_only", _ld(f.number, _key(1000, 0) + b"\x01")))
        for g in f.message_type.fields:    # one level down (e.g. addresses, ranges)
            for tag, enc in _field_mutations(g) if g.type != _FD.TYPE_MESSAGE else []:
                res.append(("sub." + g.name + "." + tag, _ld(f.number, enc)))
    return res


def pb_mutations():
    """-> [{"payload": hex, "desc": str, "cls": enum|kind|value|unknown}] for every domain and kind"""
    from whad.protocol.whad_pb2 import Message
    out = []
    def add(cls, desc, dom, inner):
        out.append({"cls": cls, "desc": desc, "payload": _ld(dom.number, inner).hex()})
    top = Message.DESCRIPTOR
    for dom in top.fields:
        if dom.type != _FD.TYPE_MESSAGE:
            continue
        dd = dom.message_type
        add("kind", dom.name + ":domain_empty", dom, b"")
        add("unknown", dom.name + ":unknown_kind_number", dom, _ld(1999, b""))
        add("unknown", dom.name + ":unknown_varint_field_only", dom, _key(1998, 0) + b"\x05")
        for k in dd.fields:
            name = dom.name + "." + k.name
            if k.type != _FD.TYPE_MESSAGE:
                for tag, enc in _field_mutations(k):
                    add("enum" if tag.startswith("enum") else "value", name + ":" + tag, dom, enc)
                continue
            kd = k.message_type
            add("kind", name + ":empty", dom, _ld(k.number, b""))
            add("kind", name + ":baseline", dom, _ld(k.number, _baseline(kd)))
            add("unknown", name + ":unknown_field_added", dom, _ld(k.number, _baseline(kd) + _key(1000, 0) + b"\x07" + _ld(1001, b"xy")))
            add("unknown", name + ":two_kinds_in_oneof", dom, _ld(k.number, _baseline(kd)) + _ld(dd.fields[0].number, b"")
                if dd.fields[0].type == _FD.TYPE_MESSAGE else _ld(k.number, b"") + _ld(k.number, b""))
            for f in kd.fields:
                for tag, enc in _field_mutations(f):
                    cls = "enum" if "enum_" in tag else "value"
                    add(cls, "%s.%s:%s:alone" % (name, f.name, tag), dom, _ld(k.number, enc))
                    add(cls, "%s.%s:%s:populated" % (name, f.name, tag), dom, _ld(k.number, _baseline(kd, skip=f.number) + enc))
    out.append({"cls": "unknown", "desc": "top:unknown_domain_number", "payload": _ld(15, b"\x08\x01").hex()})
    out.append({"cls": "unknown", "desc": "top:two_domains", "payload": (_ld(1, b"") + _ld(2, b"")).hex()})
    return out


def build_message(name, n, seed, target):
    f = FACTORIES[name]
    tries = [n] if target is None else [target - k for k in range(0, 64) if target - k >= 0]
    last = None
    for nn in tries:
        msg = f(fill(nn, seed), random.Random(seed))
        ser = bytes(msg.serialize())
        last = (msg, ser)
        if target is None or len(ser) == target:
            break
    _msg, ser = last
    # the sender is given an object that has never been serialized (as when a connector sends a
    # message it has just created); the reference serialization comes from another fresh object
    fresh = f(fill(nn, seed), random.Random(seed))
    frame = bytes(SENDER.serialize(fresh))
    ref = f(fill(nn, seed), random.Random(seed))
    ser = bytes(ref.serialize())
    return {"ser": ser.hex(), "frame": frame.hex(), "name": name, "cls": cls_name(ref),
            "rt": outcome_of(ser, _REAL_PARSE)[0]}


def build_messages(specs):
    """one forked child per message: neither names of other domains nor other messages of the same
    kind (whose wrapper class may depend on the content) have been handled when a message is built
    and its own round trip through hub.parse is taken as the expected identity"""
    groups = {}
    for i, sp in enumerate(specs):
        groups.setdefault(i, []).append(i)
    out = [None] * len(specs)
    for _dom, idxs in groups.items():
        def work(idxs=idxs):
            res = []
            for i in idxs:
                name, n, seed, target = specs[i]
                try:
                    res.append(build_message(name, n, seed, target))
                except Exception as e:  # noqa
                    res.append({"exc": type(e).__name__, "name": name})
            return res
        for i, r in zip(idxs, isolated(work)):
            out[i] = r
    return out


def parse_isolated(entries):
    """standalone hub.parse outcome of payloads ([hex] or [hex, version]), one forked child per
    (domain, hub version)"""
    groups = {}
    norm = []
    for e in entries:
        h, v = (e, None) if isinstance(e, str) else (e[0], e[1])
        norm.append((h, v))
        groups.setdefault((domain_of_payload(bytes.fromhex(h)), v), []).append(len(norm) - 1)
    out = [None] * len(norm)
    for (_dom, v), idxs in groups.items():
        def work(idxs=idxs, v=v):
            return [outcome_of(bytes.fromhex(norm[i][0]), REAL_PARSE[v])[0] for i in idxs]
        for i, r in zip(idxs, isolated(work)):
            out[i] = r
    return out


def run_case(chunks, version=None):
    if HANGS[0] >= 3:
        return {"out": [], "cls": [], "exc": None, "table": [], "skipped": True}
    dev = DEVS[version]
    dev.got = []
    PARSE_LOG.clear()
    t = DevOutThread(dev)
    dev.script = iter(chunks)
    exc = None
    signal.alarm(WATCHDOG_S)
    try:
        t.run()            # the real reader loop, synchronously, until read() raises WhadDeviceNotReady
    except Exception as e:  # noqa  (the reader thread is dead now)
        exc = type(e).__name__
        if isinstance(e, IngestHang):
            HANGS[0] += 1
    finally:
        signal.alarm(0)
    out = [msg_id(m).hex() for m in dev.got]
    return {"out": out, "cls": [cls_name(m) for m in dev.got], "exc": exc,
            "table": [[k.hex(), v] for k, v in PARSE_LOG.items()]}


def run_case_entry(entry):
    """entry: [chunk_hex | null, ...]  or  {"chunks": [...], "v": 1 | null, "isolated": bool}"""
    if isinstance(entry, dict):
        chunks, v, iso = entry["chunks"], entry.get("v"), entry.get("isolated")
    else:
        chunks, v, iso = entry, None, False
    chunks = [None if c is None else bytes.fromhex(c) for c in chunks]
    if iso:
        return isolated(lambda: run_case(chunks, v))
    return run_case(chunks, v)


def fresh_thread_factory():
    t = DevOutThread(DEV)
    attr = "_DevOutThread__data"
    if hasattr(t, attr):
        def reset():
            setattr(t, attr, bytearray())
            return t
        return reset
    return lambda: DevOutThread(DEV)


def run_sweep(spec):
    tokens = [bytes.fromhex(h) for h in spec["tokens"]]
    k = len(tokens)
    fresh = fresh_thread_factory()
    table = {}
    obs, deviations, runs, count = [], [], 0, 0
    first = spec.get("first")
    second = spec.get("second")
    for n in range(spec.get("minlen", 1), spec["maxlen"] + 1):
        for idx, seq in enumerate(itertools.product(range(k), repeat=n)):
            if first is not None and seq[0] not in first:
                continue
            if second is not None and n >= 2 and seq[1] not in second:
                continue
            count += 1
            toks = [tokens[i] for i in seq]
            ref = None
            # every chunking at token boundaries: bit j of mask set = cut after token j
            for mask in range(1 << (n - 1)):
                chunks, cur = [], toks[0]
                for j in range(1, n):
                    if mask >> (j - 1) & 1:
                        chunks.append(cur); cur = toks[j]
                    else:
                        cur = cur + toks[j]
                chunks.append(cur)
                DEV.got = []
                PARSE_LOG.clear()
                t = fresh()
                exc = None
                signal.alarm(WATCHDOG_S)
                DEV.script = iter(chunks)
                try:
                    t.run()
                except Exception as e:  # noqa
                    exc = type(e).__name__
                    if isinstance(e, IngestHang):
                        HANGS[0] += 1
                finally:
                    signal.alarm(0)
                runs += 1
                res = ([msg_id(m).hex() for m in DEV.got], exc)
                table.update(PARSE_LOG)
                if ref is None:
                    ref = res
                elif res != ref and len(deviations) < 20:
                    deviations.append({"tokens": [x.hex() for x in toks], "chunks": [c.hex() for c in chunks],
                                       "whole": ref, "chunked": res})
            if ref[0] or ref[1]:
                obs.append([list(seq), ref[0], ref[1]])
            if HANGS[0] >= 3:
                return {"n": count, "obs": obs, "deviations": deviations, "runs": runs, "aborted": True,
                        "table": [[p.hex(), v] for p, v in table.items()]}
    return {"n": count, "obs": obs, "deviations": deviations, "runs": runs,
            "table": [[p.hex(), v] for p, v in table.items()]}


def main():
    req = json.load(sys.stdin)
    res = {}
    if "messages" in req:
        res["messages"] = build_messages(req["messages"])
    if "sender_seq" in req and "messages" in req:
        # ONE DevInThread framing a whole sequence of fresh messages, one after the other, in one
        # (forked) process: a sender that keeps state between messages shows here
        specs = req["messages"]
        def seq_work():
            out = []
            for i in req["sender_seq"]:
                try:
                    m = build_message(*specs[i])
                    out.append({"i": i, "name": m["name"], "frame": m["frame"], "ser": m["ser"]})
                except Exception as e:  # noqa
                    out.append({"i": i, "name": specs[i][0], "exc": type(e).__name__})
            return out
        res["sender_seq"] = isolated(seq_work)
    if req.get("pbmut"):
        res["pbmut"] = pb_mutations()
    if "parse" in req:
        res["parse"] = parse_isolated(req["parse"])
    if "cases" in req:
        res["cases"] = [run_case_entry(e) for e in req["cases"]]
    if req.get("sweep"):
        res["sweep"] = run_sweep(req["sweep"])
    print("RESULT " + json.dumps(res))


main()
