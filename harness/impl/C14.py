"""C14 implementation driver (runs under /venv/bin/python with the tree under verification on the path).

stdin: {"mode": "table"}                       -> live method-selection function on the full product
       {"mode": "pair", "cases": [case, ...]}  -> two REAL stacks (BleStack/LinkLayer/L2CAP/SMP), central and
                                                   peripheral, joined back to back by a fake connector (PHY)

Instrumentation is entirely from outside the tree:
  * module-namespace patches: whad.ble.stack.smp.{c1,s1,f4,f5,f6,g2,generate_random_value,randint,sleep,print},
    whad.ble.stack.llm.{e,randint}, whad.ble.crypto.e, builtins.input, SMPLayer.send_data (wrapped, to log PDUs)
  * the SMP layer's own custom_functions mechanism for generate_p256_keypair (fixed P-256 private numbers)
The cryptographic toolbox is replaced by deterministic injective TOKEN generators (SHA-256 of the tagged
argument list, cut to the output length, first and last byte forced non-zero).  Every token remembers the
term it stands for, so keys observed in the implementation are mapped back to terms of the algebra used
by the Coq model.  P-256 key pairs and ECDH are the real library's (commutativity of DH is the library's);
the two shared secrets are mapped to the term Dh when they equal the value computed here from the fixed keys.
User interaction is scripted through builtins.input / randint (the real get_pin_code, get_passkey_entry and
check_lesc_numeric_comparison run).
"""
import sys, json, logging, hashlib, signal, builtins, traceback
logging.disable(logging.CRITICAL)
from collections import deque
from struct import pack

from scapy.layers.bluetooth4LE import BTLE_DATA
from scapy.layers.bluetooth import SM_Hdr
from whad.ble.stack import BleStack
from whad.hub.ble.bdaddr import BDAddress
import whad.ble.stack.smp as smpmod
import whad.ble.stack.llm as llmmod
import whad.ble.crypto as cryptomod
from whad.ble.stack.smp import Pairing, CryptographicDatabase, SMPLayer, SM_Peer
from whad.ble.stack.smp.parameters import PairingCustomFunctions
from whad.ble.stack.att import ATTLayer
from whad.ble.stack.gatt import GattLayer

# the connectors attach a GATT layer to ATT (Central: GattClient, Peripheral: GattServer); a bare BleStack has none
# and LinkLayer.on_disconnect expects one
ATTLayer.add(GattLayer)

REAL_P256 = cryptomod.generate_p256_keypair
REAL_DH = cryptomod.generate_diffie_hellman_shared_secret

ADDR_I = ("11:22:33:44:55:66", False)
ADDR_R = ("a1:b2:c3:d4:e5:f6", True)
PRIV = {0: 0x1D5C7A3E9B2F4C6D8E0A1B3C5D7F9E2A4C6E8F0B1D3A5C7E9F2B4D6A8C0E1F35,
        1: 0x2E6D8B4FAC305D7E9F1B2C4D6E80AF3B5D7F90A1C2E4B6D8FA03C5E7B9D1F246}


class Watchdog(Exception):
    pass


def _alarm(signum, frame):
    raise Watchdog()


# ---------------------------------------------------------------------------
# tokens and terms
# ---------------------------------------------------------------------------

class World:
    """Per-case instrumentation state."""
    def __init__(self, case, salt=0):
        self.case = case
        self.salt = salt              # tokens of different procedures of a sequence never coincide
        self.side = 0                 # 0 = initiator/central stack executing, 1 = responder/peripheral
        self.table = {}               # bytes -> term
        self.rnd_count = {}           # (side, purpose) -> n
        self.trace = [[], []]         # SMP PDUs sent per side: (opcode, hex)
        self.shown = [[], []]         # what each device printed (numeric comparison values, generated pins)
        self.asked = [[], []]         # which prompts each device issued
        self.ll_rand = [{}, {}]       # skd / iv drawn per side
        self.literals = {}            # well-known literal byte strings -> nothing (resolved in Coq)

    def tok(self, term, n):
        h = bytearray(hashlib.sha256(("%d|" % self.salt + json.dumps(term, sort_keys=True)).encode()).digest()[:n])
        if h[0] == 0:
            h[0] = 0xA5
        if h[-1] == 0:
            h[-1] = 0x5A
        h = bytes(h)
        self.table[h] = term
        return h

    def resolve(self, v):
        """bytes -> term"""
        if v is None:
            return None
        v = bytes(v)
        t = self.table
        if v in t:
            return t[v]
        if v[::-1] in t:
            return ["Rev", t[v[::-1]]]
        s = v.rstrip(b"\x00")
        if len(s) < len(v) and len(v) == 16 and s in t:
            return ["Pad", t[s]]
        s = v.lstrip(b"\x00")
        if len(s) < len(v) and len(v) == 16 and s[::-1] in t:
            return ["Rev", ["Pad", t[s[::-1]]]]
        return ["B", v.hex()]


W = None   # current World

PURPOSE = {"generate_legacy_rand": 0, "generate_legacy_ltk": 1, "generate_legacy_random": 2,
           "generate_irk": 3, "generate_csrk": 4}


def p_generate_random_value(bits):
    purpose, f = 9, sys._getframe(1)
    for _ in range(4):          # the generator may be reached through a helper
        if f is None:
            break
        if f.f_code.co_name in PURPOSE:
            purpose = PURPOSE[f.f_code.co_name]
            break
        f = f.f_back
    for sd, pp, byte in W.case.get("bv", []):      # boundary value forced for this item (not a token)
        if sd == W.side and pp == purpose:
            return bytes([byte]) * int(bits / 8)
    key = (W.side, purpose)
    n = W.rnd_count.get(key, 0)
    W.rnd_count[key] = n + 1
    return W.tok(["Rnd", W.side, purpose, n], int(bits / 8))


def _args(*a):
    return [W.resolve(x) for x in a]


def p_c1(key, r, pres, preq, iat, ia, rat, ra):
    return W.tok(["C1"] + _args(key, r, pres, preq, iat, ia, rat, ra), 16)


def p_s1(key, r1, r2):
    return W.tok(["S1"] + _args(key, r1, r2), 16)


def p_f4(u, v, x, z):
    return W.tok(["F4"] + _args(u, v, x, z), 16)


def p_f5(w, n1, n2, a1, a2):
    a = _args(w, n1, n2, a1, a2)
    return W.tok(["F5a"] + a, 16) + W.tok(["F5b"] + a, 16)


def p_f6(w, n1, n2, r, iocap, a1, a2):
    return W.tok(["F6"] + _args(w, n1, n2, r, iocap, a1, a2), 16)


def p_g2(u, v, x, y):
    return W.tok(["G2"] + _args(u, v, x, y), 4)


def p_e(key, plaintext):
    return W.tok(["E"] + _args(key, plaintext), 16)


def p_randint_smp(a, b):
    fn = sys._getframe(1).f_code.co_name
    ui = W.case["ui"]
    if fn == "get_pin_code":
        v = ui["gen_i"] if W.side == 0 else ui["gen_r"]
        return v
    # generate_legacy_ediv
    if W.case.get("rmax"):
        return b
    if W.case.get("ediv") is not None:
        return W.case["ediv"][W.side]
    return (0x1234 + 0x1111 * W.side) % (b + 1)


def p_randint_llm(a, b):
    if W.case.get("rmax"):
        v = b
    else:
        h = hashlib.sha256(("ll%d-%d-%d" % (W.side, b, W.salt)).encode()).digest()
        v = int.from_bytes(h[:8], "big") % b
    W.ll_rand[W.side]["skd" if b > 0x100000000 else "iv"] = v
    return v


def p_print(*a, **k):
    fn = sys._getframe(1).f_code.co_name
    W.shown[W.side].append([fn] + [x if isinstance(x, (int, str)) else str(x) for x in a])


def p_input(*a):
    fn = sys._getframe(1).f_code.co_name
    ui = W.case["ui"]
    W.asked[W.side].append(fn)
    if fn in ("get_pin_code", "get_passkey_entry"):
        return str(ui["typed_i"] if W.side == 0 else ui["typed_r"])
    if fn == "check_lesc_numeric_comparison":
        return "y" if (ui["nc_i"] if W.side == 0 else ui["nc_r"]) else "n"
    raise RuntimeError("unexpected input() from " + fn)


_orig_send_data = SMPLayer.send_data


def p_send_data(self, packet):
    raw = bytes(SM_Hdr() / packet)
    W.trace[W.side].append([raw[0], raw.hex()])
    return _orig_send_data(self, packet)


def install():
    smpmod.generate_random_value = p_generate_random_value
    smpmod.c1, smpmod.s1, smpmod.f4, smpmod.f5, smpmod.f6, smpmod.g2 = p_c1, p_s1, p_f4, p_f5, p_f6, p_g2
    smpmod.randint = p_randint_smp
    smpmod.sleep = lambda x: None
    smpmod.print = p_print
    llmmod.e = p_e
    llmmod.randint = p_randint_llm
    cryptomod.e = p_e
    builtins.input = p_input
    SMPLayer.send_data = p_send_data


# ---------------------------------------------------------------------------
# fake connector / PHY and the pump
# ---------------------------------------------------------------------------

class Out:
    """PDUs waiting on the wire: one FIFO per connection handle (connections are independent channels);
    the pump serves the handles round-robin, so interleaved procedures really alternate PDU by PDU."""
    def __init__(self):
        self.q = {}
        self.last = None

    def append(self, item):
        self.q.setdefault(item[0], deque()).append(item)

    def __bool__(self):
        return any(self.q.values())

    def popleft(self):
        hs = sorted(h for h, d in self.q.items() if d)
        later = [h for h in hs if self.last is not None and h > self.last]
        h = (later or hs)[0]
        self.last = h
        return self.q[h].popleft()

    def clear(self):
        self.q = {}


class Conn:
    def __init__(self):
        self.out = Out()
        self.enc = []
        self.connection = None

    def on_new_connection(self, connection):
        self.connection = connection

    def send_data_pdu(self, data, conn_handle=None, encrypt=None):
        self.out.append((conn_handle, bytes(data)))
        return True

    def send_ctrl_pdu(self, pdu, conn_handle=None, encrypt=None):
        self.out.append((conn_handle, bytes(pdu)))
        return True

    def set_encryption(self, conn_handle=None, enabled=True, ll_key=None, ll_iv=None, key=None, rand=None, ediv=None):
        self.enc.append({"enabled": bool(enabled), "handle": conn_handle, "ll_key": W.resolve(ll_key), "ll_iv": bytes(ll_iv).hex(),
                         "key": W.resolve(key), "rand": rand, "ediv": ediv})
        return True

    def on_mtu_changed(self, conn_handle, mtu):
        pass


def deliver(stack, raw, h):
    pkt = BTLE_DATA(raw)
    if pkt.LLID == 3:
        stack.on_ctl_pdu(h, pkt)
    else:
        stack.on_data_pdu(h, pkt)


def mkpairing(p, side):
    cf = PairingCustomFunctions(generate_p256_keypair=lambda: REAL_P256(PRIV[side]))
    kd = p["kd"]
    return Pairing(oob=bool(p["oob"]), bonding=bool(p["bonding"]), mitm=bool(p["mitm"]), lesc=bool(p["lesc"]),
                   max_key_size=p["mks"], iocap=p["iocap"], enc_key=bool(kd & 1), id_key=bool(kd & 2),
                   sign_key=bool(kd & 4), link_key=bool(kd & 8), custom_functions=cf)


def exc_info(e):
    tb = traceback.extract_tb(e.__traceback__)
    where = tb[-1].name if tb else "?"
    inner = [f.name for f in tb if f.filename.endswith("smp/__init__.py") or f.filename.endswith("llm/__init__.py")]
    return {"cls": type(e).__name__, "where": (inner[-1] if inner else where)}


def db_dump(db):
    out = []
    for ent in getattr(db, "_CryptographicDatabase__entries"):
        a = ent.address
        d = {"addr": str(a), "atype": int(a.type), "auth": bool(ent.is_authenticated())}
        if ent.has_ltk():
            d["ltk"] = W.resolve(ent.ltk.value)
            d["rand"] = W.resolve(ent.ltk.rand)
            d["ediv"] = ent.ltk.ediv
        if ent.has_irk():
            d["irk"] = W.resolve(ent.irk.value)
        if ent.has_csrk():
            d["csrk"] = W.resolve(ent.csrk.value)
        out.append(d)
    return out


def sget(st, name):
    try:
        return getattr(st, name)
    except AttributeError:
        return None


_L2CAP_SEQ = [100]


def run_case(case):
    """One case = one pairing on fresh stacks, or ("seq") several pairings through the SAME two stacks.
    Step mode "new" = on a new connection handle, "same" = the current connection is paired again,
    "reconnect" = the current connection is closed (on_disconnection) and opened again with the same handle.
    A step with "concurrent": true (mode "new") runs INTERLEAVED with the previous step: both procedures are
    started before any PDU is delivered and their PDUs alternate on the wire."""
    global W
    from whad.ble.stack.l2cap import L2CAPLayer
    steps = case["seq"] if "seq" in case else [dict(case, mode="new")]
    cc, cp = Conn(), Conn()
    sc, sp = BleStack(cc), BleStack(cp)
    a_i = BDAddress(ADDR_I[0], random=ADDR_I[1])
    a_r = BDAddress(ADDR_R[0], random=ADDR_R[1])
    k0, pk0 = REAL_P256(PRIV[0])
    k1, pk1 = REAL_P256(PRIV[1])
    shared_dbs = [CryptographicDatabase(), CryptographicDatabase()]
    conns = {}            # connection id -> {"h": [central handle, peripheral handle], "smp": [...], "db": [...]}
    cur, next_c = None, 0
    by_handle = [{}, {}]  # per side: connection handle -> connection id

    def connect(cid, hs, dbs):
        for side, stack in ((0, sc), (1, sp)):
            h = hs[side]
            W.side = side
            # contextual layer names: Layer.instantiate never writes INSTCOUNT back (every instance after the
            # second is named l2cap#1); give each L2CAP instance its own name from outside
            _L2CAP_SEQ[0] += 1
            L2CAPLayer.INSTCOUNT = _L2CAP_SEQ[0]
            if side == 0:
                stack.on_connection(h, a_i, a_r)
            else:
                stack.on_connection(h, a_r, a_i)
        smp_i, smp_r = cc.connection.smp, cp.connection.smp
        smp_i.set_security_database(dbs[0])
        smp_r.set_security_database(dbs[1])
        smp_r.set_responder_role()
        conns[cid] = {"h": list(hs), "smp": [smp_i, smp_r], "db": dbs}
        by_handle[0][hs[0]] = cid
        by_handle[1][hs[1]] = cid

    # batches of procedures that run interleaved
    batches = []
    for k, step in enumerate(steps):
        if step.get("concurrent") and batches:
            batches[-1].append((k, step))
        else:
            batches.append([(k, step)])
    runs = [None] * len(steps)
    for batch in batches:
        worlds, meta = {}, {}
        for k, step in batch:
            W = World(step, salt=k)
            # real DH values for the fixed key pairs (to recognise the shared secret and the public X coordinates)
            W.table[REAL_DH(k0, pk1)] = ["Dh"]
            W.table[bytes.fromhex("{:064x}".format(pk0.public_numbers().x))] = ["Pkx", 0]
            W.table[bytes.fromhex("{:064x}".format(pk1.public_numbers().x))] = ["Pkx", 1]
            mode = step.get("mode", "new")
            # interleaved procedures write to their own databases so that their entries can be told apart
            dbs = shared_dbs if len(batch) == 1 else [CryptographicDatabase(), CryptographicDatabase()]
            if mode == "new" or cur is None:
                next_c += 1
                cur = next_c
                # connection handles: given by the step (central, peripheral; need not be equal), else 1, 2, ...
                connect(cur, step.get("handles") or [cur, cur], dbs)
            elif mode == "reconnect":
                for side, stack in ((0, sc), (1, sp)):
                    W.side = side
                    stack.on_disconnection(conns[cur]["h"][side], 0x13)
                connect(cur, conns[cur]["h"], conns[cur]["db"])
            h = cur
            worlds[h] = W
            smp_i, smp_r = conns[h]["smp"]
            smp_r.pairing_parameters = mkpairing(step["r"], 1)
            meta[h] = {"k": k, "step": step, "excs": [[], []],
                       "db0": [len(getattr(d, "_CryptographicDatabase__entries")) for d in conns[h]["db"]],
                       "enc0": [len(cc.enc), len(cp.enc)]}
        nmsg, timeout = 0, False
        signal.signal(signal.SIGALRM, _alarm)
        signal.alarm(int(batch[0][1].get("watchdog", 60)) * len(batch))
        try:
            for h in sorted(worlds):
                W = worlds[h]
                W.side = 0
                try:
                    conns[h]["smp"][0].initiate_pairing(parameters=mkpairing(meta[h]["step"]["i"], 0))
                except Watchdog:
                    raise
                except Exception as e:   # noqa
                    meta[h]["excs"][0].append(exc_info(e))
            while (cc.out or cp.out) and nmsg < 4000 * len(batch):
                for src, dst_stack, dst in ((cc, sp, 1), (cp, sc, 0)):
                    if src.out:
                        sh, raw = src.out.popleft()
                        nmsg += 1
                        hh = by_handle[1 - dst].get(sh)       # connection id from the sender's handle
                        if hh not in worlds:
                            continue
                        W = worlds[hh]
                        W.side = dst
                        W.nmsg = getattr(W, "nmsg", 0) + 1
                        try:
                            deliver(dst_stack, raw, conns[hh]["h"][dst])
                        except Watchdog:
                            raise
                        except Exception as e:   # noqa
                            meta[hh]["excs"][dst].append(exc_info(e))
            if cc.out or cp.out:
                timeout = True
        except Watchdog:
            timeout = True
        finally:
            signal.alarm(0)
        cc.out.clear()
        cp.out.clear()
        for h in sorted(worlds):
            W = worlds[h]
            m = meta[h]
            sides = []
            for side, (conn, stack) in enumerate(((cc, sc), (cp, sp))):
                smp = conns[h]["smp"][side]
                st = smp.state
                W.side = side
                llc = stack.get_layer('ll').state.connections.get(conns[h]["h"][side], {})
                d = {"state": sget(st, "state"), "fail": sget(st, "last_failure"),
                     "exc": m["excs"][side][:3], "method": sget(st, "method"),
                     "tk": W.resolve(sget(st, "tk")), "stk": W.resolve(sget(st, "stk")), "ltk": W.resolve(sget(st, "ltk")),
                     "rand": W.resolve(sget(st, "rand")), "ediv": sget(st, "ediv"),
                     "irk": W.resolve(sget(st, "irk")), "csrk": W.resolve(sget(st, "csrk")),
                     "done": bool(smp.is_pairing_done()), "failed": bool(sget(st, "last_failure") is not None),
                     "enc": [x for x in conn.enc[m["enc0"][side]:] if x["handle"] == conns[h]["h"][side]],
                     "db": db_dump(conns[h]["db"][side])[m["db0"][side]:],
                     "ll_key": W.resolve(llc.get("encryption_key")), "encrypted": bool(llc.get("encrypted")),
                     "ll_rand": W.ll_rand[side],
                     "shown": W.shown[side][:50], "asked": W.asked[side][:50],
                     "trace": [t[0] for t in W.trace[side]]}
                sides.append(d)
            preq = next((t[1] for t in W.trace[0] if t[0] == 1), None)
            pres = next((t[1] for t in W.trace[1] if t[0] == 2), None)
            wire = []
            for side in (0, 1):
                ks = {}
                for op, hx in W.trace[side]:
                    b = bytes.fromhex(hx)[1:]
                    if op == 6:
                        ks["ltk"] = W.resolve(b[::-1])
                    elif op == 7:
                        ks["ediv"] = b[0] | (b[1] << 8)
                        ks["rand"] = W.resolve(b[2:][::-1])
                    elif op == 8:
                        ks["irk"] = W.resolve(b[::-1])
                    elif op == 9:
                        ks["addr"] = b.hex()
                    elif op == 10:
                        ks["csrk"] = W.resolve(b[::-1])
                wire.append(ks)
            runs[m["k"]] = {"sides": sides, "preq": preq, "pres": pres, "wire": wire,
                            "nmsg": getattr(W, "nmsg", 0) if len(batch) > 1 else nmsg, "timeout": timeout, "handles": conns[h]["h"]}
    if "seq" in case:
        return {"runs": runs}
    return runs[0]


# ---------------------------------------------------------------------------
# table mode: the live selection function on the full product
# ---------------------------------------------------------------------------

class _St:
    pass


def table_mode():
    import whad.ble.stack.smp.constants as K
    res = {"mapping": sorted([[list(k), list(v)] for k, v in K.IOCAP_KEY_GENERATION_MAPPING.items()]),
           "consts": {n: getattr(K, n) for n in dir(K) if n.isupper() and isinstance(getattr(K, n), int)},
           "authenticated": list(K.AUTHENTICATED_METHODS)}
    addr = BDAddress("00:11:22:33:44:55")
    rows = []
    combos = [(l, o, m, io) for l in (0, 1) for o in (0, 1) for m in (0, 1) for io in range(5)]

    def peer(t):
        p = SM_Peer(addr)
        p.set_security_parameters(lesc=bool(t[0]), oob=bool(t[1]), mitm=bool(t[2]))
        p.iocap = t[3]
        return p
    for a in combos:
        for b in combos:
            try:
                r = SMPLayer.key_generation_method_selection(None, peer(a), peer(b))
                rows.append([list(a), list(b), "none" if r is None else int(r)])
            except Exception as e:   # noqa
                rows.append([list(a), list(b), "raise:" + type(e).__name__])
    res["rows"] = rows
    # get_pin_code: which source is used for each own IO capability, in each role
    pins = []
    global W
    for io in range(5):
      for peer in range(5):
        for init in (True, False):
            W = World({"ui": {"gen_i": 111111, "gen_r": 111111, "typed_i": 222222, "typed_r": 222222,
                              "nc_i": True, "nc_r": True}})
            self = _St()
            self.state = _St()
            self.state.initiator = _St()
            self.state.responder = _St()
            self.state.initiator.iocap = io if init else peer
            self.state.responder.iocap = peer if init else io
            self.is_initiator = (lambda v=init: v)
            try:
                v = SMPLayer.get_pin_code(self)
                pins.append([io, peer, init, "typed" if v == 222222 else ("generated" if v == 111111 else "other")])
            except Exception as e:   # noqa
                pins.append([io, peer, init, "raise:" + type(e).__name__])
    res["pins"] = pins
    return res


def main():
    req = json.load(sys.stdin)
    install()
    if req.get("mode") == "table":
        out = table_mode()
    else:
        out = {"results": []}
        for case in req["cases"]:
            try:
                out["results"].append(run_case(case))
            except Watchdog:
                out["results"].append({"driver_error": "watchdog outside the pump"})
            except Exception as e:   # noqa
                out["results"].append({"driver_error": type(e).__name__ + ": " + str(e)[:300],
                                       "tb": traceback.format_exc()[-1500:]})
    print("RESULT " + json.dumps(out))


main()
