"""C03 implementation driver: runs the real hub wrapper classes (to_packet / from_packet /
ProtocolHub.convert_packet) of whad-client on a batch of cases, in ONE process.

stdin : {"cases": [case, ...], "codec": [[layer key, hex], ...], "warmup": [K, ...], "order": [case indices]}
  case = {"op": "m2p2m", "cls": K, "fields": {name: value}}         message -> packet -> message
       | {"op": "p2m2p", "cls": K, "pkt": PKT, "kw": {..}}          packet -> message -> packet
       | {"op": "convert", "pkt": PKT, "ver": 1|2}                   hub.convert_packet(pkt).to_packet()
       | {"op": "seq", "dir": "m2p"|"p2m"|"conv", "cls": K, "items": [..]}   several conversions, all results kept and re-read
  K    = "<domain>.<msg>[@version]"   e.g. "ble.raw_pdu", "phy.packet@2"
  value= int | bool | {"hex": ".."} | [ints]
  PKT  = {"layer": scapy class name, "bytes": hex, "clear": [field names set to None after dissection],
          "md": null | {"cls": metadata class name, item: value | {"hex":..} | {"enum": [cls, int]}}}
stdout: RESULT {"res": [ {stage: STAGE, ...} ]}
  STAGE = {"ok": dump} | {"none": true} | {"exc": exception class name}
  message dump = {"k": "<domain>.<msg>", "wrapper": class name, "f": {proto field: value | null(absent) | "hex:.."}}
  packet dump  = {"layers": [class names], "bytes": hex, "md": null | {"cls": name, item: canonical value}}
Only canonical observables are returned (bytes as hex, enum values as ints, exception class names).
"""
import sys, os, json, logging, dataclasses, enum
logging.disable(logging.CRITICAL)
_real_stdout = sys.stdout
sys.stdout = open(os.devnull, "w")      # SendBleRawPdu.to_packet prints the message

from scapy.packet import Raw, NoPayload
from scapy.layers.bluetooth4LE import BTLE, BTLE_DATA, BTLE_ADV, BTLE_CTRL, BTLE_ADV_IND, \
    BTLE_ADV_NONCONN_IND, BTLE_ADV_DIRECT_IND, BTLE_ADV_SCAN_IND, BTLE_SCAN_RSP
from scapy.layers.dot15d4 import Dot15d4, Dot15d4FCS
from whad.scapy.layers.dot15d4tap import Dot15d4Raw
from whad.scapy.layers.esb import ESB_Hdr, ESB_Payload_Hdr
from whad.scapy.layers.phy import Phy_Packet
from whad.hub import ProtocolHub
from whad.hub.ble import BleDomain, BLEMetadata
from whad.hub.dot15d4 import Dot15d4Domain, Dot15d4Metadata
from whad.hub.esb import EsbDomain, ESBMetadata
from whad.hub.unifying import UnifyingDomain, UnifyingMetadata
from whad.hub.phy import PhyDomain, PhyMetadata, Endianness, Modulation, Syncword
from whad.hub.metadata import Metadata

from scapy.config import conf as _conf
D15_DEFAULT = _conf.dot15d4_protocol
HUBS = {1: ProtocolHub(1), 2: ProtocolHub(2)}
for h in HUBS.values():      # force lazy loading of every domain
    h.ble, h.dot15d4, h.esb, h.phy, h.unifying

DOMAINS = {"ble": BleDomain, "dot15d4": Dot15d4Domain, "esb": EsbDomain,
           "unifying": UnifyingDomain, "phy": PhyDomain}
LAYERS = {c.__name__: c for c in (BTLE, BTLE_DATA, BTLE_ADV, BTLE_CTRL, BTLE_ADV_IND, BTLE_ADV_NONCONN_IND,
                                  BTLE_ADV_DIRECT_IND, BTLE_ADV_SCAN_IND, BTLE_SCAN_RSP, Dot15d4, Dot15d4FCS, Dot15d4Raw,
                                  ESB_Hdr, ESB_Payload_Hdr, Phy_Packet, Raw)}
MDS = {c.__name__: c for c in (BLEMetadata, Dot15d4Metadata, ESBMetadata, UnifyingMetadata, PhyMetadata, Metadata)}
ENUMS = {"Endianness": Endianness, "Modulation": Modulation}


def wrapper(key):
    name, _, ver = key.partition("@")
    dom, msg = name.split(".", 1)
    ver = int(ver) if ver else 1
    # Instantiating the domain object is what a connector does before using its messages; the
    # ESB / Unifying constructors switch the global scapy binding of ESB_Payload_Hdr (unbind / bind).
    getattr(HUBS[ver], dom)
    return DOMAINS[dom].bound(msg, ver)


def dec(v):
    if isinstance(v, dict):
        if "hex" in v:
            return bytes.fromhex(v["hex"])
        if "enum" in v:
            return ENUMS[v["enum"][0]](v["enum"][1])
        if "syncword" in v:
            return Syncword(bytes.fromhex(v["syncword"]))
    return v


def canon(v):
    if v is None or isinstance(v, bool):
        return v
    if isinstance(v, (bytes, bytearray)):
        return "hex:" + bytes(v).hex()
    if isinstance(v, enum.Enum):
        return int(v)
    if isinstance(v, int):
        return int(v)
    if isinstance(v, str):
        return "str:" + v
    if isinstance(v, (list, tuple)):
        return [canon(x) for x in v]
    try:
        return [canon(x) for x in v]          # protobuf repeated containers
    except TypeError:
        return "other:" + type(v).__name__


def dump_msg(m):
    pb = m.message
    dom = pb.WhichOneof("msg")
    if dom is None:
        return {"k": None, "wrapper": type(m).__name__, "f": {}}
    sub = getattr(pb, dom)
    name = sub.WhichOneof("msg")
    if name is None:
        return {"k": dom + ".", "wrapper": type(m).__name__, "f": {}}
    leaf = getattr(sub, name)
    f = {}
    for fd in leaf.DESCRIPTOR.fields:
        if fd.has_presence and not leaf.HasField(fd.name):
            f[fd.name] = None
        else:
            f[fd.name] = canon(getattr(leaf, fd.name))
    return {"k": dom + "." + name, "wrapper": type(m).__name__, "f": f}


def dump_pkt(p):
    layers, cur = [], p
    while cur is not None and not isinstance(cur, NoPayload):
        layers.append(type(cur).__name__)
        cur = cur.payload
    md = getattr(p, "metadata", None) if "metadata" in p.__dict__ else None
    mdd = None
    if md is not None:
        # every attribute the metadata object really has (dataclass items AND attributes added on
        # the fly such as BLE `processed` / ESB `retransmission_count`)
        mdd = {"cls": type(md).__name__}
        for name in sorted(vars(md)):
            mdd[name] = canon(getattr(md, name))
    d = {"layers": layers, "bytes": bytes(p).hex(), "md": mdd}
    if isinstance(p, Dot15d4FCS):
        d["fcs_field"] = canon(p.fcs)
    return d


def make_pkt(spec):
    p = LAYERS[spec["layer"]](bytes.fromhex(spec["bytes"]))
    for fname in spec.get("clear", []):
        lay = p
        while lay is not None and not isinstance(lay, NoPayload):
            if fname in lay.fields:
                setattr(lay, fname, None)
                break
            lay = lay.payload
    md = spec.get("md")
    if md is not None:
        o = MDS[md["cls"]]()
        for k, v in md.items():
            if k != "cls":
                setattr(o, k, dec(v))
        p.metadata = o
    return p


def stage(fn):
    try:
        v = fn()
    except Exception as e:  # noqa
        return None, {"exc": type(e).__name__}
    if v is None:
        return None, {"none": True}
    return v, None


def set_d15proto(name):
    from scapy.config import conf
    conf.dot15d4_protocol = name if name else D15_DEFAULT


def do_case(c):
    out = {}
    op = c["op"]
    if op == "seq":
        return do_seq(c)
    set_d15proto(c.get("d15proto"))
    if op == "m2p2m":
        M = wrapper(c["cls"])
        m, err = stage(lambda: M(**{k: dec(v) for k, v in c["fields"].items()}))
        if err:
            return {"m0": err}
        out["m0"] = {"ok": dump_msg(m)}
        p, err = stage(m.to_packet)
        if err:
            out["p"] = err
            return out
        d, err = stage(lambda: dump_pkt(p))
        if err:
            out["p"] = {"exc_build": err.get("exc", "none")}
            return out
        out["p"] = {"ok": d}
        m1, err = stage(lambda: M.from_packet(p))
        out["m1"] = err or {"ok": dump_msg(m1)}
        return out
    if op in ("p2m2p", "convert"):
        if op == "p2m2p":
            wrapper(c["cls"])                      # domain constructor first (scapy binding)
        elif c.get("dom"):
            getattr(HUBS[c.get("ver", 2)], c["dom"])
        p, err = stage(lambda: make_pkt(c["pkt"]))
        if err:
            return {"p0": err}
        d, err = stage(lambda: dump_pkt(p))
        if err:
            return {"p0": err}
        out["p0"] = {"ok": d}
        if op == "p2m2p":
            M = wrapper(c["cls"])
            kw = {k: dec(v) for k, v in c.get("kw", {}).items()}
            m, err = stage(lambda: M.from_packet(p, **kw))
        else:
            m, err = stage(lambda: HUBS[c.get("ver", 2)].convert_packet(p))
        if err:
            out["m"] = err
            return out
        out["m"] = {"ok": dump_msg(m)}
        p1, err = stage(m.to_packet)
        if err:
            out["p1"] = err
            return out
        d, err = stage(lambda: dump_pkt(p1))
        out["p1"] = {"exc_build": err.get("exc", "none")} if err else {"ok": d}
        return out
    return {"bad_op": op}


def do_seq(c):
    """A SEQUENCE of conversions whose results are all kept and re-read afterwards.
    dir = "m2p": items are message field dicts of class c["cls"], each converted with to_packet();
          "p2m": items are packet specs, each converted with M.from_packet();
          "conv": items are packet specs, each converted with hub.convert_packet().
    Returns, per item, the dump taken right after its conversion ("first") and the dump of the SAME kept
    object taken after the whole sequence ("late"), and whether the kept results (and their metadata /
    protobuf objects) are pairwise distinct objects."""
    set_d15proto(c.get("d15proto"))
    kind, first, kept, inputs = c["dir"], [], [], []
    if kind == "m2p":
        M = wrapper(c["cls"])
        for f in c["items"]:
            m, err = stage(lambda: M(**{k: dec(v) for k, v in f.items()}))
            if err:
                first.append({"m0": err}); kept.append(None); continue
            e = {"m0": {"ok": dump_msg(m)}}
            p, err = stage(m.to_packet)
            if err:
                e["r"] = err; kept.append(None)
            else:
                d, err = stage(lambda: dump_pkt(p))
                e["r"] = {"exc_build": err.get("exc", "none")} if err else {"ok": d}
                kept.append(None if err else p)
            first.append(e)
        late = [None if p is None else {"ok": dump_pkt(p)} for p in kept]
        sub = [getattr(p, "metadata", None) for p in kept if p is not None]
    else:
        if kind == "p2m":
            M = wrapper(c["cls"])
        elif c.get("dom"):
            getattr(HUBS[c.get("ver", 2)], c["dom"])
        for spec in c["items"]:
            p, err = stage(lambda: make_pkt(spec))
            inputs.append(p)
        for p in inputs:
            if p is None:
                first.append({"p0": {"exc": "build"}}); kept.append(None); continue
            e = {"p0": {"ok": dump_pkt(p)}}
            if kind == "p2m":
                m, err = stage(lambda: M.from_packet(p))
            else:
                m, err = stage(lambda: HUBS[c.get("ver", 2)].convert_packet(p))
            e["r"] = err or {"ok": dump_msg(m)}
            kept.append(None if err else m)
            first.append(e)
        late = [None if m is None else {"ok": dump_msg(m)} for m in kept]
        sub = [m.message for m in kept if m is not None]
    objs = [o for o in kept if o is not None]
    sub = [o for o in sub if o is not None]
    res = {"first": first, "late": late, "distinct": len({id(o) for o in objs}) == len(objs),
           "sub_distinct": len({id(o) for o in sub}) == len(sub)}
    if inputs:
        res["in_late"] = [None if p is None else dump_pkt(p) for p in inputs]
    return res


def do_codec(q):
    """bytes(Layer(b)) computed with scapy alone (no whad hub code): the observed codec."""
    import struct
    key, hx = q
    name, _, dom = key.partition("@")
    set_d15proto(None)
    if dom in ("esb", "unifying"):
        getattr(HUBS[1], dom)          # esb -> unbind(), unifying -> bind()
    elif dom:
        set_d15proto(dom)              # Dot15d4@zigbee
    try:
        p = LAYERS[name](bytes.fromhex(hx))
        lay, cur = [], p
        while cur is not None and not isinstance(cur, NoPayload):
            lay.append(type(cur).__name__)
            cur = cur.payload
        return {"ok": bytes(p).hex(), "layers": lay}
    except struct.error:
        return {"struct": True}
    except Exception as e:  # noqa
        return {"exc": type(e).__name__}


def main():
    req = json.load(sys.stdin)
    # "warmup": class keys instantiated (empty message) in this order before any case, so that the
    # order in which the wrapper classes are first used in the process is chosen by the harness;
    # "order": permutation in which the cases are run (results are returned in request order)
    for k in req.get("warmup", []):
        try:
            wrapper(k)()
        except Exception:  # noqa
            pass
    cases = req.get("cases", [])
    order = req.get("order") or list(range(len(cases)))
    res = [None] * len(cases)
    for i in order:
        res[i] = do_case(cases[i])
    cod = [do_codec(q) for q in req.get("codec", [])]
    sys.stdout = _real_stdout
    print("RESULT " + json.dumps({"res": res, "codec": cod}))


main()
