"""C20 implementation driver: two real 802.15.4 stacks (Dot15d4Stack + MACManager with its
MACDataService / MACManagementService) joined back to back by a fake PHY (the connector
object the stack transmits through), with virtual time.

Nothing in the tree is edited: the names `time` / `sleep` of the module
whad.dot15d4.stack.mac are replaced from outside, and a recording layer is registered above
the MAC (the way whad.zigbee / whad.rf4ce register their NWK layer) to observe MCPS-DATA
indications.

stdin : {"addr": [...], "raw": [...], "ack": [...], "hist": [...], "choose": [...], "table": bool}
stdout: RESULT {"addr": [...], "raw": [...], "ack": [...], "hist": [...], "choose": [...], "table": [...]}

addr case  : {"A": {pan, short, ext}, "B": {pan, short, ext, promisc, implicit},
              "req": {sam, dam, dpan|null, daddr|null, suppressed, payload(hex), seq0, wait}}
   result  : {"ret": bool|null, "frames": [hex], "ind": [[payload hex, dpan, daddr, span, saddr]], "seq_after": n}
             | {"exc": cls, ...}
raw case   : {"B": {...}, "frames": [hex]}      (frames put on B's PHY as they are)
   result  : {"ind": [...], "acks": n_queued}   | {"exc": cls}
ack case   : {"seq0": n, "ops": [["O", seq] | ["S", wait, [["A", seq] | ["T"]], imm(, return_ack)]]}
             imm = how many leading acknowledgements arrive while the PHY is still transmitting (they
             are all queued before send_data polls for the first time); return_ack: call
             MACManager.send_data(..., return_ack=True) directly (as MLME-POLL does)
   result  : {"sends": [{"ret": bool, "frames": [hex], ["ack_seq": n]}], ["exc": cls]}
Every case runs under a hard wall-clock limit (CASE_WALL_S, SIGALRM): a case that blocks or sleeps in
real time is reported as raising WallClock. queue.Queue of the MAC and service modules is replaced by
VQueue (blocking get with timeout = virtual time).
hist case  : {"A": {...}, "B": {...}, "seq0": n, "ops": [op]}  one sender, one receiver whose PIB is
             rewritten between frames.  op = ["F", req]                          data request of A
                | ["U", path, attr, value]   path = "mlme_set" | "db" | "helper" (set_short_address /
                                             set_extended_address); attr = PIB attribute name
                | ["START", pan] | ["ASSOC_FAIL", pan, coord] | ["ASSOC_OK", pan, coord, short] | ["RESET"]
   result  : {"steps": [{"frames": [hex], "ind": [...], "ret": .., "seq_after": n, "pib": {...}} per "F"],
              "pib": {...} (receiver PIB at the end), "upd": [return values of the update ops]}
choose case: [framever, dam, sam, dest_panid|null, src_panid|null, has_layer]
   result  : {"bit": n, "view": [hasattr dest_panid, hasattr src_panid, packet.dest_panid, packet.src_panid]}
             | {"exc": cls, "view": ...}
"""
import os, sys, json, logging, struct, signal, queue as _queue
logging.disable(logging.CRITICAL)
from scapy.config import conf
conf.dot15d4_protocol = "zigbee"
from scapy.layers.dot15d4 import Dot15d4, Dot15d4Data, Dot15d4Cmd, Dot15d4CmdAssocResp
from scapy.packet import Raw
import whad.dot15d4.stack.mac as macmod
import whad.dot15d4.stack.service as svcmod
from whad.dot15d4.stack import Dot15d4Stack
from whad.dot15d4.stack.mac import MACManager
from whad.dot15d4.stack.mac.constants import MACAddressMode
import whad.dot15d4.stack.mac.constants as macconst
from whad.common.stack import Layer, alias, source

TICK = 0.01
MAX_CALLS = 20000


class Hang(Exception):
    pass


class VirtualTime:
    """time()/sleep() replacement: every call advances the clock; acknowledgements
    scheduled on the clock are put on the sender's PHY when their time has come."""
    def __init__(self):
        self.now = 1000.0
        self.sched = []     # list of (t, callable), kept sorted by t (stable)
        self.calls = 0

    def fire(self):
        while self.sched and self.sched[0][0] <= self.now + 1e-9:
            _t, fn = self.sched.pop(0)
            fn()

    def time(self):
        self.calls += 1
        if self.calls > MAX_CALLS:
            raise Hang()
        self.now += TICK
        self.fire()
        return self.now

    def sleep(self, d):
        self.calls += 1
        if self.calls > MAX_CALLS:
            raise Hang()
        self.now += max(d, 1e-6)
        self.fire()


VT = VirtualTime()


class VQueue(_queue.Queue):
    """queue.Queue on the virtual clock: a blocking get with a timeout does not sleep, it advances
    virtual time tick by tick (delivering the acknowledgements that fall due) until an item is there or
    the timeout has elapsed. A blocking get WITHOUT timeout on an empty queue could only be served by
    another thread: there is none here, so it is reported as a hang instead of blocking for ever."""
    def get(self, block=True, timeout=None):
        if not block:
            return _queue.Queue.get(self, block=False)
        if timeout is None:
            if self.empty():
                raise Hang()
            return _queue.Queue.get(self, block=False)
        if timeout < 0:
            raise ValueError("'timeout' must be a non-negative number")
        deadline = VT.now + timeout
        while True:
            try:
                return _queue.Queue.get(self, block=False)
            except _queue.Empty:
                if VT.now >= deadline - 1e-9:
                    raise
                VT.sleep(min(TICK, deadline - VT.now))


macmod.time = VT.time
macmod.sleep = VT.sleep
macmod.Queue = VQueue
svcmod.time = VT.time      # Dot15d4Service.wait_for_packet (association response wait)
svcmod.Queue = VQueue


class WallClock(Exception):
    """a single case took more real time than allowed (something blocks or sleeps in real time)"""


CASE_WALL_S = float(os.environ.get("C20_CASE_WALL_S", "10"))


def _on_alarm(signum, frame):
    raise WallClock()


signal.signal(signal.SIGALRM, _on_alarm)


def guarded(fn, c, fallback):
    """Run one case under a hard wall-clock limit; the case is reported as raising WallClock."""
    signal.setitimer(signal.ITIMER_REAL, CASE_WALL_S)
    try:
        return fn(c)
    except WallClock:
        out = dict(fallback)
        out["exc"] = "WallClock"
        return out
    finally:
        signal.setitimer(signal.ITIMER_REAL, 0)


@alias('nwk')
class Upper(Layer):
    """Records MCPS-DATA indications."""
    def configure(self, options={}):
        self.ind = []

    @source('mac', 'MCPS-DATA')
    def on_mcps_data(self, pdu, destination_pan_id=None, destination_address=None,
                     source_pan_id=None, source_address=None, link_quality=None):
        self.ind.append([bytes(pdu).hex(), destination_pan_id, destination_address,
                         source_pan_id, source_address])


MACManager.add(Upper)


class FakePhy:
    """The connector of a Dot15d4Stack: what the stack hands over is serialised, logged and
    given, re-dissected from the bytes, to the peer's stack (as a real connector does with
    the PDU bytes received from the radio)."""
    def __init__(self):
        self.frames = []
        self.peer = None
        self.stack = None
        self.on_tx = None
        self.dropped = 0

    def send(self, packet):
        b = bytes(packet)
        self.frames.append(b.hex())
        if self.peer is not None:
            self.peer.receive(b)
        if self.on_tx is not None:
            self.on_tx()

    def receive(self, b):
        # whad.hub...PduReceived.to_packet is @dissect_failsafe: a frame whose dissection
        # raises struct.error never reaches the stack
        try:
            pdu = Dot15d4(b)
        except struct.error:
            self.dropped += 1
            return
        self.stack.on_pdu(pdu)

    def set_node_address(self, *a, **k): pass
    def set_channel(self, *a, **k): pass
    def set_channel_page(self, *a, **k): pass
    def get_channel(self): return 11
    def get_channel_page(self): return 0
    def perform_ed_scan(self, *a, **k): pass


def mk_node(cfg):
    phy = FakePhy()
    st = Dot15d4Stack(phy)
    phy.stack = st
    mac = st.get_layer('mac')
    db = mac.database
    db.set("macPanId", cfg["pan"])
    db.set("macShortAddress", cfg["short"])
    db.set("macExtendedAddress", cfg["ext"])
    db.set("macPromiscuousMode", bool(cfg.get("promisc", False)))
    db.set("macImplicitBroadcast", bool(cfg.get("implicit", False)))
    return phy, st, mac


MODES = {0: MACAddressMode.NONE, 1: MACAddressMode.SHORT, 2: MACAddressMode.EXTENDED}


def do_addr(c):
    pa, sa, ma = mk_node(c["A"])
    pb, sb, mb = mk_node(c["B"])
    pa.peer, pb.peer = pb, None
    r = c["req"]
    ma.database.set("macDataSequenceNumber", r.get("seq0", 0))
    out = {}
    try:
        ret = ma.get_service("data").data(
            bytes.fromhex(r["payload"]),
            source_address_mode=MODES[r["sam"]],
            destination_pan_id=r["dpan"],
            destination_address=r["daddr"],
            destination_address_mode=MODES[r["dam"]],
            pan_id_suppressed=bool(r.get("suppressed", False)),
            wait_for_ack=False)
        out["ret"] = ret if isinstance(ret, bool) or ret is None else repr(type(ret).__name__)
    except Exception as e:  # noqa
        out["exc"] = type(e).__name__
    out["frames"] = pa.frames
    out["ind"] = mb.get_layer('nwk').ind
    out["seq_after"] = ma.database.get("macDataSequenceNumber")
    return out


def do_raw(c):
    pb, sb, mb = mk_node(c["B"])
    out = {}
    try:
        for h in c["frames"]:
            pb.receive(bytes.fromhex(h))
    except Exception as e:  # noqa
        out["exc"] = type(e).__name__
    out["ind"] = mb.get_layer('nwk').ind
    out["acks"] = [a.seqnum for a in list(mb._MACManager__ack_queue.queue)]
    out["dropped"] = pb.dropped
    return out


def ack_bytes(seq):
    return bytes([0x02, 0x00, seq & 0xFF])


def do_ack(c):
    """ops: ["O", seq] an acknowledgement overheard while idle; ["S", wait, hist, imm] a data
    request whose wait sees the history hist = [["A", seq] | ["T"]] (the first `imm`
    acknowledgements arrive while the PHY is still transmitting, the others on the clock; a
    ["T"] is a quiet period longer than macAckTimeout)."""
    pa, sa, ma = mk_node({"pan": 0x1234, "short": 0x0001, "ext": 0x1122334455667788})
    ma.database.set("macDataSequenceNumber", c["seq0"])
    timeout = ma.database.get("macAckTimeout")
    out = {"sends": []}
    try:
        for o in c["ops"]:
            if o[0] == "O":
                pa.receive(ack_bytes(o[1]))
                continue
            _tag, wait, hist, imm = o[:4]
            return_ack = len(o) > 4 and bool(o[4])
            VT.calls = 0
            VT.sched = []

            def on_tx(hist=hist, imm=imm):
                k, cur, sched = 0, VT.now, []
                for ev in hist:
                    if ev[0] == "A":
                        if k < imm and not sched and cur == VT.now:
                            pa.receive(ack_bytes(ev[1]))
                            k += 1
                            continue
                        cur += TICK
                        sched.append((cur, (lambda s=ev[1]: pa.receive(ack_bytes(s)))))
                    else:
                        cur += timeout + 4 * TICK
                VT.sched = sched
            pa.on_tx = on_tx
            n0 = len(pa.frames)
            rec = {}
            try:
                if return_ack:
                    # MACManager.send_data(..., return_ack=True) as MLME-POLL uses it: the acknowledgement
                    # itself (or None) is returned
                    ack = ma.send_data(
                        Dot15d4Data(dest_panid=0x1234, dest_addr=0x0002, src_panid=0x1234, src_addr=0x0001) / b"\x00\x01",
                        wait_for_ack=bool(wait), return_ack=True,
                        source_address_mode=MACAddressMode.SHORT, destination_address_mode=MACAddressMode.SHORT)
                    if ack is None or isinstance(ack, bool):
                        rec["ret"] = bool(ack)
                    else:
                        rec["ret"], rec["ack_seq"] = True, int(ack.seqnum)
                else:
                    ret = ma.get_service("data").data(
                        b"\x00\x01", destination_pan_id=0x1234, destination_address=0x0002,
                        wait_for_ack=bool(wait))
                    rec["ret"] = ret if isinstance(ret, bool) else type(ret).__name__
            finally:
                pa.on_tx = None
                rec["frames"] = pa.frames[n0:]
                out["sends"].append(rec)
                # acknowledgements arriving after the request has returned still reach the MAC
                late, VT.sched = VT.sched, []
                for _t, fn in late:
                    fn()
    except Exception as e:  # noqa
        out["exc"] = type(e).__name__
    return out


def pib_of(mac):
    db = mac.database
    return {"pan": db.get("macPanId"), "short": db.get("macShortAddress"), "ext": db.get("macExtendedAddress"),
            "promisc": bool(db.get("macPromiscuousMode")), "implicit": bool(db.get("macImplicitBroadcast"))}


def do_hist(c):
    pa, sa, ma = mk_node(c["A"])
    pb, sb, mb = mk_node(c["B"])
    pa.peer, pb.peer = pb, None
    ma.database.set("macDataSequenceNumber", c.get("seq0", 0))
    mgmt = mb.get_service("management")
    ind = mb.get_layer('nwk').ind
    out = {"steps": [], "upd": []}
    try:
        for o in c["ops"]:
            VT.calls = 0
            VT.sched = []
            if o[0] == "F":
                r = o[1]
                n0, i0 = len(pa.frames), len(ind)
                rec = {"pib": pib_of(mb)}
                try:
                    ret = ma.get_service("data").data(
                        bytes.fromhex(r["payload"]),
                        source_address_mode=MODES[r["sam"]],
                        destination_pan_id=r["dpan"],
                        destination_address=r["daddr"],
                        destination_address_mode=MODES[r["dam"]],
                        pan_id_suppressed=bool(r.get("suppressed", False)),
                        wait_for_ack=False)
                    rec["ret"] = ret if isinstance(ret, bool) or ret is None else type(ret).__name__
                except Exception as e:  # noqa
                    rec["exc"] = type(e).__name__
                rec["frames"] = pa.frames[n0:]
                rec["ind"] = ind[i0:]
                rec["seq_after"] = ma.database.get("macDataSequenceNumber")
                out["steps"].append(rec)
            elif o[0] == "U":
                _t, path, attr, value = o
                if attr in ("macPromiscuousMode", "macImplicitBroadcast"):
                    value = bool(value)
                if path == "mlme_set":
                    out["upd"].append(bool(mgmt.set(attr, value)))
                elif path == "db":
                    out["upd"].append(bool(mb.database.set(attr, value)))
                elif path == "helper" and attr == "macShortAddress":
                    mb.set_short_address(value)
                    out["upd"].append(None)
                elif path == "helper" and attr == "macExtendedAddress":
                    mb.set_extended_address(value)
                    out["upd"].append(None)
                else:
                    raise ValueError("no such update path")
            elif o[0] == "START":
                mgmt.start(o[1])
                out["upd"].append(None)
            elif o[0] == "RESET":
                out["upd"].append(mgmt.reset())
            elif o[0] in ("ASSOC_FAIL", "ASSOC_OK"):
                pan, coord = o[1], o[2]
                ok = o[0] == "ASSOC_OK"
                state = {"n": 0}

                def on_tx(ok=ok, pan=pan, coord=coord, short=(o[3] if ok else None), state=state):
                    # the coordinator: acknowledges what the device sends and answers the data
                    # request that follows the association request with an association response
                    if not ok:
                        return
                    fr = bytes.fromhex(pb.frames[-1])
                    state["n"] += 1
                    if fr[0] & 0x20:
                        pb.receive(ack_bytes(fr[2]))
                    if state["n"] == 2:
                        resp = Dot15d4(fcf_frametype=3, fcf_srcaddrmode=2, fcf_destaddrmode=3) / Dot15d4Cmd(
                            cmd_id=2, dest_panid=pan, dest_addr=mb.database.get("macExtendedAddress"),
                            src_panid=pan, src_addr=coord) / Dot15d4CmdAssocResp(short_address=short, association_status=0)
                        pb.receive(bytes(resp))
                pb.on_tx = on_tx
                try:
                    out["upd"].append(bool(mgmt.associate(coordinator_pan_id=pan, coordinator_address=coord)))
                finally:
                    pb.on_tx = None
            else:
                raise ValueError("unknown op")
    except Exception as e:  # noqa
        out["exc"] = type(e).__name__
    out["pib"] = pib_of(mb)
    return out


def do_choose(c, mac):
    framever, dam, sam, dpan, span, has_layer = c
    try:
        if has_layer:
            d = Dot15d4Data()
            if dpan is not None:
                d.dest_panid = dpan
            if span is not None:
                d.src_panid = span
            pkt = Dot15d4(fcf_framever=framever, fcf_srcaddrmode={0: 0, 1: 2, 2: 3}[sam],
                          fcf_destaddrmode={0: 0, 1: 2, 2: 3}[dam]) / d
        else:
            pkt = Dot15d4(fcf_framever=framever) / Raw(b"\x00")
        view = [hasattr(pkt, "dest_panid"), hasattr(pkt, "src_panid"),
                getattr(pkt, "dest_panid", None), getattr(pkt, "src_panid", None)]
    except Exception as e:  # noqa
        return {"setup_exc": type(e).__name__}
    try:
        res = mac._choose_pan_id_compression(pkt, MODES[dam], MODES[sam])
        return {"bit": int(res.fcf_panidcompress), "view": view}
    except Exception as e:  # noqa
        return {"exc": type(e).__name__, "view": view}


def main():
    req = json.load(sys.stdin)
    res = {"addr": [guarded(do_addr, c, {"frames": [], "ind": [], "seq_after": -1}) for c in req.get("addr", [])],
           "raw": [guarded(do_raw, c, {"ind": [], "acks": [], "dropped": 0}) for c in req.get("raw", [])],
           "ack": [guarded(do_ack, c, {"sends": []}) for c in req.get("ack", [])],
           "hist": [guarded(do_hist, c, {"steps": [], "upd": [], "pib": {}}) for c in req.get("hist", [])]}
    if req.get("choose"):
        _p, _s, mac = mk_node({"pan": 1, "short": 2, "ext": 3})
        res["choose"] = [do_choose(c, mac) for c in req["choose"]]
    if req.get("table"):
        res["table"] = sorted([[int(k[0]), int(k[1]), bool(k[2]), bool(k[3]), int(v)]
                               for k, v in macconst.PANID_COMPRESSION_TABLE.items()])
        res["table_name_in_mac_module"] = hasattr(macmod, "PANID_COMPRESSION_TABLE")
    print("RESULT " + json.dumps(res))


main()
