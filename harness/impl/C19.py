"""C19 implementation driver: real capture write/read round trip.

Every case is one PCAP file: the packets (frame bytes + metadata items) are handed to the
real PcapWriterMonitor (attached to a Connector whose `format` is the real
ProtocolHub(2).<domain>.format -- exactly what whad/tools/wdump.py does), the file is
then replayed by the real Pcap device ("flush:" = no inter-frame sleep) with the
domain's real Sniffer connector attached.

stdin : {"tmp": dir,
         "cases": [{"domain": d, "clock": [us,...], "pkts": [{"frame": hex, "meta": {...}}, ...]}],
         "maps": {name: [ints]},            # differential evaluation of the channel maps
         "hub_probe": true}
stdout: RESULT {"cases": [{"written": [[T_us, rechex], ...],      # records in the file
                           "A": [{field: value|None}, ...],          # messages emitted by Pcap.read()
                           "B": [{"bytes": hex, item: value|None}, ...]} | {"exc": cls, "where": str}],
                "maps": {name: [value|None|"!Exc"]},
                "hub": {"ble_rssi_optional": bool, "ble_crc_optional": bool}}
Only canonical observables are returned (ints, bools, hex strings, None).
The local clock seen by PcapWriterMonitor is the list `clock` (microseconds), one reading
per packet, installed by replacing the name `time` in whad.common.monitors.pcap.
"""
import sys, os, json, time as _time, logging, struct
logging.disable(logging.CRITICAL)

from scapy.utils import RawPcapReader, rdpcap
from scapy.layers.bluetooth4LE import BTLE, BTLE_RF, BTLE_ADV, BTLE_DATA
from scapy.layers.dot15d4 import Dot15d4, Dot15d4FCS
from whad.hub import ProtocolHub
from whad.hub.ble import BLEMetadata
from whad.hub.dot15d4 import Dot15d4Metadata
from whad.hub.esb import ESBMetadata
from whad.hub.unifying import UnifyingMetadata
from whad.hub.phy import PhyMetadata, Modulation, Endianness
from whad.scapy.layers.esb import ESB_Hdr
from whad.scapy.layers.phy import Phy_Packet
from whad.scapy.layers.dot15d4tap import Dot15d4TAP_Hdr, Dot15d4TAP_Channel_Center_Frequency
import whad.common.monitors.pcap as wpcap
from whad.common.monitors import PcapWriterMonitor
from whad.device.connector import Connector
from whad.device.pcap import Pcap
from whad.protocol.whad_pb2 import Message
import whad.ble, whad.dot15d4, whad.esb, whad.unifying
from whad.phy.connector.sniffer import Sniffer as PhySniffer

HUB = ProtocolHub(2)
SNIFFERS = {"ble": whad.ble.Sniffer, "dot15d4": whad.dot15d4.Sniffer, "esb": whad.esb.Sniffer,
            "unifying": whad.unifying.Sniffer, "phy": PhySniffer}


def mk_packet(domain, frame, meta):
    g = meta.get
    if domain == "ble":
        shape = g("shape")
        if shape == "adv":                  # what BleAdvPduReceived.to_packet hands over: no BTLE layer
            p = BTLE_ADV(frame[4:-3])
        elif shape == "data":               # what BlePduReceived.to_packet hands over
            p = BTLE_DATA(frame[4:-3])
        else:
            p = BTLE(frame)
        p.metadata = BLEMetadata(channel=g("channel"), rssi=g("rssi"), direction=g("direction"),
                                 is_crc_valid=g("valid"), timestamp=g("ts"))
    elif domain == "dot15d4":
        p = Dot15d4(frame) if g("shape") == "nofcs" else Dot15d4FCS(frame)
        p.metadata = Dot15d4Metadata(channel=g("channel"), rssi=g("rssi"), is_fcs_valid=g("valid"),
                                     lqi=g("lqi"), timestamp=g("ts"))
    elif domain in ("esb", "unifying"):
        p = ESB_Hdr(frame)
        cls = ESBMetadata if domain == "esb" else UnifyingMetadata
        p.metadata = cls(channel=g("channel"), rssi=g("rssi"), is_crc_valid=g("valid"),
                         timestamp=g("ts"), address=g("address"))
    elif domain == "phy":
        p = Phy_Packet(frame)
        sw = g("syncword")
        p.metadata = PhyMetadata(frequency=g("channel"), rssi=g("rssi"), timestamp=g("ts"),
                                 endianness=None if g("endianness") is None else Endianness(g("endianness")),
                                 deviation=g("deviation"), datarate=g("datarate"),
                                 modulation=None if g("modulation") is None else Modulation(g("modulation")),
                                 syncword=None if sw is None else bytes.fromhex(sw))
    else:
        raise ValueError(domain)
    return p


def pb_fields(raw):
    """Decode one framed WHAD message emitted by the Pcap device; optional items that are
    not set come back as None (protobuf presence)."""
    m = Message()
    m.ParseFromString(raw[4:])
    dom = m.WhichOneof("msg")
    sub = getattr(m, dom)
    kind = sub.WhichOneof("msg")
    body = getattr(sub, kind)
    out = {"_domain": dom, "_kind": kind}
    for f in body.DESCRIPTOR.fields:
        if getattr(f, "is_repeated", False) is True or f.type == f.TYPE_MESSAGE:
            continue
        if not isinstance(getattr(f, "is_repeated", None), bool) and f.label == f.LABEL_REPEATED:
            continue
        if f.has_presence and not body.HasField(f.name):
            out[f.name] = None
            continue
        v = getattr(body, f.name)
        out[f.name] = v.hex() if isinstance(v, bytes) else (bool(v) if f.type == f.TYPE_BOOL else int(v))
    return out


def b_items(domain, p):
    md = p.metadata
    g = lambda n: getattr(md, n, None)
    def num(v):
        if v is None:
            return None
        if isinstance(v, bool):
            return bool(v)
        return int(v)
    out = {"bytes": bytes(p).hex(), "rssi": num(g("rssi")), "ts": num(g("timestamp"))}
    if domain == "ble":
        out.update(channel=num(g("channel")), direction=num(g("direction")), valid=num(g("is_crc_valid")))
    elif domain == "dot15d4":
        out.update(channel=num(g("channel")), valid=num(g("is_fcs_valid")), lqi=num(g("lqi")))
    elif domain in ("esb", "unifying"):
        out.update(channel=num(g("channel")), valid=num(g("is_crc_valid")))
    elif domain == "phy":
        out.update(channel=num(g("frequency")))
    return out


LEAKED = []          # monitors whose writer lock was left held (their __del__ would block forever)


class CannotInterleave(Exception):
    """raised instead of blocking when a simulated second thread asks for a lock that the
    first thread holds: the interleaving that was being tried does not exist"""


class GateLock:
    """Stands in for PcapWriterMonitor._writer_lock in the `concurrent` cases (everything runs
    on one thread; a second writer thread is simulated by a re-entrant call)."""
    def __init__(self, state):
        self.state, self.held, self.order = state, False, []
    def acquire(self, blocking=True, timeout=-1):
        if self.held:
            if self.state["injecting"]:
                raise CannotInterleave()
            return False
        self.held = True
        if self.state["current"] is not None:
            self.order.append(self.state["current"])
        return True
    def release(self):
        self.held = False


def write_concurrent(case, fn):
    """Two writer threads on one monitor, at lock granularity, without a scheduler.
    `concurrent` = [[i, j], ...]: at the moment thread A, processing packet i, reads the local
    clock, thread B runs its WHOLE process_packet(packet j) before A goes on.  If A holds the
    writer lock at that moment, B cannot run there (it would block): recorded as "blocked" and
    packet j is handed over after packet i like any other.  Returns what happened: the order
    in which the lock was taken, the clock readings in the order they were made."""
    domain = case["domain"]
    state = {"current": None, "injecting": False}
    inject = {int(i): int(j) for i, j in case["concurrent"]}
    values = [c / 1000000 for c in case["clock"]]
    micros = list(case["clock"])
    reads, done, log = [], set(), []
    w = Connector(None)
    w.domain = domain
    w.format = getattr(HUB, domain).format
    mon = PcapWriterMonitor(fn)
    if not mon.attach(w):
        raise RuntimeError("attach failed")
    lock = GateLock(state)
    mon._writer_lock = lock
    objs = [mk_packet(domain, bytes.fromhex(pk["frame"]), pk["meta"]) for pk in case["pkts"]]
    def clock():
        v = values.pop(0)
        reads.append([state["current"], micros.pop(0)])
        i = state["current"]
        if i in inject and not state["injecting"]:
            j = inject.pop(i)
            state["injecting"], state["current"] = True, j
            try:
                mon.process_packet(objs[j])       # the second thread (e.g. another connector the monitor is attached to)
                done.add(j)
                log.append([i, j, "ran"])
            except CannotInterleave:
                log.append([i, j, "blocked"])
            finally:
                state["injecting"], state["current"] = False, i
        return v
    real_time = wpcap.time
    wpcap.time = clock
    try:
        mon.start()
        for i, p in enumerate(objs):
            if i in done:
                continue
            state["current"] = i
            w.monitor_packet_rx(p)
        state["current"] = None
    finally:
        wpcap.time = real_time
        if not lock.held:
            mon.stop()
            mon.close()
        else:
            LEAKED.append((mon, w))
    case["_concurrent"] = {"lock_order": lock.order, "clock_reads": reads, "interleaved": log}
    return mon.packets_written


def write_case(case, fn):
    """`split` = k: the first k packets are written by one monitor, which is closed; a second
    monitor then appends the rest to the same file (PcapWriterMonitor append mode)."""
    if case.get("concurrent"):
        return write_concurrent(case, fn)
    domain = case["domain"]
    clock = [c / 1000000 for c in case["clock"]]
    real_time = wpcap.time
    wpcap.time = lambda: clock.pop(0)
    k = case.get("split")
    parts = [case["pkts"]] if not k else [case["pkts"][:k], case["pkts"][k:]]
    n = 0
    try:
        for part in parts:
            w = Connector(None)
            w.domain = domain
            w.format = getattr(HUB, domain).format
            mon = PcapWriterMonitor(fn)
            if not mon.attach(w):
                raise RuntimeError("attach failed")
            try:
                mon.start()
                for pk in part:
                    w.monitor_packet_rx(mk_packet(domain, bytes.fromhex(pk["frame"]), pk["meta"]))
            finally:
                if mon._writer_lock.acquire(timeout=0.2):
                    mon._writer_lock.release()
                    mon.stop()
                    mon.close()
                else:
                    LEAKED.append((mon, w))
            n += mon.packets_written
    finally:
        wpcap.time = real_time
    return n


def file_records(fn, domain):
    recs = []
    r = RawPcapReader(fn)
    try:
        for data, info in r:
            recs.append([int(info.sec) * 1000000 + int(info.usec), bytes(data).hex()])
    finally:
        r.close()
    khz = None
    if domain == "dot15d4":
        # the centre frequency stored in the TAP header (kHz according to the TAP specification)
        khz = []
        for p in rdpcap(fn):
            v = None
            if Dot15d4TAP_Hdr in p:
                for tlv in p[Dot15d4TAP_Hdr].data:
                    if Dot15d4TAP_Channel_Center_Frequency in tlv:
                        v = float(tlv.channel_frequency)
            khz.append(None if v is None else (int(v) if v == int(v) and abs(v) < 2 ** 62 else "nonint"))
    return recs, khz


THREAD_EXC = []
def _hook(args):
    THREAD_EXC.append(args.exc_type.__name__)
import threading
threading.excepthook = _hook


class _BackwardsClock:
    """stands in for the `time` module inside scapy.packet: a wall clock that steps backwards
    (what an NTP correction does) while the capture is replayed"""
    def __init__(self):
        self.t = 2000000000.0
    def time(self):
        self.t -= 1.25
        return self.t
    def __getattr__(self, name):
        return getattr(_time, name)


def read_case(case, fn, n_expected):
    import scapy.packet as sp
    if case.get("replay_clock") == "backwards":
        sp.time = _BackwardsClock()
    try:
        return _read_case(case, fn, n_expected)
    finally:
        sp.time = _time


def _read_case(case, fn, n_expected):
    """Replay the capture.  `restarts` = [[k, op], ...]: when k packets have been read from
    the file the reading thread is held, the connector is stopped and started again
    (op "stop_start": connector.stop(); connector.start(); op "reconfigure": the Sniffer's
    configuration setter, i.e. stop + re-enable the sniffing mode, then start()), then the replay goes on."""
    domain = case["domain"]
    del THREAD_EXC[:]
    dev = Pcap("flush:" + fn)
    raws = []
    orig_read = dev.read
    gates = {int(k): op for k, op in (case.get("restarts") or [])}
    ready, resume = threading.Event(), threading.Event()
    def tap():
        k = len(raws)
        if k in gates and gates[k] is not None:
            ready.set()
            resume.wait(timeout=15)
            resume.clear()
        r = orig_read()
        if r:
            raws.append(bytes(r))
        return r
    dev.read = tap
    s = SNIFFERS[domain](dev)
    got = []
    s.attach_callback(lambda p: got.append(b_items(domain, p)), on_reception=True, on_transmission=False)
    s.start()
    ops_done = []
    for k in sorted(gates):
        if k <= 0 or k >= n_expected:
            gates[k] = None
            continue
        if not ready.wait(timeout=15):
            ops_done.append([k, "gate-not-reached"])
            gates[k] = None
            continue
        ready.clear()
        t1 = _time.time()
        while len(got) < k and not THREAD_EXC and _time.time() - t1 < 15.0:
            _time.sleep(0.001)
        op = gates[k]
        try:
            if op == "reconfigure":
                s.configuration = s.configuration     # stop + re-enable the sniffing mode
                s.start()
            else:
                s.stop()
                s.start()
            ops_done.append([k, op])
        except Exception as e:  # noqa
            ops_done.append([k, "!" + type(e).__name__])
        gates[k] = None
        resume.set()
    t0 = _time.time()
    while dev.opened and not THREAD_EXC and _time.time() - t0 < 20:
        _time.sleep(0.002)
    t1 = _time.time()
    # the file has been read to its end: wait for the messages the device DID emit to reach the
    # connector's callback (a record the device swallowed will never arrive)
    while len(got) < (len(raws) if not dev.opened else n_expected) and not THREAD_EXC and _time.time() - t1 < 20.0:
        _time.sleep(0.002)
    for fn_ in (s.stop, s.close, dev.close):
        try:
            fn_()
        except Exception:  # noqa
            pass
    if ops_done:
        case["_ops_done"] = ops_done
    return [pb_fields(r) for r in raws], got, list(THREAD_EXC)


def frame_attrs(domain, fr, meta):
    try:
        p = mk_packet(domain, fr, meta)
        if domain == "ble" and meta.get("shape") in ("adv", "data"):
            # the frame the capture must hold: default access address + PDU + the CRC scapy computes
            aa = struct.unpack("<I", fr[:4])[0]
            stable = aa == (0x8e89bed6 if meta["shape"] == "adv" else 0x11223344) and bytes(BTLE(access_addr=aa) / p) == fr
        else:
            stable = bytes(p) == fr
        if stable and domain in ("esb", "unifying"):
            # Domain.format() sets preamble=0xAA, which makes scapy rebuild the frame from its fields
            q = mk_packet(domain, fr, meta)
            q.preamble = 0xAA
            stable = bytes(q) == fr
        a = {"stable": stable}
        if domain in ("esb", "unifying"):
            a["crc_ok"] = bool(ESB_Hdr(fr).valid_crc)
    except Exception as e:  # noqa
        a = {"stable": False, "exc": type(e).__name__}
    return a


def input_attrs(case):
    """Attributes of the INPUT frames: does the scapy packet object rebuild to the same bytes
    (otherwise the frame is not a usable test input) and what the ESB dissector says about
    its CRC.  A packet may come with alternative frames ("frames"): the first usable one is
    chosen and written back to pk["frame"]."""
    out = []
    for pk in case["pkts"]:
        alts = pk.get("frames") or [pk["frame"]]
        chosen = None
        for k, hx in enumerate(alts):
            a = frame_attrs(case["domain"], bytes.fromhex(hx), pk["meta"])
            if a.get("stable"):
                chosen = (k, hx, a)
                break
        if chosen is None:
            chosen = (len(alts) - 1, alts[-1], a)
        pk["frame"] = chosen[1]
        out.append(dict(chosen[2], alt=chosen[0]))
    return out


def run_case(case, tmp, k):
    fn = os.path.join(tmp, "c%d.pcap" % k)
    if os.path.exists(fn):
        os.remove(fn)
    getattr(HUB, case["domain"])      # instantiating the domain (un)binds the Unifying scapy layers, as in a real session
    attrs = input_attrs(case)
    try:
        n = write_case(case, fn)
    except Exception as e:  # noqa
        return {"exc": type(e).__name__, "where": "write", "msg": str(e)[:200], "in": attrs}
    try:
        recs, khz = file_records(fn, case["domain"])
        A, B, texc = read_case(case, fn, len(recs))
    except Exception as e:  # noqa
        return {"exc": type(e).__name__, "where": "read", "msg": str(e)[:200], "in": attrs}
    finally:
        if os.path.exists(fn):
            os.remove(fn)
    res = {"written": recs, "A": A, "B": B, "n_written": n, "in": attrs}
    if case.get("_ops_done"):
        res["ops_done"] = case["_ops_done"]
    if case.get("_concurrent"):
        res["concurrent"] = case["_concurrent"]
    if texc:
        res["replay_thread_exc"] = texc
    if khz is not None:
        import whad.dot15d4.utils.phy as dp
        res["tap_khz"] = khz
        res["tap_back"] = [None if not isinstance(v, int) else int(dp.frequency_to_channel(v * 1000)) for v in khz]
    return res


def run_maps(req):
    import whad.hub.ble as hb, whad.ble.utils.phy as bp, whad.hub.metadata as hm, whad.dot15d4.utils.phy as dp, whad.esb.utils.phy as ep
    fns = {"ble_channel_to_rf_channel": hb.ble_channel_to_rf_channel,
           "rf_channel_to_ble_channel": hb.rf_channel_to_ble_channel,
           "ble_channel_to_frequency": bp.channel_to_frequency,
           "ble_frequency_to_channel": bp.frequency_to_channel,
           "hub_channel_to_frequency": hm.channel_to_frequency,
           "dot15d4_channel_to_frequency": dp.channel_to_frequency,
           "dot15d4_frequency_to_channel": dp.frequency_to_channel,
           "esb_channel_to_frequency": ep.channel_to_frequency,
           "esb_frequency_to_channel": ep.frequency_to_channel}
    out = {}
    def val(y):
        return None if y is None else (int(y) if isinstance(y, int) and not isinstance(y, bool) else "!" + type(y).__name__)
    for key, spec in list(req.items()):
        if not key.startswith("compose:"):
            continue
        f, g, ys = fns[spec["f"]], fns[spec["g"]], []
        for x in spec["xs"]:
            try:
                ys.append([val(f(x)), val(g(f(x)))])
            except Exception as e:  # noqa
                ys.append("!" + type(e).__name__)
        out[key] = ys
        del req[key]
    for name, xs in req.items():
        f, ys = fns[name], []
        for x in xs:
            try:
                y = f(x)
                ys.append(None if y is None else (int(y) if isinstance(y, int) and not isinstance(y, bool) else "!" + type(y).__name__))
            except Exception as e:  # noqa
                ys.append("!" + type(e).__name__)
        out[name] = ys
    return out


def hub_probe():
    """Does the BLE raw PDU message report an unset rssi / crc_validity as None?"""
    m = HUB.ble.create_raw_pdu_received(0, bytes.fromhex("4006665544332211"), 0x8e89bed6, 0, crc=0x112233, channel=5, timestamp=7)
    m2 = HUB.parse(m.serialize())
    md = m2.to_packet().metadata
    return {"ble_rssi_optional": md.rssi is None, "ble_crc_optional": md.is_crc_valid is None}


def main():
    req = json.load(sys.stdin)
    tmp = req.get("tmp") or "/var/tmp/C19-run"
    os.makedirs(tmp, exist_ok=True)
    res = {"cases": [run_case(c, tmp, k) for k, c in enumerate(req.get("cases", []))],
           "maps": run_maps(req.get("maps", {})),
           "hub": hub_probe() if req.get("hub_probe") else None}
    sys.stdout.flush()
    print("RESULT " + json.dumps(res))
    sys.stdout.flush()
    os._exit(0)   # connector/device I/O threads are daemons of the real code; do not wait for them

main()
