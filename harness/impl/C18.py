"""C18 implementation driver: runs the real LoRaWAN functions, RF4CECryptoManager and
LogitechUnifyingCryptoManager on scapy-built frames.

stdin : {"lw": [case...], "rf": [case...], "un": [case...], "misc": bool}
stdout: RESULT {"lw": [...], "rf": [...], "un": [...], "misc": {...}}

Only canonical observables are returned: bytes as hex, exception class names, booleans.

LoRaWAN case
  {"kind":"data","mtype":2..5,"lo":0..31,"addr":int,"fhi":0..15,"fcnt":int,"fopts":hex,"fport":int,
   "payload":hex,"mic":hex4,"keys":[appkey|null,appskey|null,nwkskey|null],"sweep":bool,"deckeys":[...]|absent}
  {"kind":"join","lo":..,"body":hex,"mic":hex4,"keys":...}
  {"kind":"other","mtype":0|6|7,"lo":..,"body":hex,"mic":hex4,"keys":...}
  {"kind":"wire","wire":hex,"keys":...}                  decrypt_packet(PHYPayload(wire)) only
 result {"orig":hex,"enc":R,"dec":R,"dec_mem":R,"sweep":[code per bit]}  R = {"ok":hex} | {"exc":cls}
"""
import sys, json, logging
logging.disable(logging.CRITICAL)
from struct import pack
from copy import copy  # noqa
from scapy.packet import Raw
from scapy.layers.dot15d4 import Dot15d4, Dot15d4FCS, Dot15d4Data

from whad.lorawan.crypto import encrypt_packet, decrypt_packet
from whad.scapy.layers.lorawan import PHYPayload, MACPayloadUplink, MACPayloadDownlink, JoinAccept  # noqa
from whad.rf4ce.crypto import RF4CECryptoManager, RF4CEDecryptor
from whad.scapy.layers.rf4ce import RF4CE_Hdr, RF4CE_Data_Hdr, RF4CE_Vendor_Hdr, RF4CE_Command_Hdr
from whad.unifying.crypto import LogitechUnifyingCryptoManager, LogitechUnifyingDecryptor
from whad.scapy.layers.unifying import Logitech_Unifying_Hdr, Logitech_Encrypted_Keystroke_Payload, \
    Logitech_Unencrypted_Keystroke_Payload


def H(x):
    return None if x is None else bytes.fromhex(x)


def R(f):
    """Run f() -> bytes; canonical result."""
    try:
        return {"ok": bytes(f()).hex()}
    except Exception as e:  # noqa
        return {"exc": type(e).__name__}


# ----------------------------------------------------------------------------- LoRaWAN

def lw_build(c):
    k = c["kind"]
    mic = int.from_bytes(H(c.get("mic", "00000000")), "little")
    lo = c.get("lo", 0)
    if k == "data":
        L = MACPayloadUplink if c["mtype"] in (2, 4) else MACPayloadDownlink
        fo = H(c["fopts"])
        fhi = c.get("fhi", 0)
        p = PHYPayload(mtype=c["mtype"], rfu=lo >> 2, major=lo & 3, mic=mic) / L(
            dev_addr=c["addr"], adr=(fhi >> 3) & 1, adrackreq=(fhi >> 2) & 1, ack=(fhi >> 1) & 1, classB=fhi & 1,
            fopts_len=len(fo), fcnt=c["fcnt"], fopts=fo, fport=c["fport"])
        pl = H(c["payload"])
        if pl:
            p = p / Raw(pl)
        return p
    if k == "join":
        # the JoinAccept body (12 bytes of fields, optional CFList) is given as raw bytes
        return PHYPayload(bytes([0x20 | lo]) + H(c["body"]) + H(c.get("mic", "00000000")))
    if k == "other":
        return PHYPayload(bytes([(c["mtype"] << 5) | lo]) + H(c["body"]) + H(c.get("mic", "00000000")))
    raise ValueError(k)


def lw_keys(ks):
    return dict(appkey=H(ks[0]), appskey=H(ks[1]), nwkskey=H(ks[2]))


SW = {"BadMICError": 0, "MissingKeyError": 3, "AttributeError": 4, "ValueError": 5, "IndexError": 6, "error": 7,
      "MissingRF4CESecurityFlag": 10, "MissingRF4CEHeader": 11}


def lw_sweep(wire, keys):
    """Every single-bit corruption of the wire bytes -> class code:
    0 BadMICError, 1 returned with identical bytes, 2 returned with other bytes, 3.. exception, 8 other exception."""
    out = []
    for i in range(len(wire) * 8):
        b = bytearray(wire)
        b[i // 8] ^= 1 << (i % 8)
        b = bytes(b)
        try:
            d = bytes(decrypt_packet(PHYPayload(b), **keys))
            out.append(1 if d == b else 2)
        except Exception as e:  # noqa
            out.append(SW.get(type(e).__name__, 8))
    return out


def do_lw(c):
    keys = lw_keys(c["keys"])
    if c["kind"] == "wire":
        w = H(c["wire"])
        return {"dec": R(lambda: decrypt_packet(PHYPayload(w), **keys))}
    res = {}
    try:
        res["orig"] = bytes(lw_build(c)).hex()
    except Exception as e:  # noqa
        return {"build_exc": type(e).__name__}
    # wire path: encrypt, serialise, re-dissect, decrypt
    res["enc"] = R(lambda: encrypt_packet(lw_build(c), **keys))
    dkeys = lw_keys(c["deckeys"]) if "deckeys" in c else keys
    if "ok" in res["enc"]:
        w = H(res["enc"]["ok"])
        res["dec"] = R(lambda: decrypt_packet(PHYPayload(w), **dkeys))
        # in-memory path: decrypt the very object encrypt_packet returned
        res["dec_mem"] = R(lambda: decrypt_packet(encrypt_packet(lw_build(c), **keys), **dkeys))
        if c.get("sweep"):
            res["sweep"] = lw_sweep(w, dkeys)
    else:
        # decrypting the unencrypted frame (exercise the missing-key path of decrypt_packet as well)
        res["dec"] = R(lambda: decrypt_packet(lw_build(c), **dkeys))
    return res


# ----------------------------------------------------------------------------- RF4CE
# case {"mode":"nwk"|"mac"|"fcs","fctl":int,"fc":int,"hdr":hex,"payload":hex,"mic":hex4|null,
#       "raw_empty":bool,"key":hex,"src":hex8,"dst":hex8,"explicit":bool,"long":bool,"sweep":bool,
#       "deckey":hex?, "decsrc":hex?, "decdst":hex?}
#  the input packet is BUILT from scapy layers (not dissected):
#    RF4CE_Hdr(fields from fctl, frame_counter, mic) / <Data|Vendor|Command header from hdr> / Raw(payload)
#  mode nwk : manager.encrypt(pkt, source, destination, rf4ce_only=True)
#  mode mac : Dot15d4/Dot15d4Data(long addresses)/pkt, no FCS ; mode fcs: Dot15d4FCS/...

def rf_nwk(c):
    f = c["fctl"]
    h = RF4CE_Hdr(channel_identifier=(f >> 6) & 3, reserved=(f >> 5) & 1, protocol_version=(f >> 3) & 3,
                  security_enabled=(f >> 2) & 1, frame_type=f & 3, frame_counter=c["fc"])
    if c.get("mic") is not None:
        h.mic = int.from_bytes(H(c["mic"]), "little")
    hdr = H(c["hdr"])
    ft = f & 3
    p = h
    if ft == 1:
        p = p / RF4CE_Data_Hdr(profile_id=hdr[0], vendor_id=hdr[1] | (hdr[2] << 8))
    elif ft == 3:
        p = p / RF4CE_Vendor_Hdr(profile_id=hdr[0], vendor_id=hdr[1] | (hdr[2] << 8))
    pl = H(c["payload"])
    if pl or c.get("raw_empty"):
        p = p / Raw(pl)
    return p


def rf_modes(c):
    """802.15.4 addressing modes of the MAC header (0 none, 2 short, 3 long) for source, destination"""
    d = 3 if c.get("long", True) else 2
    return c.get("smode", d), c.get("dmode", d)


def rf_wrap(c, p):
    if c["mode"] == "nwk":
        return p
    M = Dot15d4FCS if c["mode"] == "fcs" else Dot15d4
    sm, dm = rf_modes(c)
    kw = {}
    if dm:
        kw.update(dest_panid=0x1234, dest_addr=int.from_bytes(H(c["dst"]), "little") if dm == 3 else 0x5678)
    if sm:
        kw.update(src_panid=0x5678, src_addr=int.from_bytes(H(c["src"]), "little") if sm == 3 else 0x1234)
    return M(fcf_frametype=1, fcf_srcaddrmode=sm, fcf_destaddrmode=dm, seqnum=c.get("seq", 9)) / \
        Dot15d4Data(**kw) / p


def rf_args(c, which=""):
    """source / destination arguments: each one given or not (gsrc / gdst; default: both iff explicit)"""
    kw = {"rf4ce_only": c["mode"] == "nwk"}
    explicit = c.get("explicit", c["mode"] == "nwk")
    if c.get("gsrc", explicit):
        kw["source"] = H(c.get(which + "src", c["src"]))
    if c.get("gdst", explicit):
        kw["destination"] = H(c.get(which + "dst", c["dst"]))
    return kw


def rf_ret(r):
    """canonical form of what encrypt()/decrypt() returned"""
    if isinstance(r, tuple):
        return {"tuple": [bytes(r[0]).hex(), bool(r[1])]}
    return {"pkt": bytes(r).hex()}


def rf_redissect(c, b):
    if c["mode"] == "nwk":
        return RF4CE_Hdr(b)
    return (Dot15d4FCS if c["mode"] == "fcs" else Dot15d4)(b)


def rf_try(f):
    try:
        return rf_ret(f())
    except Exception as e:  # noqa
        return {"exc": type(e).__name__}


def rf_sweep(c, wire, key):
    """single-bit corruption of every bit of the NWK part of the wire frame -> code:
    0 rejected (pkt, False), 1 accepted (pkt, True), 3.. exception"""
    out = []
    off = len(wire) - c["nwk_len"] - (2 if c["mode"] == "fcs" else 0)
    for i in range(c["nwk_len"] * 8):
        b = bytearray(wire)
        b[off + i // 8] ^= 1 << (i % 8)
        b = bytes(b)
        if c["mode"] == "fcs":
            b = b[:-2] + Dot15d4FCS.compute_fcs(None, b[:-2])
        try:
            d, ok = RF4CECryptoManager(key).decrypt(rf_redissect(c, b), **rf_args(c, "dec"))
            out.append(1 if ok else 0)
        except Exception as e:  # noqa
            out.append(SW.get(type(e).__name__, 8))
    return out


def do_rf(c):
    key = H(c["key"])
    res = {}
    if c["mode"] == "nohdr":      # an 802.15.4 frame that carries no RF4CE layer (acknowledgement)
        mk = lambda: Dot15d4(fcf_frametype=2, seqnum=c.get("seq", 5))
        res["enc"] = rf_try(lambda: RF4CECryptoManager(key).encrypt(mk()))
        res["dec"] = rf_try(lambda: RF4CECryptoManager(key).decrypt(mk()))
        return res
    try:
        p = rf_wrap(c, rf_nwk(c))
        res["orig"] = bytes(p).hex()
        res["nwk_orig"] = bytes(rf_nwk(c)).hex()
    except Exception as e:  # noqa
        return {"build_exc": type(e).__name__}
    if c.get("op") == "dec":      # decrypt the built frame directly (no encryption first)
        res["dec"] = rf_try(lambda: RF4CECryptoManager(H(c.get("deckey", c["key"]))).decrypt(rf_wrap(c, rf_nwk(c)), **rf_args(c, "dec")))
        return res
    res["enc"] = rf_try(lambda: RF4CECryptoManager(key).encrypt(rf_wrap(c, rf_nwk(c)), **rf_args(c)))
    if "pkt" in res["enc"]:
        w = H(res["enc"]["pkt"])
        dkey = H(c.get("deckey", c["key"]))
        res["dec"] = rf_try(lambda: RF4CECryptoManager(dkey).decrypt(rf_redissect(c, w), **rf_args(c, "dec")))
        if c["mode"] == "fcs":
            res["fcs_ok"] = (Dot15d4FCS.compute_fcs(None, w[:-2]) == w[-2:])
        if c.get("sweep"):
            c2 = dict(c)
            # length of the NWK part of the encrypted frame
            c2["nwk_len"] = len(w) - (len(H(res["orig"])) - len(H(res["nwk_orig"])))
            res["sweep"] = rf_sweep(c2, w, dkey)
            res["nwk_len"] = c2["nwk_len"]
    return res


def do_rfctr(c):
    """Frame-counter sweep through the parsed-packet paths: for fc in range(c["n"]) build the frame of case c with
    that counter, encrypt, re-dissect the emitted bytes, decrypt. Returns the counters whose round trip is not
    (frame, True) with the original bytes (first failures with detail)."""
    key = H(c["key"])
    bad, detail = [], []
    for fc in range(c.get("start", 0), c.get("start", 0) + c["n"]):
        cc = dict(c, fc=fc)
        try:
            p = rf_wrap(cc, rf_nwk(cc))
            orig = bytes(p)
            e = RF4CECryptoManager(key).encrypt(rf_wrap(cc, rf_nwk(cc)), **rf_args(cc))
            if isinstance(e, tuple):
                raise ValueError("encrypt returned a tuple")
            w = bytes(e)
            d, ok = RF4CECryptoManager(key).decrypt(rf_redissect(cc, w), **rf_args(cc, "dec"))
            db = bytes(d)
            cut = 4 + (2 if c["mode"] == "fcs" else 0)
            good = ok and db[:len(db) - cut] == orig[:len(orig) - cut] and len(db) == len(orig)
            obs = {"enc": w.hex(), "dec": [db.hex(), bool(ok)]}
        except Exception as ex:  # noqa
            good, obs = False, {"exc": type(ex).__name__}
        if not good:
            bad.append(fc)
            if len(detail) < 3:
                detail.append({"fc": fc, "observed": obs})
    return {"bad": bad, "detail": detail, "n": c["n"]}


# ----------------------------------------------------------------------------- Unifying
# case {"dev":int,"ft":int,"hid":hex7,"unk":int,"ctr":int,"unused":hex7,"key":hex,"cks":int|null}

def un_build(c):
    h = Logitech_Unifying_Hdr(dev_index=c["dev"], frame_type=c["ft"])
    if c.get("cks") is not None:
        h.checksum = c["cks"]
    if c["ft"] == 0xD3:
        return h / Logitech_Encrypted_Keystroke_Payload(hid_data=H(c["hid"]), unknown=c["unk"],
                                                        aes_counter=c["ctr"], unused=H(c["unused"]))
    return h / Logitech_Unencrypted_Keystroke_Payload(hid_data=H(c["hid"]))


def un_fields(p):
    try:
        return [p.dev_index, p.frame_type, bytes(p.hid_data).hex(), p.unknown, p.aes_counter, bytes(p.unused).hex()]
    except Exception as e:  # noqa
        return {"exc": type(e).__name__}


def do_un(c):
    key = H(c["key"])
    m = LogitechUnifyingCryptoManager(key)
    res = {"orig": bytes(un_build(c)).hex()}
    res["orig_redissected"] = bytes(Logitech_Unifying_Hdr(H(res["orig"]))).hex()
    res["enc"] = R(lambda: m.encrypt(un_build(c)))
    if "ok" in res["enc"]:
        w = H(res["enc"]["ok"])
        dk = LogitechUnifyingCryptoManager(H(c.get("deckey", c["key"])))
        # in-memory path
        try:
            d = dk.decrypt(m.encrypt(un_build(c)))
            res["dec_mem"] = {"ok": bytes(d).hex()}
            res["dec_mem_fields"] = un_fields(d)
        except Exception as e:  # noqa
            res["dec_mem"] = {"exc": type(e).__name__}
        # wire path (manager dissects the bytes itself)
        try:
            d = dk.decrypt(w)
            res["dec"] = {"ok": bytes(d).hex()}
            res["dec_fields"] = un_fields(d)
        except Exception as e:  # noqa
            res["dec"] = {"exc": type(e).__name__}
        res["enc_fields"] = un_fields(Logitech_Unifying_Hdr(w))
    return res


def do_misc():
    """missing-key paths of the helper classes (oracle only)"""
    out = {}
    try:
        RF4CEDecryptor().attempt_to_decrypt(None)
        out["rf4ce_decryptor_no_key"] = "returned"
    except Exception as e:  # noqa
        out["rf4ce_decryptor_no_key"] = type(e).__name__
    return out


def main():
    req = json.load(sys.stdin)
    res = {"lw": [do_lw(c) for c in req.get("lw", [])],
           "rf": [do_rf(c) for c in req.get("rf", [])],
           "un": [do_un(c) for c in req.get("un", [])],
           "rfctr": [do_rfctr(c) for c in req.get("rfctr", [])]}
    if req.get("misc"):
        res["misc"] = do_misc()
    print("RESULT " + json.dumps(res))


main()
