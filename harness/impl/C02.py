"""C02 implementation driver: runs the real ProtocolHub.

stdin: {"sequence": [[v, [{"op": "parse", "data": hex} | {"op": "factory", "dom": d, "factory": f, "args": {...}}, ...]], ...],
        "wrapper": [[v, reg_cid, name, {attr: jval}], ...],
        "factory": [[v, dom, fname, {param: argspec|null}, {param: [projection keys]}], ...],
        "parse":   [[v, hex], ...]}
jval     = {"s": {"i": int}|{"b": bool}|{"x": hex}} | {"list": [sval...]} | {"recs": [[[field, sval]...]...]}
argspec  = {"t": "int"|"bool"|"bytes", ...} | {"t": "intlist", "v": [...]} | {"t": "byteslist", "v": [hex...]}
         | {"t": "tuplelist", "v": [[...]...]} | {"t": "obj", "module": m, "cls": c, "args": [argspec...], "kwargs": {k: argspec}}
stdout: RESULT {"wrapper": [outcome...], "factory": [outcome + "proj": {param: {key: jval}}...], "parse": [...]}
outcome  = {"exc": cls, "stage": s} | {"wire": hex, "decoded": [vals, pres], "obs": obs}
obs      = {"cls": cid, "fields": {attr: jval | null | {"exc": cls}}, "result_code": int?} | {"none": 1} | {"exc": cls}
Only canonical observables are returned (class ids, field values, exception class names).
"""
import sys, json, logging, importlib
logging.disable(logging.CRITICAL)

from google.protobuf.descriptor import FieldDescriptor as FD
from google.protobuf.message import DecodeError
from google.protobuf import message_factory
from whad.protocol.whad_pb2 import Message
from whad.hub import ProtocolHub
from whad.hub.message import PbMessageWrapper, HubMessage

hubs = {}


def hub(v):
    if v not in hubs:
        hubs[v] = ProtocolHub(v)
    return hubs[v]


def cid_of(cls):
    return cls.__module__ + "." + cls.__qualname__


def resolve_cls(cid):
    mod, _, name = cid.rpartition(".")
    obj = importlib.import_module(mod)
    return getattr(obj, name)


def sval_of(f, v):
    if f.type == FD.TYPE_BOOL:
        return {"b": bool(v)}
    if f.type == FD.TYPE_BYTES:
        return {"x": bytes(v).hex()}
    return {"i": int(v)}


def abstract(msg, pre=()):
    vals, pres = [], []
    for f, v in msg.ListFields():
        p = list(pre) + [f.name]
        if f.is_repeated:
            if f.type == FD.TYPE_MESSAGE:
                vals.append([p, {"recs": [[[sf.name, sval_of(sf, getattr(e, sf.name))] for sf in f.message_type.fields
                                           if sf.type != FD.TYPE_MESSAGE and not sf.is_repeated] for e in v]}])
            else:
                vals.append([p, {"list": [sval_of(f, e) for e in v]}])
        elif f.type == FD.TYPE_MESSAGE:
            pres.append(p)
            v2, p2 = abstract(v, p)
            vals += v2
            pres += p2
        else:
            vals.append([p, {"s": sval_of(f, v)}])
    return vals, pres


def jval_of(v):
    """python value read from a wrapper attribute -> jval (or None)"""
    if v is None:
        return None
    if isinstance(v, bool):
        return {"s": {"b": v}}
    if isinstance(v, int):
        return {"s": {"i": int(v)}}
    if isinstance(v, (bytes, bytearray)):
        return {"s": {"x": bytes(v).hex()}}
    if hasattr(v, "__len__") and not isinstance(v, (str, dict)):
        try:
            items = list(v)
        except TypeError:
            return {"unknown": repr(type(v))}
        if items and hasattr(items[0], "DESCRIPTOR"):
            return {"recs": [[[sf.name, sval_of(sf, getattr(e, sf.name))] for sf in e.DESCRIPTOR.fields
                              if sf.type != FD.TYPE_MESSAGE and not sf.is_repeated] for e in items]}
        if not items and hasattr(v, "add"):
            return {"recs": []}
        out = []
        for e in items:
            j = jval_of(e)
            if j is None or "s" not in j:
                return {"unknown": repr(type(e))}
            out.append(j["s"])
        return {"list": out}
    return {"unknown": repr(type(v))}


def py_of_sval(s):
    if "b" in s:
        return bool(s["b"])
    if "x" in s:
        return bytes.fromhex(s["x"])
    return int(s["i"])


def field_desc(path):
    d, fd = Message.DESCRIPTOR, None
    for node in path:
        fd = d.fields_by_name[node]
        d = fd.message_type
    return fd


def py_of_jval(j, pbfield=None):
    if "s" in j:
        return py_of_sval(j["s"])
    if "list" in j:
        return [py_of_sval(s) for s in j["list"]]
    if "recs" in j:
        fd = field_desc(pbfield.path.split("."))
        mcls = message_factory.GetMessageClass(fd.message_type)
        return [mcls(**{n: py_of_sval(s) for n, s in r}) for r in j["recs"]]
    raise ValueError("bad jval")


def observe(v, data):
    """hub.parse(data) -> obs"""
    try:
        msg = hub(v).parse(data)
    except Exception as e:  # noqa
        return {"exc": type(e).__name__}
    if msg is None:
        return {"none": 1}
    out = {"cls": cid_of(type(msg)), "fields": {}}
    if isinstance(msg, PbMessageWrapper):
        fields = object.__getattribute__(msg, "_PbMessageWrapper__pb_fields")
        for name in sorted(fields):
            try:
                out["fields"][name] = jval_of(getattr(msg, name))
            except Exception as e:  # noqa
                out["fields"][name] = {"exc": type(e).__name__}
    elif isinstance(msg, HubMessage) and hasattr(msg, "result_code"):
        try:
            out["result_code"] = int(msg.result_code)
        except Exception as e:  # noqa
            out["result_code"] = {"exc": type(e).__name__}
    return out


def outcome_of(v, obj):
    try:
        wire = obj.serialize()
    except Exception as e:  # noqa
        return {"exc": type(e).__name__, "stage": "serialize"}
    m = Message()
    try:
        m.ParseFromString(wire)
        dec = list(abstract(m))
    except DecodeError:
        dec = None
    res = {"wire": wire.hex(), "decoded": dec, "obs": observe(v, wire), "created": cid_of(type(obj))}
    if hasattr(obj, "result_code") and not isinstance(obj, PbMessageWrapper):
        res["created_result_code"] = int(obj.result_code)
    return res


def do_wrapper(v, reg, name, kw):
    try:
        cls = resolve_cls(reg).bound(name, v)
    except Exception as e:  # noqa
        return {"exc": type(e).__name__, "stage": "bound"}
    try:
        probe = cls()
        fields = object.__getattribute__(probe, "_PbMessageWrapper__pb_fields") if isinstance(probe, PbMessageWrapper) else {}
        kwargs = {a: py_of_jval(j, fields.get(a)) for a, j in kw.items()}
        obj = cls(**kwargs)
    except Exception as e:  # noqa
        return {"exc": type(e).__name__, "stage": "create"}
    return outcome_of(v, obj)


def build_arg(spec):
    if spec is None:
        return None
    t = spec["t"]
    if t == "int":
        return int(spec["v"])
    if t == "bool":
        return bool(spec["v"])
    if t == "bytes":
        return bytes.fromhex(spec["v"])
    if t == "str":
        return str(spec["v"])
    if t == "intlist":
        return [int(x) for x in spec["v"]]
    if t == "byteslist":
        return [bytes.fromhex(x) for x in spec["v"]]
    if t == "tuplelist":
        return [tuple(int(y) for y in x) for x in spec["v"]]
    if t == "obj":
        cls = getattr(importlib.import_module(spec["module"]), spec["cls"])
        return cls(*[build_arg(a) for a in spec.get("args", [])], **{k: build_arg(a) for k, a in spec.get("kwargs", {}).items()})
    raise ValueError("bad argspec")


def project(dom, obj, key):
    """the projections the factory grammar reads from an argument (independent re-implementation)"""
    if key == "":
        return obj
    if key == "bool()":
        return bool(obj)
    if key in ("bytes()", "int()", "list()"):
        return {"bytes()": bytes, "int()": int, "list()": list}[key](obj)
    if key.startswith("records("):
        spec = [x.split("=") for x in key[len("records("):-1].split(",")]
        recs = []
        for e in obj:
            rec = []
            for fname, idx in spec:
                x = e[int(idx)] if isinstance(e, tuple) else e
                rec.append((fname, x))
            recs.append(rec)
        return ("recs", recs)
    if key.startswith(".") and key.endswith("()"):
        return getattr(obj, key[1:-2])()
    if key.startswith("."):
        return getattr(obj, key[1:])
    if "()." in key:
        k, _, attr = key.partition("().")
        mod = importlib.import_module(type(getattr(hub(1), dom)).__module__)
        return getattr(getattr(mod, k)(obj), attr)
    raise ValueError("bad projection key " + key)


def jval_proj(x):
    if isinstance(x, tuple) and x and x[0] == "recs":
        out = []
        for rec in x[1]:
            r = []
            for n, e in rec:
                j = jval_of(e)
                if j is None or "s" not in j:
                    return {"unknown": repr(type(e))}
                r.append([n, j["s"]])
            out.append(r)
        return {"recs": out}
    j = jval_of(x)
    return j if j is not None else {"unknown": "None"}


def do_factory(v, dom, fname, argspecs, projkeys):
    res = {}
    try:
        argv = {p: build_arg(s) for p, s in argspecs.items()}
    except Exception as e:  # noqa
        return {"exc": type(e).__name__, "stage": "argument"}
    proj = {}
    for p, keys in projkeys.items():
        if argv.get(p) is None:
            continue
        proj[p] = {}
        for k in keys:
            try:
                proj[p][k] = jval_proj(project(dom, argv[p], k))
            except Exception as e:  # noqa
                proj[p][k] = {"exc": type(e).__name__}
    try:
        factory = getattr(getattr(hub(v), dom), fname)
        obj = factory(**argv)
    except Exception as e:  # noqa
        return {"exc": type(e).__name__, "stage": "create", "proj": proj}
    res = outcome_of(v, obj)
    res["proj"] = proj
    return res


def do_parse(v, hx):
    data = bytes.fromhex(hx)
    m = Message()
    try:
        m.ParseFromString(data)
        dec = list(abstract(m))
    except DecodeError:
        dec = None
    return {"decoded": dec, "obs": observe(v, data)}


def read_obj(msg):
    """fields and serialisation of a message object held by the caller"""
    if msg is None:
        return {"none": 1}
    out = {"cls": cid_of(type(msg)), "fields": {}}
    if isinstance(msg, PbMessageWrapper):
        fields = object.__getattribute__(msg, "_PbMessageWrapper__pb_fields")
        for name in sorted(fields):
            try:
                out["fields"][name] = jval_of(getattr(msg, name))
            except Exception as e:  # noqa
                out["fields"][name] = {"exc": type(e).__name__}
    elif hasattr(msg, "result_code"):
        out["result_code"] = int(msg.result_code)
    try:
        out["wire"] = msg.serialize().hex()
    except Exception as e:  # noqa
        out["wire"] = {"exc": type(e).__name__}
    return out


def do_sequence(v, steps):
    """several parse / create calls on ONE fresh hub instance; every result is kept and read twice:
    right after its call and again after the whole sequence"""
    h = ProtocolHub(v)
    kept, first, decoded = [], [], []
    for st in steps:
        dec = None
        if st["op"] == "parse":
            m = Message()
            try:
                m.ParseFromString(bytes.fromhex(st["data"]))
                dec = list(abstract(m))
            except DecodeError:
                dec = "DecodeError"
        decoded.append(dec)
        try:
            if st["op"] == "parse":
                obj = h.parse(bytes.fromhex(st["data"]))
            else:
                obj = getattr(getattr(h, st["dom"]), st["factory"])(**{p: build_arg(a) for p, a in st["args"].items()})
        except Exception as e:  # noqa
            kept.append(None)
            first.append({"exc": type(e).__name__})
            continue
        kept.append(obj)
        first.append(read_obj(obj))
    last = [f if "exc" in f and "cls" not in f else read_obj(o) for f, o in zip(first, kept)]
    return {"first": first, "last": last, "decoded": decoded}


def do_helper(module, cls, args, key):
    """live helper class on boundary inputs: value of the projection, or the exception class"""
    try:
        obj = getattr(importlib.import_module(module), cls)(*[build_arg(a) for a in args])
        x = getattr(obj, key[1:-2])() if key.endswith("()") else getattr(obj, key[1:])
        return {"v": jval_proj(x)}
    except Exception as e:  # noqa
        return {"exc": type(e).__name__}


def main():
    req = json.load(sys.stdin)
    res = {"helpers": [do_helper(*c) for c in req.get("helpers", [])],
           "sequence": [do_sequence(*c) for c in req.get("sequence", [])],
           "wrapper": [do_wrapper(*c) for c in req.get("wrapper", [])],
           "factory": [do_factory(*c) for c in req.get("factory", [])],
           "parse": [do_parse(*c) for c in req.get("parse", [])]}
    print("RESULT " + json.dumps(res))


main()
