"""C05 implementation driver.

* kind "conn" (lock / unlock / synchronous mode): the cases are run by the C04 driver
  (same real Connector code, same scheduler).
* kind "bridge": the real whad.device.bridge.Bridge is created by the application thread
  between two devices while the input device's reader thread, the OLD input connector's
  I/O thread and the new BridgeIfaceWrapper's I/O thread run under a forced schedule.

stdin : {"cases": [case, ...]}
  bridge case = {"kind": "bridge", "in": side, "out": side, "prefix": [action..], "tail": bool, "cap": int}
  side = {"locked": bool, "filt": cls|null, "held": [frame..], "ev0": [frame..], "spont": [[frame..]..]}
  action = 0 application (Bridge.__init__); input side: 2 reader, 3 old connector I/O, 6 wrapper I/O, 5 emit;
           output side: 12, 13, 16, 15
stdout: RESULT {"results": [...]}
"""
import sys, os, json, time as _rt
sys.path.insert(0, os.path.dirname(os.path.abspath(__file__)))
import C04 as base
from C04 import S, D, K, B, mk, classify, classify_packet, NativeDev

import whad.device.bridge as BR

A = 0
# per side: reader, old connector I/O, wrapper I/O, emit
SIDE = {"in": {"R": 2, "C": 3, "X": 6, "E": 5, "idx": 0}, "out": {"R": 12, "C": 13, "X": 16, "E": 15, "idx": 1}}
TN = {0: "A", 2: "R0", 3: "C0", 6: "X0", 12: "R1", 13: "C1", 16: "X1"}
EMITS = {5: "in", 15: "out"}


class OldConn(K.Connector):
    """The user's connector the bridge is built on."""
    def __init__(self, dev):
        self.delivered = []
        self.dispatched = []
        self.on_packets = []
        super().__init__(dev)

    def on_any_msg(self, message):
        self.delivered.append(classify(message))

    def on_discovery_msg(self, message):
        pass

    def on_generic_msg(self, message):
        pass

    def on_domain_msg(self, domain, message):
        pass

    def on_packet(self, packet):
        self.on_packets.append(classify_packet(packet))

    def on_event(self, event):
        pass

    def _Connector__process_pkt_message(self, message):
        s = S.cur()
        if s is not None:
            s.yield_point("dispatch")
        self.dispatched.append(classify(message))
        return base._PROCESS_PKT(self, message)


def namer(t):
    n = type(t).__name__
    if n == "DevOutThread":
        return "R%d" % t._DevOutThread__iface.index
    if n == "ConnIoThread":
        c = t._ConnIoThread__connector
        dev = c.device
        return ("X" if isinstance(c, BR.BridgeIfaceWrapper) else "C") + str(dev.index if dev is not None else 9)
    return None


class RecBridge(BR.Bridge):
    """Bridge recording what its wrappers hand to on_any_msg (observation only)."""
    def on_any_msg(self, wrapper, message):
        self.relayed_w[wrapper.device.index].append(classify(message))
        super().on_any_msg(wrapper, message)


def run_bridge(case):
    s = S.new_sched(watchdog=15.0)
    s.namer = namer
    s.record = True
    devs = {"in": NativeDev([], 3), "out": NativeDev([], 3)}
    devs["in"]._Device__index, devs["out"]._Device__index = 0, 1
    conns = {k: OldConn(d) for k, d in devs.items()}
    spont = {}
    for k in ("in", "out"):
        side = case.get(k, {})
        if side.get("locked", k == "in"):
            conns[k].lock()
        if side.get("filt") is not None:
            # the message-queue filter an earlier send_command / send_message left on the device
            devs[k].set_queue_filter(base.keep_for(side["filt"]))
        for fr in side.get("held", []):
            conns[k]._Connector__locked_pdus.put(mk(fr))
        for fr in side.get("ev0", []):
            conns[k].send_event(D.MessageReceived(devs[k], mk(fr)))
        D.DevOutThread(devs[k]).start()
        spont[k] = list(side.get("spont", []))
    out = {"done": False, "bridge": None}
    sched = []

    def app():
        br = RecBridge.__new__(RecBridge)
        br.relayed_w = {0: [], 1: []}
        out["bridge"] = br
        BR.Bridge.__init__(br, conns["in"], conns["out"])
        out["done"] = True
        out["done_at"] = len(sched)

    s.spawn("A", app)

    def can(a):
        if a in EMITS:
            return bool(spont[EMITS[a]])
        return s.enabled(TN[a])

    def do(a):
        sched.append(a)
        if a in EMITS:
            k = EMITS[a]
            if spont[k]:
                devs[k].wire.append(devs[k].encode(spont[k].pop(0)))
        elif a in TN:
            s.step(TN[a])

    for a in case.get("prefix", []):
        do(int(a))
    cap = int(case.get("cap", 2500))
    capped = False
    if case.get("tail", True):
        while True:
            ran = False
            for a in (5, 15, 0, 2, 3, 6, 12, 13, 16):
                if can(a):
                    do(a)
                    ran = True
            if not ran:
                break
            if len(sched) >= cap:
                capped = True
                break
    br = out["bridge"]
    evq = lambda q: [classify(e.message) for e in q.items() if isinstance(e, D.MessageReceived)]
    obs = {"done": bool(out["done"])}
    other = {"in": "out", "out": "in"}
    for k in ("in", "out"):
        wrap = getattr(br, "_Bridge__%s_wrapper" % k, None)
        c = conns[k]
        obs[k] = {
            "peer": [classify(m) for m in devs[other[k]]._Device__in_messages.items()],
            "lost": c.dispatched,
            "lq": [classify(m) for m in c._Connector__locked_pdus.items()],
            "deliv_o": c.delivered,
            "deliv_w": br.relayed_w[SIDE[k]["idx"]] if br is not None else [],
            "ev_o": evq(c._Connector__events),
            "ev_w": evq(wrap._Connector__events) if wrap is not None and hasattr(wrap, "_Connector__events") else [],
            "locked": bool(c._Connector__locked),
            "dead": bool(s.threads["R%d" % SIDE[k]["idx"]].done),
            "on_packets": c.on_packets,
            "kept": [classify(m) for m in devs[k]._Device__out_messages.items()],
        }
    info = {"crashed": {n: type(t.exc).__name__ for n, t in s.threads.items() if t.exc is not None},
            "pending": {n: t.label for n, t in s.threads.items() if not t.done},
            "queue_bounds": base.queue_bounds(devs["in"], conns["in"]),
            "wire_left": len(devs["in"].wire) + len(devs["out"].wire),
            "spont_left": len(spont["in"]) + len(spont["out"]), "done_at": out.get("done_at"),
            "labelset": sorted({base.canon_label(t, l) for (t, l, k) in s.trace if k == "run"})}
    S.drop_sched()
    return {"sched": sched, "obs": obs, "capped": capped, "info": info}


def main():
    req = json.load(sys.stdin)
    out = []
    t0 = _rt.time()
    for case in req["cases"]:
        try:
            if case.get("kind") == "bridge":
                out.append(run_bridge(case))
            else:
                out.append(base.run_case(case, req.get("labels", False)))
        except Exception as e:      # noqa
            import traceback
            out.append({"error": "%s: %s" % (type(e).__name__, e), "tb": traceback.format_exc()[-1500:]})
            try:
                S.drop_sched()
            except Exception:       # noqa
                pass
    print("RESULT " + json.dumps({"results": out, "wall": round(_rt.time() - t0, 2)}))
    sys.stdout.flush()
    os._exit(0)


if __name__ == "__main__":
    main()
