"""C05 implementation driver.

* kind "conn" (lock / unlock / synchronous mode): the cases are run by the C04 driver
  (same real Connector code, same scheduler).
* kind "bridge": the real whad.device.bridge.Bridge is created by the application thread
  between two devices while the input device's reader thread, the OLD input connector's
  I/O thread and the new BridgeIfaceWrapper's I/O thread run under a forced schedule.

stdin : {"cases": [case, ...]}
  bridge case = {"kind": "bridge", "held": [frame..], "ev0": [frame..], "spont": [[frame..]..],
                 "prefix": [action..], "tail": bool, "cap": int}
  action = 0 application (Bridge.__init__), 2 reader, 3 old connector I/O, 6 wrapper I/O, 5 emit
stdout: RESULT {"results": [...]}
"""
import sys, os, json, time as _rt
sys.path.insert(0, os.path.dirname(os.path.abspath(__file__)))
import C04 as base
from C04 import S, D, K, B, mk, classify, classify_packet, NativeDev

import whad.device.bridge as BR

A, R, C, X, EMIT = 0, 2, 3, 6, 5
TN = {A: "A", R: "R0", C: "C0", X: "X0"}


class OldConn(K.Connector):
    """The user's connector the bridge is built on."""
    def __init__(self, dev):
        self.delivered = []
        self.dispatched = []
        super().__init__(dev)

    def on_any_msg(self, message):
        self.delivered.append(classify(message))

    def on_discovery_msg(self, message):
        pass

    def on_generic_msg(self, message):
        pass

    def on_domain_msg(self, domain, message):
        pass

    def on_packet(self, packet):
        self.dispatched.append(classify_packet(packet))

    def on_event(self, event):
        pass


def namer(t):
    n = type(t).__name__
    if n == "DevOutThread":
        return "R%d" % t._DevOutThread__iface.index
    if n == "ConnIoThread":
        c = t._ConnIoThread__connector
        dev = c.device
        return ("X" if isinstance(c, BR.BridgeIfaceWrapper) else "C") + str(dev.index if dev is not None else 9)
    return None


class RecBridge(BR.Bridge):
    """Bridge recording what its wrappers hand to on_any_msg (observation only)."""
    def on_any_msg(self, wrapper, message):
        self.relayed_w.append(classify(message))
        super().on_any_msg(wrapper, message)


def run_bridge(case):
    s = S.new_sched(watchdog=15.0)
    s.namer = namer
    s.record = True
    din, dout = NativeDev([], 3), NativeDev([], 3)
    din._Device__index, dout._Device__index = 0, 1
    cin, cout = OldConn(din), OldConn(dout)
    for c in (cin, cout):
        c._Connector__callbacks_lock.yielding = False
    cin.lock()
    for fr in case.get("held", []):
        cin._Connector__locked_pdus.put(mk(fr))
    for fr in case.get("ev0", []):
        cin.send_event(D.MessageReceived(din, mk(fr)))
    D.DevOutThread(din).start()
    spont = list(case.get("spont", []))
    out = {"done": False, "bridge": None}
    RecBridge.relayed_w = []

    def app():
        br = RecBridge.__new__(RecBridge)
        br.relayed_w = []
        out["bridge"] = br
        BR.Bridge.__init__(br, cin, cout)
        out["done"] = True
        out["done_at"] = len(sched)

    sched = []
    s.spawn("A", app)

    def can(a):
        if a == EMIT:
            return bool(spont)
        return s.enabled(TN[a])

    def do(a):
        sched.append(a)
        if a == EMIT:
            if spont:
                din.wire.append(din.encode(spont.pop(0)))
        elif a in TN:
            s.step(TN[a])

    for a in case.get("prefix", []):
        do(int(a))
    cap = int(case.get("cap", 1500))
    capped = False
    if case.get("tail", True):
        while True:
            ran = False
            for a in (EMIT, A, R, C, X):
                if can(a):
                    do(a)
                    ran = True
            if not ran:
                break
            if len(sched) >= cap:
                capped = True
                break
    br = out["bridge"]
    evq = lambda q: [classify(e.message) for e in q.items() if isinstance(e, D.MessageReceived)]
    wrap = getattr(br, "_Bridge__in_wrapper", None)
    obs = {
        "peer": [classify(m) for m in dout._Device__in_messages.items()],
        "lost": cin.dispatched,
        "lq": [classify(m) for m in cin._Connector__locked_pdus.items()],
        "deliv_o": cin.delivered,
        "deliv_w": br.relayed_w if br is not None else [],
        "ev_o": evq(cin._Connector__events),
        "ev_w": evq(wrap._Connector__events) if wrap is not None and hasattr(wrap, "_Connector__events") else [],
        "locked": bool(cin._Connector__locked),
        "done": bool(out["done"]),
        "dead": bool(s.threads["R0"].done),
    }
    info = {"crashed": {n: type(t.exc).__name__ for n, t in s.threads.items() if t.exc is not None},
            "pending": {n: t.label for n, t in s.threads.items() if not t.done},
            "wire_left": len(din.wire), "spont_left": len(spont), "done_at": out.get("done_at"),
            "peer_in_q_other": len(din._Device__in_messages.items()),
            "labelset": sorted({base.canon_label(t, l) for (t, l, k) in s.trace if k == "run"})}
    S.drop_sched()
    return {"sched": sched, "obs": obs, "capped": capped, "info": info}


def main():
    req = json.load(sys.stdin)
    out = []
    t0 = _rt.time()
    for case in req["cases"]:
        try:
            if case.get("kind") == "bridge":
                out.append(run_bridge(case))
            else:
                out.append(base.run_case(case, req.get("labels", False)))
        except Exception as e:      # noqa
            import traceback
            out.append({"error": "%s: %s" % (type(e).__name__, e), "tb": traceback.format_exc()[-1500:]})
            try:
                S.drop_sched()
            except Exception:       # noqa
                pass
    print("RESULT " + json.dumps({"results": out, "wall": round(_rt.time() - t0, 2)}))
    sys.stdout.flush()
    os._exit(0)


if __name__ == "__main__":
    main()
