"""C12 implementation driver: builds layer classes with type() and the REAL decorators
(whad.common.stack: source / instance / alias, Layer / ContextualLayer), runs operation
sequences on the real framework and reports canonical observations.

stdin:  {"cases": [ {"pool": [C, ...], "setup": [["add"|"remove", class id, sub-layer class id], ...], "root": class id, "ops": [op, ...]}, ... ]}
  C  = {"id": class id, "base": id of the generated class it derives from | None, "a": alias, "x": instantiable?,
        "own_layers": declares LAYERS = {} in its body?, "h": [[hid, [[src, tag, contextual, form], ...]], ...],
        "pre" / "post": method lists ("h" format) of the plain mixin classes listed before / after the layer base}
       decorators are listed in APPLICATION order (innermost first); form = "source" | "instance"
  op = ["inst", path, alias] | ["destroy", path, name] | ["send", path, dst, tag] | ["set", path, v]
       | ["save"] | ["load"] | ["restart"]   (path = list of names from the root, names/aliases/tags are strings)
stdout: RESULT {"cases": [ [{"k": "init", "live": ...}, event, ...], ... ]}   (one event per operation, after the init one)
  event = {"k": "skip"} | {"k": "inst", "name": str|None, "uid": int|None, "live": [[uid, name], ...]}
        | {"k": "destroy", "live": ...} | {"k": "send", "d": [[uid, hid, src|None], ...], "bad_data": bool}
        | {"k": "set"} | {"k": "save", "s": S} | {"k": "load", "live": ..., "s": S}
        | {"k": "loadraise", "cls": str} | {"k": "restart", "live": ...} | {"k": "exc", "cls": str, "op": op}
  S = [key, name, state_dict, [S, ...]]   (save() output, sub-layers in dict order)
uid = creation index of the object (configure() is the documented per-object hook and runs
once in Layer.__init__ before populate()).
"""
import sys, json, copy, io, contextlib, logging
logging.disable(logging.CRITICAL)
from whad.common.stack import Layer, ContextualLayer, alias, source, instance


class Run:
    def __init__(self, case):
        self.registry = []      # objects in creation order
        self.deliveries = []
        self.nclass = 0
        self.case = case
        self.root_cls = self.build(case)

    def uid(self, obj):
        for i, o in enumerate(self.registry):
            if o is obj:
                return i
        return -1

    def mk_handler(self, hid):
        run = self
        def handler(self, *args, **kwargs):
            run.deliveries.append((run.uid(self), hid, args, kwargs))
        handler.__name__ = "h%03d" % hid
        return handler

    def build(self, case):
        """one class object per pool entry (created in dependency order: a class may derive from
        another generated class), then the set-up program: the REAL cls.add(sub) / cls.remove(sub)"""
        run = self
        nodes = {t["id"]: t for t in case["pool"]}
        built = {}
        def mk(nid):
            if nid in built:
                return built[nid]
            t = nodes[nid]
            base = mk(t["base"]) if t.get("base") is not None else (ContextualLayer if t["x"] else Layer)
            def methods(hs):
                out = {}
                for hid, decos in hs:
                    f = self.mk_handler(hid)
                    for src, tag, ctx, form in decos:
                        if form == "instance":
                            d = instance(src) if tag == "default" else instance(src, tag=tag)
                        elif tag == "default" and not ctx:
                            d = source(src)
                        else:
                            d = source(src, tag, contextual=bool(ctx))
                        f = d(f)
                    out["h%03d" % hid] = f    # no decorator at all: a plain method (may hide a base handler)
                return out
            attrs = methods(t["h"])
            # plain mixin classes (no alias, not layers) listed before / after the layer base class
            pre = tuple(type("MixinA%d_%d" % (nid, j), (object,), methods(m)) for j, m in enumerate(t.get("pre", [])))
            post = tuple(type("MixinB%d_%d" % (nid, j), (object,), methods(m)) for j, m in enumerate(t.get("post", [])))
            def configure(self, options):
                run.registry.append(self)
            attrs["configure"] = configure
            if t.get("own_layers"):
                attrs["LAYERS"] = {}           # the class declares its own (empty) sub-layer dictionary
            self.nclass += 1
            cls = type("C%d_%s" % (self.nclass, t["a"]), pre + (base,) + post, attrs)
            built[nid] = alias(t["a"])(cls)
            return built[nid]
        for nid in nodes:
            mk(nid)
        for kind, c, sub in case["setup"]:
            if kind == "add":
                built[c].add(built[sub])
            else:
                built[c].remove(built[sub])
        return built[case["root"]]


def resolve(root, path):
    cur = root
    for n in path:
        if n not in cur.layers:
            return None
        cur = cur.layers[n]
    return cur


def live(run, root):
    out = []
    def walk(o):
        out.append([run.uid(o), o.name])
        for k in o.layers:
            walk(o.layers[k])
    walk(root)
    return out


def canon_save(s):
    return [None, s["name"], dict(sorted(s["state"].items())),
            [[k] + canon_save(v)[1:] for k, v in s["sublayers"].items()]]


def do_case(case):
    events = []
    sink = io.StringIO()
    with contextlib.redirect_stdout(sink):
        try:
            run = Run(case)
            root = run.root_cls()
        except Exception as e:  # noqa  (e.g. RecursionError when a class ends up containing itself)
            return [{"k": "init_exc", "cls": type(e).__name__}]
        events.append({"k": "init", "live": live(run, root)})
        saved = None
        for op in case["ops"]:
            try:
                k = op[0]
                if k == "inst":
                    par = resolve(root, op[1])
                    layers = getattr(type(par), "LAYERS", {}) if par is not None else {}
                    if par is None or op[2] not in layers:
                        events.append({"k": "skip"}); continue
                    obj = par.instantiate(layers[op[2]])
                    events.append({"k": "inst", "name": None if obj is None else obj.name,
                                   "uid": None if obj is None else run.uid(obj), "live": live(run, root)})
                elif k == "destroy":
                    par = resolve(root, op[1])
                    if par is None or op[2] not in par.layers:
                        events.append({"k": "skip"}); continue
                    par.destroy(par.layers[op[2]])
                    events.append({"k": "destroy", "live": live(run, root)})
                elif k == "send":
                    src = resolve(root, op[1])
                    if src is None:
                        events.append({"k": "skip"}); continue
                    run.deliveries = []
                    token = "data-%d" % len(events)
                    src.send(op[2], token, tag=op[3], extra=len(events))
                    d, bad = [], False
                    for uid, hid, args, kwargs in run.deliveries:
                        if len(args) == 2:
                            srcarg, data = args
                        elif len(args) == 1:
                            srcarg, data = None, args[0]
                        else:
                            srcarg, data, bad = None, None, True
                        if data != token or kwargs != {"extra": len(events)}:
                            bad = True
                        d.append([uid, hid, srcarg])
                    events.append({"k": "send", "d": d, "bad_data": bad})
                elif k == "set":
                    o = resolve(root, op[1])
                    if o is None:
                        events.append({"k": "skip"}); continue
                    o.state.val = op[2]
                    events.append({"k": "set"})
                elif k == "save":
                    saved = copy.deepcopy(root.save())          # serialisation boundary
                    events.append({"k": "save", "s": canon_save(saved)})
                elif k == "load":
                    if saved is None:
                        events.append({"k": "skip"}); continue
                    fresh = run.root_cls()
                    try:
                        fresh.load(copy.deepcopy(saved))
                    except Exception as e:  # noqa
                        events.append({"k": "loadraise", "cls": type(e).__name__})
                        break
                    root = fresh
                    events.append({"k": "load", "live": live(run, root), "s": canon_save(copy.deepcopy(root.save()))})
                elif k == "restart":
                    # a new interpreter: the classes are defined again (no INSTCOUNT attribute), the
                    # live stack is gone, only the saved state survives; a fresh stack is built
                    run.root_cls = run.build(run.case)
                    root = run.root_cls()
                    events.append({"k": "restart", "live": live(run, root)})
                else:
                    events.append({"k": "exc", "cls": "BadOp", "op": op}); break
            except Exception as e:  # noqa
                events.append({"k": "exc", "cls": type(e).__name__, "op": op})
                break
    return events


def main():
    req = json.load(sys.stdin)
    res = {"cases": [do_case(c) for c in req["cases"]]}
    print("RESULT " + json.dumps(res))

main()
