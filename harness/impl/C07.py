"""C07/C08 implementation driver: the real whad BLE stack (LinkLayer -> L2CAPLayer -> ATTLayer ->
GattServer) under a Sandbox 'phy' parent, serving a profile built with the real Profile classes.

stdin : {"cases": [ {"profile": <profile spec>, "steps": [<step>, ...]} , ...]}
  profile spec: {"services": [ {"kind": "primary"|"secondary", "handle": h, "end": e, "uuid": hex,
                    "includes": [ {"handle": h, "start": a, "end": b, "uuid": hex} ],
                    "chars": [ {"handle": h, "uuid": hex, "props": int, "sec": int, "value": hex,
                                "descs": [ {"handle": h, "uuid": hex, "value": hex} ]} ]} ]}
  step: {"op": "pdu", "hex": <ATT PDU>, "hooks": {name: outcome}}   inject one ATT PDU (through LL/L2CAP)
        {"op": "sec", "enc": bool, "auth": bool}                      switch link security state
        {"op": "set", "handle": <char decl handle>, "value": hex, "hooks": {...}}  application sets charac.value
        {"op": "disc"}                                                link-layer disconnection
        {"op": "conn"}                                                new connection (fresh L2CAP/ATT/GATT instance)
  hook outcome: ["ret"] | ["ret", ["bytes", hex] | ["str", s] | ["int", n]]  (plain return of that object)
                | ["val", hex] | ["authent"] | ["author"] | ["denied"] | ["notfound"]
                | ["gatterr", req|null, handle|null, err|null] | ["raise"]
  hook names: read write written written2 sub unsub notif indic
  "acts": {name: [decl handle, hex]} on a pdu step: before returning / raising, the hook assigns
          profile.<characteristic declared at that handle>.value (names read write written written2 sub unsub)
stdout: RESULT {"cases": [ {"steps": [ {"out": [hex...], "exc": cls|null, "probe": bool, "vals": {handle: hex}} ]} ]}
  out   = ATT PDUs leaving the ATT layer towards L2CAP during the step (probe excluded)
  probe = a Read Request on handle 0 sent after the step got exactly one Error Response
  vals  = values of characteristic-value/descriptor attributes that changed during the step
"""
import sys, json, logging, io
logging.disable(logging.CRITICAL)

import whad.ble.stack.gatt as G


class WouldDeadlock(BaseException):
    """threading.Lock.acquire() on a held lock from the only thread: the real server blocks for ever.
    (BaseException: nothing in the stack may catch it -- a thread that blocks never raises.)"""


class WouldBlockForever(WouldDeadlock):
    """queue.Queue.put(block=True) without timeout on a full queue that only this thread could drain"""


DEAD = {"flag": False, "in_pdu": False}


class FakeLock:
    def __init__(self):
        self.held = False
    def acquire(self, *a, **k):
        if self.held:
            # the thread handling a PDU would block for ever: the stack is dead from now on
            if DEAD["in_pdu"]:
                DEAD["flag"] = True
            raise WouldDeadlock()
        self.held = True
        return True
    def release(self):
        if not self.held:
            raise RuntimeError("release unlocked lock")
        self.held = False
    def locked(self):
        return self.held

G.Lock = FakeLock

import queue as _queue


class FakeQueue(_queue.Queue):
    """queue.Queue whose blocking put on a full queue / blocking get without timeout on an empty queue is
    reported instead of hanging (single thread: nobody else will ever make room / put something)"""
    def put(self, item, block=True, timeout=None):
        if block and timeout is None and self.maxsize > 0 and self.qsize() >= self.maxsize:
            if DEAD["in_pdu"]:
                DEAD["flag"] = True
            raise WouldBlockForever()
        return super().put(item, block=block, timeout=timeout)

    def get(self, block=True, timeout=None):
        if block and timeout is None and self.qsize() == 0:
            if DEAD["in_pdu"]:
                DEAD["flag"] = True
            raise WouldBlockForever()
        return super().get(block=block, timeout=timeout)

G.Queue = FakeQueue

from scapy.layers.bluetooth import L2CAP_Hdr
from scapy.layers.bluetooth4LE import BTLE_DATA
from whad.common.stack import alias
from whad.common.stack.tests import Sandbox
from whad.ble.stack.llm import LinkLayer
from whad.ble.stack.l2cap import L2CAPLayer
from whad.ble.stack.att import ATTLayer
from whad.ble.stack.gatt import GattServer
from whad.hub.ble import BDAddress
from whad.ble.profile import Profile
from whad.ble.profile.attribute import UUID
from whad.ble.profile.service import PrimaryService, SecondaryService, IncludeService
from whad.ble.profile.characteristic import Characteristic, CharacteristicValue, Descriptor, ClientCharacteristicConfig
from whad.ble.stack.att.constants import SecurityAccess
from whad.ble.exceptions import HookReturnValue, HookReturnAuthentRequired, HookReturnAuthorRequired, \
    HookReturnAccessDenied, HookReturnGattError, HookReturnNotFound

ATTLayer.add(GattServer)


@alias('phy')
class Phy(Sandbox):
    bt_version = None
Phy.add(LinkLayer)


class HookBoom(Exception):
    """what a buggy user hook raises"""


class TransportBoom(Exception):
    """what the fault probe makes the ATT layer raise while a handler sends its answer"""


RETURNS = object()


def fire(outcome):
    """raise what the plan says; returns RETURNS-marked value when the hook returns an object itself"""
    if outcome is None:
        return None
    if outcome[0] == "ret":
        if len(outcome) > 1:
            kind, v = outcome[1]
            return (RETURNS, bytes.fromhex(v) if kind == "bytes" else v)
        return None
    k = outcome[0]
    if k == "val":
        raise HookReturnValue(bytes.fromhex(outcome[1]))
    if k == "authent":
        raise HookReturnAuthentRequired()
    if k == "author":
        raise HookReturnAuthorRequired()
    if k == "denied":
        raise HookReturnAccessDenied()
    if k == "notfound":
        raise HookReturnNotFound()
    if k == "gatterr":
        raise HookReturnGattError(outcome[1], outcome[2], outcome[3])
    raise HookBoom()


class HP(Profile):
    """Profile whose user hooks follow the plan of the current step."""
    def __init__(self):
        super().__init__()
        self.plan = {}
        self.acts = {}
        self.nwritten = 0

    def _hook(self, name, default):
        """user hook `name`: update a characteristic if the plan says so, then return / raise"""
        act = self.acts.get(name)
        if act is not None:
            try:
                ch = self.find_object_by_handle(act[0])
            except IndexError:
                ch = None
            if isinstance(ch, Characteristic):
                ch.value = bytes.fromhex(act[1])
        r = fire(self.plan.get(name))
        if isinstance(r, tuple) and r and r[0] is RETURNS:
            return r[1]
        return default()

    def on_characteristic_read(self, service, characteristic, offset=0, length=0):
        return self._hook("read", lambda: super(HP, self).on_characteristic_read(service, characteristic, offset, length))

    def on_characteristic_write(self, service, characteristic, offset=0, value=b'', without_response=False):
        return self._hook("write", lambda: super(HP, self).on_characteristic_write(service, characteristic, offset, value, without_response))

    def on_characteristic_written(self, service, characteristic, offset=0, value=b'', without_response=False):
        self.nwritten += 1
        return self._hook("written" if self.nwritten == 1 else "written2",
                          lambda: super(HP, self).on_characteristic_written(service, characteristic, offset, value, without_response))

    def on_characteristic_subscribed(self, service, characteristic, notification=False, indication=False):
        return self._hook("sub", lambda: super(HP, self).on_characteristic_subscribed(service, characteristic, notification, indication))

    def on_characteristic_unsubscribed(self, service, characteristic):
        return self._hook("unsub", lambda: super(HP, self).on_characteristic_unsubscribed(service, characteristic))

    def on_notification(self, service, characteristic, value):
        return self._hook("notif", lambda: super(HP, self).on_notification(service, characteristic, value))

    def on_indication(self, service, characteristic, value):
        return self._hook("indic", lambda: super(HP, self).on_indication(service, characteristic, value))


def build_profile(spec):
    p = HP()
    build = spec.get("build") or {}
    svc_order = build.get("services") or list(range(len(spec["services"])))
    for si in svc_order:
        s = spec["services"][si]
        char_order = (build.get("chars") or {})[si] if build.get("chars") else list(range(len(s.get("chars", []))))
        uuid = UUID(bytes.fromhex(s["uuid"]))
        if s["kind"] == "primary":
            svc = PrimaryService(uuid=uuid, handle=s["handle"], end_handle=s["end"])
        else:
            svc = SecondaryService(uuid, handle=s["handle"])
        for i in s.get("includes", []):
            inc = IncludeService(UUID(bytes.fromhex(i["uuid"])), handle=i["handle"],
                                 start_handle=i["start"], end_handle=i["end"])
            svc.add_included_service(inc)
            p.register_attribute(inc)
        for ci in char_order:
            c = s["chars"][ci]
            ch = Characteristic(uuid=UUID(bytes.fromhex(c["uuid"])), handle=c["handle"],
                                value=bytes.fromhex(c["value"]), properties=c["props"],
                                security=SecurityAccess.int_to_accesses(c["sec"]))
            for d in c.get("descs", []):
                du = UUID(bytes.fromhex(d["uuid"]))
                dv = bytes.fromhex(d["value"])
                if du == UUID(0x2902):
                    dobj = ClientCharacteristicConfig.from_value(ch, d["handle"], dv)
                else:
                    dobj = Descriptor(du, d["handle"], dv, ch)
                ch.add_descriptor(dobj)
            ch.service = svc
            svc.add_characteristic(ch)
        svc.end_handle = s["end"]
        p.add_service(svc)
    return p


class Rig:
    def __init__(self, profile):
        self.profile = profile
        self.phy = Phy()
        self.ll = self.phy.get_layer('ll')
        self.out = []
        self.connect()

    def connect(self):
        self.ll.on_connect(1, BDAddress("00:11:22:33:44:55"), BDAddress("11:22:33:44:55:66"))
        l2name = self.ll.state.get_connection_l2cap(1)
        self.l2 = self.ll.get_layer(l2name)
        self.att = self.l2.get_layer('att')
        self.gatt = self.l2.get_layer('gatt')
        self.gatt.set_server_model(self.profile)
        self.att.register_monitor_callback(self.mon)

    def mon(self, source, destination, data, tag='default', **kw):
        if source == 'att' and destination == 'l2cap' and tag == 'default':
            self.out.append(bytes(data).hex())

    def inject(self, att_pdu):
        frame = bytes(L2CAP_Hdr(cid=4, len=len(att_pdu))) + att_pdu
        if len(frame) > 255:
            # larger than one LL data PDU: feed the L2CAP layer as the link layer does
            self.ll.send(self.ll.state.get_connection_l2cap(1), frame, fragment=False)
        else:
            self.phy.send('ll', BTLE_DATA(LLID=2, len=len(frame)) / frame, tag='data', conn_handle=1)

    def snapshot(self):
        vals = {}
        for h, a in self.profile.db.items():
            if isinstance(a, (CharacteristicValue, Descriptor)):
                vals[str(h)] = bytes(a.value).hex()
        return vals

    LOCKING = {0x02, 0x04, 0x06, 0x08, 0x0a, 0x0c, 0x0e, 0x10, 0x12, 0x52, 0x16, 0x18, 0x1d}

    def step(self, st):
        self.out = []
        self.profile.plan = st.get("hooks") or {}
        self.profile.acts = st.get("acts") or {}
        self.profile.nwritten = 0
        exc = None
        if DEAD["flag"] and st["op"] == "pdu":
            # the thread that handles PDUs is blocked for ever: nothing is processed any more
            pdu = bytes.fromhex(st["hex"])
            blocked = (1 in self.ll.state.connections and pdu[:1] and pdu[0] in self.LOCKING
                       and not (pdu[0] == 0x0e and len(pdu) < 3))
            return [], ("WouldDeadlock" if blocked else None), (1 not in self.ll.state.connections)
        try:
            op = st["op"]
            if op == "pdu":
                DEAD["in_pdu"] = True
                try:
                    self.inject(bytes.fromhex(st["hex"]))
                finally:
                    DEAD["in_pdu"] = False
            elif op == "sec":
                conn = self.ll.state.connections.get(1)
                if conn is not None:
                    conn['encrypted'] = bool(st["enc"])
                    conn['authenticated'] = bool(st["auth"])
            elif op == "set":
                ch = self.profile.find_object_by_handle(st["handle"])
                if isinstance(ch, Characteristic):
                    ch.value = bytes.fromhex(st["value"])
            elif op == "disc":
                self.ll.on_disconnect(1)
            elif op == "conn":
                if 1 not in self.ll.state.connections:
                    # a new connection gets fresh L2CAP/ATT/GATT instances (and locks); the model follows the
                    # instances, not the receive thread, so the "blocked for ever" mark ends here
                    DEAD["flag"] = False
                    self.connect()
        except WouldDeadlock as e:
            exc = type(e).__name__
        except Exception as e:  # noqa
            exc = type(e).__name__
        out = self.out
        # probe: Read Request on handle 0 must be answered by one Error Response
        self.out = []
        self.profile.plan = {}
        self.profile.acts = {}
        probe = False
        try:
            if DEAD["flag"]:
                probe = (1 not in self.ll.state.connections)
            elif 1 in self.ll.state.connections:
                self.inject(bytes.fromhex("0a0000"))
                probe = (self.out == ["010a000001"])
            else:
                probe = True   # no connection: nothing to probe
        except (Exception, WouldDeadlock):  # noqa
            probe = False
        self.out = []
        return out, exc, probe


def fault_probe(rig):
    """Fault injection outside the model: the ATT layer fails (raises) while a request handler sends its
    answer; the exception leaves the handler through txlock.  The next request must still be answered.
    None = not applicable (no connection / PDU thread already blocked)."""
    if DEAD["flag"] or 1 not in rig.ll.state.connections:
        return None
    rig.profile.plan, rig.profile.acts = {}, {}
    def boom(*a, **k):
        raise TransportBoom()
    rig.att.error_response = boom
    try:
        try:
            rig.inject(bytes.fromhex("0a0000"))
        except (Exception, WouldDeadlock):  # noqa
            pass
    finally:
        del rig.att.error_response
    rig.out = []
    try:
        rig.inject(bytes.fromhex("0a0000"))
        return rig.out == ["010a000001"]
    except (Exception, WouldDeadlock):  # noqa
        return False


def run_case(case):
    DEAD["flag"] = False
    DEAD["in_pdu"] = False
    prof = build_profile(case["profile"])
    rig = Rig(prof)
    prev = rig.snapshot()
    res = []
    first = dict(prev)
    for st in case["steps"]:
        out, exc, probe = rig.step(st)
        cur = rig.snapshot()
        delta = {h: v for h, v in cur.items() if prev.get(h) != v}
        prev = cur
        res.append({"out": out, "exc": exc, "probe": probe, "vals": delta})
    return {"steps": res, "initial": first, "fault_probe": fault_probe(rig)}


def main():
    req = json.load(sys.stdin)
    real_stdout = sys.stdout
    sys.stdout = io.StringIO()
    results = []
    try:
        for case in req["cases"]:
            try:
                results.append(run_case(case))
            except (Exception, WouldDeadlock) as e:  # noqa
                import traceback
                results.append({"driver_error": type(e).__name__ + ": " + str(e), "tb": traceback.format_exc()[-1500:]})
            sys.stdout.seek(0); sys.stdout.truncate(0)
    finally:
        sys.stdout = real_stdout
    print("RESULT " + json.dumps({"cases": results}))

main()
