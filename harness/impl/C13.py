"""C13 implementation driver: runs the real LinkLayerCryptoManager / LinkLayerDecryptor
(whad/ble/crypto.py, Cryptodome AES) and returns canonical observables only.

stdin  {"mgr":   [ {"ltk": hex, "mat": [skdm, ivm, skds, ivs], "ops": [op, ...]} ],
        "dec":   [ {"keys": [hex], "mats": [[skdm, ivm, skds, ivs]], "pdus": [hex]} ],
        "sweep": [ {"ltk", "mat", "mc", "sc", "d", "tol", "pdu": hex} ],
        "pair":  [ {"tx": {"ltk","mat","mc","sc"}, "rx": {...}, "d_tx", "d_rx", "tol", "pdu": hex} ],
        "link":  [ {"ltk","mat","tol","events": [[d, hex, delivered]]} ],
        "capture": [ {"ltk","mat","keys":[hex],"events": [[d, plain pdu hex, captured(, first ciphertext byte to force)]]} ]}
  capture: the on-air PDUs are produced by an independent reference written from the Bluetooth Core
  specification (Vol 6 Part E 2: nonce = 39-bit packet counter LE, direction bit 1 for central->peripheral,
  IV; Cryptodome CCM called directly), then fed to LinkLayerDecryptor.
  op = ["enc", d, hex] | ["dec", d, tol, hex] | ["set", mc, sc] | ["inc", d]
     | ["declast", d, tol, idx, mask]   (decrypt the last encrypt() output, byte idx xor mask; idx < 0: unchanged)
  d = 1 (MASTER_TO_SLAVE) | 2 (SLAVE_TO_MASTER)
stdout RESULT {...}; every manager observation is {"k": kind, "d": hex, "mc": int, "sc": int} with
  kind 0 = encrypt output, 1 = decrypt (data, True), 2 = decrypt (data, False), 3 = exception (d = class name)
"""
import sys, json, logging, struct
logging.disable(logging.CRITICAL)
from whad.ble.crypto import LinkLayerCryptoManager, LinkLayerDecryptor
from scapy.layers.bluetooth4LE import BTLE, BTLE_DATA


def mk(ltk, mat, mc=0, sc=0):
    m = LinkLayerCryptoManager(bytes.fromhex(ltk), *mat)
    if mc or sc:
        m.update_master_counter(mc)
        m.update_slave_counter(sc)
    return m


def ob(m, k, d):
    return {"k": k, "d": d, "mc": m.master_cnt, "sc": m.slave_cnt}


def do_dec(m, payload, d, tol):
    try:
        data, ok = m.decrypt(payload, d, tol)
    except Exception as e:  # noqa
        return ob(m, 3, type(e).__name__)
    return ob(m, 1 if ok is True else 2, bytes(data).hex())


def do_mgr(c):
    try:
        m = mk(c["ltk"], c["mat"])
    except Exception as e:  # noqa
        return {"obs": [{"k": 3, "d": type(e).__name__, "mc": 0, "sc": 0}], "skiv": ""}
    out, last = [], b""
    for o in c["ops"]:
        if o[0] == "enc":
            try:
                last = m.encrypt(bytes.fromhex(o[2]), o[1])
                out.append(ob(m, 0, last.hex()))
            except Exception as e:  # noqa
                out.append(ob(m, 3, type(e).__name__))
        elif o[0] == "dec":
            out.append(do_dec(m, bytes.fromhex(o[3]), o[1], o[2]))
        elif o[0] == "declast":
            p = bytearray(last)
            if o[3] >= 0 and o[3] < len(p):
                p[o[3]] ^= o[4]
            out.append(do_dec(m, bytes(p), o[1], o[2]))
        elif o[0] == "set":
            m.update_master_counter(o[1])
            m.update_slave_counter(o[2])
            out.append(ob(m, 0, ""))
        elif o[0] == "inc":
            if o[1] == 1:
                m.increment_master_counter()
            else:
                m.increment_slave_counter()
            out.append(ob(m, 0, ""))
    return {"obs": out, "skiv": (m.session_key + m.iv).hex()}


def managers_of(dec):
    """cached managers in insertion order: [key hex, material index (-1: cache not keyed by material), master_cnt, slave_cnt]"""
    out = []
    for k, m in dec.managers.items():
        if isinstance(k, tuple):
            out.append([bytes(k[0]).hex(), int(k[1]), m.master_cnt, m.slave_cnt])
        else:
            out.append([bytes(k).hex(), -1, m.master_cnt, m.slave_cnt])
    return out


def do_decryptor(c):
    dec = LinkLayerDecryptor(*[bytes.fromhex(k) for k in c["keys"]])
    for mat in c["mats"]:
        dec.add_crypto_material(*mat)
    out = []
    for hx in c["pdus"]:
        raw = struct.pack("<I", 0x50655f3a) + bytes.fromhex(hx) + b"\x11\x22\x33"
        pkt = BTLE(raw)
        try:
            res, ok = dec.attempt_to_decrypt(pkt[BTLE])
        except Exception as e:  # noqa
            out.append({"k": 3, "d": type(e).__name__})
            continue
        if res is None:
            out.append({"k": 0, "d": "", "ok": bool(ok)})
        else:
            try:
                out.append({"k": 1, "d": bytes(res).hex(), "ok": bool(ok)})
            except Exception as e:  # noqa
                out.append({"k": 3, "d": "build:" + type(e).__name__})
    final = managers_of(dec)
    return {"obs": out, "final": final}


def do_sweep(c):
    tx = mk(c["ltk"], c["mat"], c["mc"], c["sc"])
    pdu, d, tol = bytes.fromhex(c["pdu"]), c["d"], c["tol"]
    ct = tx.encrypt(pdu, d)
    rx = mk(c["ltk"], c["mat"], c["mc"], c["sc"])
    base = do_dec(rx, ct, d, tol)
    accepted, changed, acc_data = [], [], {}
    for bit in range(len(ct) * 8):
        p = bytearray(ct)
        p[bit // 8] ^= 1 << (bit % 8)
        rx = mk(c["ltk"], c["mat"], c["mc"], c["sc"])
        r = do_dec(rx, bytes(p), d, tol)
        if r["k"] != 2:
            accepted.append(bit)
            acc_data[str(bit)] = [r["k"], r["d"]]
        if (r["mc"], r["sc"]) != (c["mc"], c["sc"]):
            changed.append(bit)
    return {"ct": ct.hex(), "base": base, "not_rejected": accepted, "cnt_changed": changed, "data": acc_data}


def do_pair(c):
    tx = mk(c["tx"]["ltk"], c["tx"]["mat"], c["tx"]["mc"], c["tx"]["sc"])
    rx = mk(c["rx"]["ltk"], c["rx"]["mat"], c["rx"]["mc"], c["rx"]["sc"])
    try:
        ct = tx.encrypt(bytes.fromhex(c["pdu"]), c["d_tx"])
    except Exception as e:  # noqa
        return {"exc": type(e).__name__}
    res = {"ct": ct.hex(), "res": do_dec(rx, ct, c["d_rx"], c["tol"])}
    # the same PDU through the independent reference (Cryptodome CCM called directly, nonce = 39-bit counter,
    # direction bit, IV as in the Bluetooth specification). whad names the directions the other way round
    # (MASTER_TO_SLAVE -> direction bit 0), so whad's direction d corresponds to the reference's bit (d != 1).
    try:
        pdu = bytes.fromhex(c["pdu"])
        if len(pdu) >= 2:
            sk, iv = ref_session(bytes.fromhex(c["tx"]["ltk"]), c["tx"]["mat"])
            cnt = c["tx"]["mc"] if c["d_tx"] == 1 else c["tx"]["sc"]
            res["ref_body"] = ref_encrypt(sk, iv, cnt, c["d_tx"] != 1, pdu)[2:].hex()
    except Exception:  # noqa
        pass
    return res


def do_link(c):
    tx, rx = mk(c["ltk"], c["mat"]), mk(c["ltk"], c["mat"])
    out = []
    for d, hx, delivered in c["events"]:
        ct = tx.encrypt(bytes.fromhex(hx), d)
        (tx.increment_master_counter if d == 1 else tx.increment_slave_counter)()
        if delivered:
            before = [rx.master_cnt, rx.slave_cnt]
            r = do_dec(rx, ct, d, c["tol"])
            r["before"] = before
            r["ct"] = ct.hex()
            if r["k"] == 1:
                (rx.increment_master_counter if d == 1 else rx.increment_slave_counter)()
            out.append(r)
    return {"out": out, "tx": [tx.master_cnt, tx.slave_cnt], "rx": [rx.master_cnt, rx.slave_cnt]}


def ref_session(ltk, mat):
    from Cryptodome.Cipher import AES
    skdm, ivm, skds, ivs = mat
    skd = skds.to_bytes(8, "big") + skdm.to_bytes(8, "big")
    return AES.new(ltk, AES.MODE_ECB).encrypt(skd), ivm.to_bytes(4, "little") + ivs.to_bytes(4, "little")


def ref_encrypt(sk, iv, cnt, central_to_peripheral, pdu):
    from Cryptodome.Cipher import AES
    n = (cnt & 0x7fffffffff).to_bytes(5, "little")
    nonce = n[:4] + bytes([n[4] | (0x80 if central_to_peripheral else 0)]) + iv
    c = AES.new(sk, AES.MODE_CCM, nonce=nonce, mac_len=4, assoc_len=1)
    c.update(bytes([pdu[0] & 0xe3]))
    ct = c.encrypt(pdu[2:])
    return bytes([pdu[0], (pdu[1] + 4) & 0xff]) + ct + c.digest()


def do_capture(c):
    sk, iv = ref_session(bytes.fromhex(c["ltk"]), c["mat"])
    cnt = {1: 0, 2: 0}
    air = []
    plain = []
    for ev in c["events"]:
        d, hx, captured = ev[0], ev[1], ev[2]
        pdu = bytes.fromhex(hx)
        if pdu[1] == 0 and (pdu[0] & 3) == 1:      # empty PDU: never encrypted, no counter
            a = pdu
        else:
            if len(ev) > 3 and len(pdu) > 2:
                # choose the first plaintext byte so that the first CIPHERTEXT byte is ev[3]
                z = ref_encrypt(sk, iv, cnt[d], d == 1, pdu[:2] + bytes(len(pdu) - 2))
                pdu = pdu[:2] + bytes([z[2] ^ ev[3]]) + pdu[3:]
            a = ref_encrypt(sk, iv, cnt[d], d == 1, pdu)
            cnt[d] += 1
        if captured:
            air.append(a.hex())
            plain.append(pdu.hex())
    if "esi" in c:
        r = do_decryptor_sniffer_way(c, air)
    else:
        r = do_decryptor({"keys": c["keys"], "mats": [c["mat"]], "pdus": air})
    r["air"] = air
    r["plain"] = plain
    return r


def do_multicapture(c):
    """several encrypted sessions (different LTK and/or SKD/IV) seen by ONE LinkLayerDecryptor.
    c = {"keys": [hex] registered up front, "way": "direct" | "sniffer",
         "sessions": [{"ltk", "mat", "esi": {"rand","ediv"}}], "events": [[session, d, plain pdu hex, captured]]}
    direct: every session's material is added up front (session order); sniffer: the cleartext LL_ENC_REQ /
    LL_ENC_RSP / LL_START_ENC_REQ of a session are sniffed just before its first PDU."""
    from whad.ble.crypto import EncryptedSessionInitialization
    from whad.ble.exceptions import MissingCryptographicMaterial
    from scapy.layers.bluetooth4LE import BTLE_CTRL, LL_ENC_REQ, LL_ENC_RSP, LL_START_ENC_REQ
    dec = LinkLayerDecryptor(*[bytes.fromhex(k) for k in c["keys"]])
    esi = EncryptedSessionInitialization()
    sess = []
    for s_ in c["sessions"]:
        sk, iv = ref_session(bytes.fromhex(s_["ltk"]), s_["mat"])
        sess.append({"sk": sk, "iv": iv, "cnt": {1: 0, 2: 0}, "started": False})
    if c["way"] == "direct":
        for s_ in c["sessions"]:
            dec.add_crypto_material(*s_["mat"])
    air, plain, sid, obs = [], [], [], []

    def sniff(raw_pdu, sink):
        pkt = BTLE(struct.pack("<I", 0x50655f3a) + raw_pdu + b"\x11\x22\x33")
        if c["way"] == "sniffer":
            esi.process_packet(pkt)
            if esi.encryption:
                dec.add_crypto_material(*esi.crypto_material)
                esi.reset()
        try:
            res, ok = dec.attempt_to_decrypt(pkt[BTLE])
        except MissingCryptographicMaterial:
            sink.append({"k": 3, "d": "MissingCryptographicMaterial"})
            return
        except Exception as e:  # noqa
            sink.append({"k": 3, "d": type(e).__name__})
            return
        if res is None:
            sink.append({"k": 0, "d": "", "ok": bool(ok)})
        else:
            try:
                sink.append({"k": 1, "d": bytes(res).hex(), "ok": bool(ok)})
            except Exception as e:  # noqa
                sink.append({"k": 3, "d": "build:" + type(e).__name__})

    for si, d, hx, captured in c["events"]:
        S, spec = sess[si], c["sessions"][si]
        if c["way"] == "sniffer" and not S["started"]:
            skdm, ivm, skds, ivs = spec["mat"]
            for p in (BTLE_DATA(LLID=3) / BTLE_CTRL() / LL_ENC_REQ(rand=spec["esi"]["rand"], ediv=spec["esi"]["ediv"], skdm=skdm, ivm=ivm),
                      BTLE_DATA(LLID=3) / BTLE_CTRL() / LL_ENC_RSP(skds=skds, ivs=ivs),
                      BTLE_DATA(LLID=3) / BTLE_CTRL() / LL_START_ENC_REQ()):
                sniff(bytes(p), [])
        S["started"] = True
        pdu = bytes.fromhex(hx)
        a = ref_encrypt(S["sk"], S["iv"], S["cnt"][d], d == 1, pdu)
        S["cnt"][d] += 1
        if captured:
            air.append(a.hex()); plain.append(hx); sid.append(si)
            sniff(a, obs)
    final = managers_of(dec)
    return {"obs": obs, "final": final, "air": air, "plain": plain, "sid": sid,
            "materials": [list(t) for t in zip(dec.master_skd, dec.master_iv, dec.slave_skd, dec.slave_iv)]}


def do_decryptor_sniffer_way(c, air):
    """Feed the material the way whad/ble/connector/sniffer.py does: the cleartext LL_ENC_REQ, LL_ENC_RSP and
    LL_START_ENC_REQ PDUs (dissected from bytes) go through EncryptedSessionInitialization; when it reports
    `encryption`, its crypto_material is handed to LinkLayerDecryptor.add_crypto_material; every data packet
    (the three setup PDUs included) is passed to attempt_to_decrypt, MissingCryptographicMaterial swallowed."""
    from whad.ble.crypto import EncryptedSessionInitialization
    from whad.ble.exceptions import MissingCryptographicMaterial
    from scapy.layers.bluetooth4LE import BTLE_CTRL, LL_ENC_REQ, LL_ENC_RSP, LL_START_ENC_REQ
    skdm, ivm, skds, ivs = c["mat"]
    setup = [BTLE_DATA(LLID=3) / BTLE_CTRL() / LL_ENC_REQ(rand=c["esi"]["rand"], ediv=c["esi"]["ediv"], skdm=skdm, ivm=ivm),
             BTLE_DATA(LLID=3) / BTLE_CTRL() / LL_ENC_RSP(skds=skds, ivs=ivs),
             BTLE_DATA(LLID=3) / BTLE_CTRL() / LL_START_ENC_REQ()]
    dec = LinkLayerDecryptor(*[bytes.fromhex(k) for k in c["keys"]])
    esi = EncryptedSessionInitialization()
    out, setup_obs = [], []
    def sniff(raw_pdu, sink):
        pkt = BTLE(struct.pack("<I", 0x50655f3a) + raw_pdu + b"\x11\x22\x33")
        esi.process_packet(pkt)
        if esi.encryption:
            dec.add_crypto_material(*esi.crypto_material)
            esi.reset()
        try:
            res, ok = dec.attempt_to_decrypt(pkt[BTLE])
        except MissingCryptographicMaterial:
            sink.append({"k": 3, "d": "MissingCryptographicMaterial"})
            return
        except Exception as e:  # noqa
            sink.append({"k": 3, "d": type(e).__name__})
            return
        if res is None:
            sink.append({"k": 0, "d": "", "ok": bool(ok)})
        else:
            sink.append({"k": 1, "d": bytes(res).hex(), "ok": bool(ok)})
    for p in setup:
        sniff(bytes(p), setup_obs)
    for hx in air:
        sniff(bytes.fromhex(hx), out)
    final = managers_of(dec)
    return {"obs": out, "final": final, "setup": setup_obs,
            "materials": [list(t) for t in zip(dec.master_skd, dec.master_iv, dec.slave_skd, dec.slave_iv)]}


# ---- the real LinkLayer of the BLE stack: encryption start procedure (session key handed to phy) ----
_STACK = {}


def stack_env():
    """lazy: scapy/stack imports are slow and only needed for stack cases"""
    if _STACK:
        return _STACK
    from scapy.layers.bluetooth4LE import BTLE_CTRL, LL_ENC_REQ, LL_ENC_RSP, LL_START_ENC_REQ, LL_REJECT_IND
    from whad.common.stack import alias
    from whad.common.stack.tests import Sandbox
    from whad.ble.stack.constants import BtVersion
    import whad.ble.stack.llm as llm_mod

    @alias('phy')
    class Phy(Sandbox):
        """mock PHY recording what the link layer asks the controller to do"""
        def __init__(self, *a, **kw):
            super().__init__(*a, **kw)
            self.enc_calls = []
        @property
        def bt_version(self): return BtVersion(4, 0)
        @property
        def manufacturer_id(self): return 2
        @property
        def bt_sub_version(self): return 0x100
        def set_encryption(self, **kwargs):
            self.enc_calls.append(kwargs)
            return True
    Phy.add(llm_mod.LinkLayer)
    queue = []
    def fake_randint(a, b):
        return queue.pop(0)
    llm_mod.randint = fake_randint        # SKD / IV drawn by the stack become inputs of the case
    _STACK.update(Phy=Phy, queue=queue, BTLE_CTRL=BTLE_CTRL, LL_ENC_REQ=LL_ENC_REQ, LL_ENC_RSP=LL_ENC_RSP,
                  LL_START_ENC_REQ=LL_START_ENC_REQ, LL_REJECT_IND=LL_REJECT_IND)
    return _STACK


def ref_e(key, mat4):
    """independent e(LTK, SKDs||SKDm) and IVm||IVs (Cryptodome called directly)"""
    try:
        sk, iv = ref_session(key, mat4)
        return sk.hex(), iv.hex()
    except Exception:  # noqa
        return None, None


def do_stack(c):
    env = stack_env()
    phy = env["Phy"]()
    ll = phy.get_layer('ll')
    from whad.hub.ble.bdaddr import BDAddress
    a1, a2 = BDAddress('11:22:33:44:55:66'), BDAddress('66:55:44:33:22:11')
    for h in c["handles"]:
        ll.state.register_connection(h, None, a1, a2)     # no L2CAP instance: only the link layer is driven
    out = []
    for ev in c["events"]:
        phy.messages.clear()
        phy.enc_calls.clear()
        del env["queue"][:]
        try:
            if ev[0] == "reg":
                ll.state.register_encryption_key(ev[1], None if ev[2] is None else bytes.fromhex(ev[2]))
            elif ev[0] == "start":
                env["queue"].extend([ev[4], ev[5]])
                ll.start_encryption(ev[1], ev[2], ev[3])
            elif ev[0] == "encrsp":
                phy.send('ll', BTLE_DATA() / env["BTLE_CTRL"]() / env["LL_ENC_RSP"](skds=ev[2], ivs=ev[3]),
                         tag='control', conn_handle=ev[1])
            elif ev[0] == "startencreq":
                phy.send('ll', BTLE_DATA() / env["BTLE_CTRL"]() / env["LL_START_ENC_REQ"](),
                         tag='control', conn_handle=ev[1])
            elif ev[0] == "conn":
                ll.state.register_connection(ev[1], None, a1, a2)
            elif ev[0] == "disc":
                ll.on_disconnect(ev[1])
            elif ev[0] == "encreq":
                env["queue"].extend([ev[6], ev[7]])
                phy.send('ll', BTLE_DATA() / env["BTLE_CTRL"]() / env["LL_ENC_REQ"](rand=ev[2], ediv=ev[3], skdm=ev[4], ivm=ev[5]),
                         tag='control', conn_handle=ev[1])
        except Exception as e:  # noqa
            out.append({"k": "exc", "d": type(e).__name__})
            continue
        calls = [{"conn": k.get("conn_handle"), "enabled": bool(k.get("enabled")), "ll_key": bytes(k["ll_key"]).hex(),
                  "ll_iv": bytes(k["ll_iv"]).hex(), "key": bytes(k["key"]).hex(), "rand": k.get("rand"), "ediv": k.get("ediv")}
                 for k in phy.enc_calls]
        sent = []
        for m in phy.messages:
            if m.destination == 'phy' and hasattr(m.data, "haslayer"):
                if m.data.haslayer(env["LL_REJECT_IND"]):
                    sent.append("reject")
                elif m.data.haslayer(env["LL_ENC_REQ"]):
                    q = m.data[env["LL_ENC_REQ"]]
                    sent.append(["enc_req", q.rand, q.ediv, q.skdm, q.ivm])
                elif m.data.haslayer(env["LL_ENC_RSP"]):
                    q = m.data[env["LL_ENC_RSP"]]
                    sent.append(["enc_rsp", q.skds, q.ivs])
        if len(calls) == 1:
            out.append({"k": "setenc", "call": calls[0], "sent": sent})
        elif calls:
            out.append({"k": "multi", "calls": calls, "sent": sent})
        elif "reject" in sent:
            out.append({"k": "reject", "sent": sent})
        else:
            out.append({"k": "none", "sent": sent})
    # independent expectation for each procedure named by the case
    exp = []
    for p in c.get("procs", []):
        k, iv = ref_e(bytes.fromhex(p["key"]), [p["skdm"], p["ivm"], p["skds"], p["ivs"]])
        exp.append({"ll_key": k, "ll_iv": iv})
    return {"out": out, "ref": exp}


def guarded(f, c):
    try:
        return f(c)
    except Exception as e:  # noqa  (an exception escaping the code under test is an observation)
        return {"exc": type(e).__name__}


def main():
    req = json.load(sys.stdin)
    res = {"mgr": [do_mgr(c) for c in req.get("mgr", [])],
           "dec": [guarded(do_decryptor, c) for c in req.get("dec", [])],
           "sweep": [guarded(do_sweep, c) for c in req.get("sweep", [])],
           "pair": [guarded(do_pair, c) for c in req.get("pair", [])],
           "link": [guarded(do_link, c) for c in req.get("link", [])],
           "capture": [guarded(do_capture, c) for c in req.get("capture", [])],
           "stack": [guarded(do_stack, c) for c in req.get("stack", [])],
           "multicapture": [guarded(do_multicapture, c) for c in req.get("multicapture", [])]}
    print("RESULT " + json.dumps(res))


main()
