"""C17 implementation driver: runs the real Zigbee frame security code.

stdin JSON:
 {"crypt": [ {"mgr": "nwk"|"aps", "frame": hex (802.15.4 frame without FCS),
              "set": null | {"data": hex, "mic": hex},      # stack-built convention: fields overridden after dissection
              "steps": [ {"op": "enc"|"dec", "key": hex, "inp": null|int,
                          "via": "obj"|"bytes", "flip": null|int} ... ] } ... ],
  "nwk":   [ {"level": int, "all_fresh": bool, "secure_all": bool, "keys": [[hex, seq], ...],
              "frames": [hex (802.15.4 frame without FCS) ...]} ... ],
  "hash":  [ ["hash", hex] | ["hash_key", hex, int] ... ],
  "aps_data": [ {...} ]   (probe of APSDataService.data secured path; optional)}

stdout: RESULT {"crypt": [[step result...]...], "nwk": [...], "hash": [hex|{"exc":..}...]}
 step result = {"in": dissection, "exc": cls} | {"in": dissection, "status": bool, "out": dissection}
 dissection  = {"pre": hex, "res": int, "ext": int, "kt": int, "lvl": int, "fc": int, "src": hex(8, as on the wire)|null,
                "kseq": int|null, "data": hex, "mic": hex, "raw": hex (raw of the base layer)}
"""
import sys, json, logging
logging.disable(logging.CRITICAL)
from scapy.config import conf
from scapy.compat import raw
from scapy.layers.dot15d4 import Dot15d4, Dot15d4Data
from scapy.layers.zigbee import ZigbeeSecurityHeader, ZigbeeNWK, ZigbeeAppDataPayload
import whad.zigbee.crypto as zc
from whad.zigbee.crypto import NetworkLayerCryptoManager, ApplicationSubLayerCryptoManager

conf.dot15d4_protocol = "zigbee"
BASE = {"nwk": ZigbeeNWK, "aps": ZigbeeAppDataPayload}


def dis(pkt, base):
    """Canonical dissection of the secured part of a packet as the crypto manager sees it."""
    if ZigbeeSecurityHeader not in pkt or base not in pkt:
        return {"nosec": True, "raw": raw(pkt).hex()}
    sh = pkt[ZigbeeSecurityHeader]
    if sh.underlayer.__class__ is not base:       # e.g. an APS security header inside an unsecured NWK frame
        return {"nosec": True, "other_sec": True, "raw": raw(pkt).hex()}
    braw = raw(pkt[base])
    sraw = raw(sh)
    src = sh.source
    return {"pre": braw[:len(braw) - len(sraw)].hex(),
            "res": int(sh.reserved1), "ext": int(sh.extended_nonce), "kt": int(sh.key_type),
            "lvl": int(sh.nwk_seclevel), "fc": int(sh.fc),
            "src": None if src is None else int(src).to_bytes(8, "little").hex(),
            "kseq": None if sh.key_seqnum is None else int(sh.key_seqnum),
            "data": bytes(sh.data).hex(), "mic": bytes(sh.mic).hex(),
            "tail": raw(sh.payload).hex(), "raw": braw.hex()}


def mk_mgr(kind, key, inp):
    if kind == "nwk":
        return NetworkLayerCryptoManager(key)
    return ApplicationSubLayerCryptoManager(key, inp)


def do_crypt(case):
    kind = case["mgr"]
    base = BASE[kind]
    cur_bytes = bytes.fromhex(case["frame"])
    cur_obj = None
    if case.get("set") is not None:
        cur_obj = Dot15d4(cur_bytes)
        cur_obj[ZigbeeSecurityHeader].data = bytes.fromhex(case["set"]["data"])
        cur_obj[ZigbeeSecurityHeader].mic = bytes.fromhex(case["set"]["mic"])
    out = []
    mgr = None
    for st in case["steps"]:
        key = bytes.fromhex(st["key"])
        if mgr is None or not st.get("reuse"):
            try:
                mgr = mk_mgr(kind, key, st.get("inp"))
            except Exception as e:  # noqa
                out.append({"exc": type(e).__name__, "where": "manager"})
                break
        res = {"key_used": bytes(mgr.key).hex()}
        if st["via"] == "bytes" or cur_obj is None:
            b = raw(cur_obj) if cur_obj is not None else cur_bytes
            if st.get("flip") is not None:
                probe = Dot15d4(b)
                off = len(b) - len(raw(probe[base])) if base in probe else 0
                i = off + st["flip"] // 8
                if i < len(b):
                    b = b[:i] + bytes([b[i] ^ (1 << (st["flip"] % 8))]) + b[i + 1:]
            arg = b
            res["in"] = dis(Dot15d4(b), base)
        else:
            arg = cur_obj
            res["in"] = dis(cur_obj, base)
        try:
            if st["op"] == "enc":
                pkt = mgr.encrypt(arg)
                res["status"] = None
            else:
                pkt, status = mgr.decrypt(arg)
                res["status"] = bool(status)
            res["out"] = dis(pkt, base)
            res["out_frame"] = raw(pkt).hex()
            cur_obj = pkt
        except Exception as e:  # noqa
            res["exc"] = type(e).__name__
            out.append(res)
            break
        out.append(res)
    return out


def do_ring(q):
    """ZigbeeDecryptor(*keys).attempt_to_decrypt on ONE packet object.  q = {"keys": [hex], "frame": hex, "mgr": "nwk"|"aps"}"""
    from whad.zigbee.crypto import ZigbeeDecryptor
    pkt = Dot15d4(bytes.fromhex(q["frame"]))
    before = raw(pkt).hex()
    try:
        res, ok = ZigbeeDecryptor(*[bytes.fromhex(k) for k in q["keys"]]).attempt_to_decrypt(pkt)
    except Exception as e:  # noqa
        return {"exc": type(e).__name__}
    r = {"success": bool(ok), "object_after": raw(pkt).hex(), "object_before": before, "in": dis(Dot15d4(bytes.fromhex(q["frame"])), BASE[q["mgr"]])}
    if ok:
        r["data"] = raw(res).hex() if hasattr(res, "build") else bytes(res).hex()
        if ZigbeeSecurityHeader in pkt:
            r["object_data"] = bytes(pkt[ZigbeeSecurityHeader].data).hex()
    return r


def do_seq(q):
    """ONE manager instance, a sequence of independent calls.
    q = {"mgr", "key", "inp", "calls": [{"op": "enc"|"dec", "frame": hex, "set": null|{...}, "via": "obj"|"bytes"}]}"""
    kind = q["mgr"]
    base = BASE[kind]
    try:
        mgr = mk_mgr(kind, bytes.fromhex(q["key"]), q.get("inp"))
    except Exception as e:  # noqa
        return [{"exc": type(e).__name__, "where": "manager"}]
    out = []
    for c in q["calls"]:
        b = bytes.fromhex(c["frame"])
        res = {"key_used": bytes(mgr.key).hex()}
        if c["via"] == "obj" or c.get("set") is not None:
            arg = Dot15d4(b)
            if c.get("set") is not None:
                arg[ZigbeeSecurityHeader].data = bytes.fromhex(c["set"]["data"])
                arg[ZigbeeSecurityHeader].mic = bytes.fromhex(c["set"]["mic"])
            res["in"] = dis(arg, base)
        else:
            arg = b
            res["in"] = dis(Dot15d4(b), base)
        try:
            if c["op"] == "enc":
                pkt = mgr.encrypt(arg)
                res["status"] = None
            else:
                pkt, status = mgr.decrypt(arg)
                res["status"] = bool(status)
            res["out"] = dis(pkt, base)
            res["out_frame"] = raw(pkt).hex()
        except Exception as e:  # noqa
            res["exc"] = type(e).__name__
        res["patched_after"] = bool(mgr.patched)
        out.append(res)
    return out


# ---------------------------------------------------------------------------
# NWK manager histories (real NWKManager inside a Sandbox playing the MAC layer)
# ---------------------------------------------------------------------------
_NWK = {}

def nwk_classes():
    if _NWK:
        return _NWK
    from whad.common.stack import alias
    from whad.common.stack.tests import Sandbox
    from whad.zigbee.stack.nwk import NWKManager
    from whad.zigbee.stack.aps import APSManager
    NWKManager.remove(APSManager)

    @alias('mac')
    class MAC(Sandbox):
        pass
    MAC.add(NWKManager)
    _NWK["MAC"] = MAC
    return _NWK


def do_nwk(h):
    MAC = nwk_classes()["MAC"]
    m = MAC()
    nwk = m.get_layer('nwk')
    db = nwk.database
    for k, seq in h["keys"]:
        nwk.add_key(bytes.fromhex(k), key_sequence_number=seq)
    db.set("nwkSecurityLevel", h["level"])
    db.set("nwkAllFresh", bool(h["all_fresh"]))
    db.set("nwkSecureAllFrames", bool(h["secure_all"]))
    got = []
    def rec(kind):
        def f(npdu, *a, **k):
            d = {"svc": kind, "raw": raw(npdu).hex()}
            if ZigbeeSecurityHeader in npdu and npdu[ZigbeeSecurityHeader].underlayer.__class__ is ZigbeeNWK:
                d["sec"] = True
                d["dis"] = dis(npdu, ZigbeeNWK)
            else:
                d["sec"] = False
            got.append(d)
        return f
    nwk.get_service("data").on_data_npdu = rec("data")
    nwk.get_service("management").on_command_npdu = rec("management")
    nwk.get_service("interpan").on_interpan_npdu = rec("interpan")
    def snapshot():
        return {"active": int(db.get("nwkActiveKeySeqNumber")),
                "ktables": [[mat.key_sequence_number, bytes(mat.key).hex(),
                             sorted([[int(a).to_bytes(8, "little").hex() if a is not None else None, int(c)]
                                     for a, c in mat.incoming_frame_counters.items()], key=lambda x: str(x[0]))]
                            for mat in db.get("nwkSecurityMaterialSet")]}
    steps = []
    for fh in h["frames"]:
        if isinstance(fh, dict):        # management operation between two PDUs
            r = {"mgmt": fh["mgmt"]}
            try:
                if fh["mgmt"] == "add_key":
                    nwk.add_key(bytes.fromhex(fh["key"]), key_sequence_number=fh["seq"])
                elif fh["mgmt"] == "set_active":
                    db.set("nwkActiveKeySeqNumber", fh["seq"])
                elif fh["mgmt"] == "clear_keys":
                    # NLME-RESET (cold) does database.reset() after the MAC confirm; the receive configuration is then set again
                    keep = {a: db.get(a) for a in ("nwkSecurityLevel", "nwkAllFresh", "nwkSecureAllFrames", "nwkActiveKeySeqNumber")}
                    if fh.get("how") == "set":
                        db.set("nwkSecurityMaterialSet", [])          # NLME-SET of the attribute
                    else:
                        db.reset()
                        for a, v in keep.items():
                            db.set(a, v)
                elif fh["mgmt"] == "remove_key":
                    mats = db.get("nwkSecurityMaterialSet")
                    for mat in list(mats):
                        if mat.key == bytes.fromhex(fh["key"]):
                            mats.remove(mat)
                            break
                    db.set("nwkSecurityMaterialSet", mats)
            except Exception as e:  # noqa
                r["exc"] = type(e).__name__
            r["up"] = []
            r.update(snapshot())
            steps.append(r)
            continue
        got.clear()
        pdu = Dot15d4(bytes.fromhex(fh))
        payload = pdu[Dot15d4Data].payload if Dot15d4Data in pdu else pdu.payload
        r = {"in": dis(pdu, ZigbeeNWK) if ZigbeeNWK in pdu else {"nosec": True},
             "in_raw": raw(payload).hex()}
        try:
            if h.get("direct"):
                nwk.on_mcps_data(payload, 0x1234, 0, 0x1234, 1, 255)
            else:
                m.send('nwk', payload, tag='MCPS-DATA', destination_pan_id=0x1234, destination_address=0,
                       source_pan_id=0x1234, source_address=1, link_quality=255)
        except Exception as e:  # noqa
            r["exc"] = type(e).__name__
        r["up"] = list(got)
        tables = []
        for mat in db.get("nwkSecurityMaterialSet"):
            tables.append([mat.key_sequence_number,
                           sorted([[int(a).to_bytes(8, "little").hex() if a is not None else None, int(c)]
                                   for a, c in mat.incoming_frame_counters.items()], key=lambda x: str(x[0]))])
        r["tables"] = tables
        r.update(snapshot())
        steps.append(r)
    return steps


# ---------------------------------------------------------------------------
# APSDataService.data with security_enabled_transmission (real service, Sandbox as NWK layer)
# ---------------------------------------------------------------------------
_APS = {}

def do_aps_data(c):
    if not _APS:
        from whad.common.stack import alias
        from whad.common.stack.tests import Sandbox
        from whad.zigbee.stack.aps import APSManager
        from whad.zigbee.stack.apl import APLManager
        APSManager.remove(APLManager)

        @alias('nwk')
        class NWKBox(Sandbox):
            pass
        NWKBox.add(APSManager)
        _APS["box"] = NWKBox
    from whad.zigbee.stack.aps.constants import APSDestinationAddressMode
    n = _APS["box"]()
    svc = n.get_layer('aps').get_service("data")
    try:
        svc.data(bytes.fromhex(c["asdu"]), APSDestinationAddressMode.SHORT_ADDRESS_DST_ENDPOINT_PRESENT, c.get("dst", 0x1234),
                 c.get("dst_ep", 1), c.get("profile", 0x0104), c.get("cluster", 6), c.get("src_ep", 1),
                 security_enabled_transmission=bool(c["secured"]))
    except Exception as e:  # noqa
        import traceback
        tb = traceback.extract_tb(e.__traceback__)
        inner = [t for t in tb if "/whad/" in t.filename]
        return {"exc": type(e).__name__, "where": "%s:%s" % (inner[-1].filename.split("/whad/")[-1], inner[-1].name) if inner else ""}
    return {"sent": [[m.destination, m.tag, raw(m.data).hex() if hasattr(m.data, "build") else bytes(m.data).hex()] for m in n.messages
                     if m.destination != 'aps']}


# ---------------------------------------------------------------------------
# APS receive histories (real APSManager inside a Sandbox playing the NWK layer)
# ---------------------------------------------------------------------------
class _NwkDb:
    def __init__(self, amap):
        self.amap = amap
    def get(self, name):
        if name == "nwkAddressMap":
            return self.amap
        return None


def do_aps(h):
    if "box2" not in _APS:
        from whad.common.stack import alias
        from whad.common.stack.tests import Sandbox
        from whad.zigbee.stack.aps import APSManager
        from whad.zigbee.stack.apl import APLManager
        APSManager.remove(APLManager)

        @alias('nwk')
        class NWKBox2(Sandbox):
            database = None
        NWKBox2.add(APSManager)
        _APS["box2"] = NWKBox2
    from whad.zigbee.stack.aps.security import APSKeyPair
    from whad.zigbee.stack.nwk.constants import NWKAddressMode
    n = _APS["box2"]()
    n.database = _NwkDb({int.from_bytes(bytes.fromhex(a), "little"): short for a, short in h["map"]})
    aps = n.get_layer('aps')
    aps.database.get("apsDeviceKeyPairSet").key_pair_set = [APSKeyPair(addr, bytes.fromhex(k)) for addr, k in h["kps"]]
    got = []
    def rec(kind):
        def f(apdu, *a, **k):
            d = {"svc": kind, "raw": raw(apdu).hex()}
            if ZigbeeSecurityHeader in apdu and apdu[ZigbeeSecurityHeader].underlayer.__class__ is ZigbeeAppDataPayload:
                d["sec"] = True
                d["dis"] = dis(apdu, ZigbeeAppDataPayload)
            else:
                d["sec"] = False
            got.append(d)
        return f
    aps.get_service("data").on_data_apdu = rec("data")
    aps.get_service("management").on_command_apdu = rec("management")
    steps = []
    for fh in h["frames"]:
        got.clear()
        pdu = Dot15d4(bytes.fromhex(fh))
        r = {}
        if ZigbeeAppDataPayload not in pdu:
            r["skip"] = True
            steps.append(r)
            continue
        nsdu = pdu[ZigbeeAppDataPayload]
        r["in"] = dis(pdu, ZigbeeAppDataPayload)
        r["in_raw"] = raw(nsdu).hex()
        try:
            n.send('aps', nsdu, tag='NLDE-DATA', destination_address_mode=NWKAddressMode.UNICAST, destination_address=0,
                   source_address=1, security_use=False, link_quality=255)
        except Exception as e:  # noqa
            r["exc"] = type(e).__name__
        r["up"] = list(got)
        r["counters"] = [[kp.device_address, int(kp.incoming_frame_counter)] for kp in aps.database.get("apsDeviceKeyPairSet").key_pair_set]
        steps.append(r)
    return steps


def do_hash(c):
    try:
        if c[0] == "hash":
            return zc.hash(bytes.fromhex(c[1])).hex()
        return zc.hash_key(bytes.fromhex(c[1]), c[2]).hex()
    except Exception as e:  # noqa
        return {"exc": type(e).__name__}


def main():
    req = json.load(sys.stdin)
    res = {"crypt": [do_crypt(c) for c in req.get("crypt", [])],
           "nwk": [do_nwk(h) for h in req.get("nwk", [])],
           "hash": [do_hash(c) for c in req.get("hash", [])],
           "aps_data": [do_aps_data(c) for c in req.get("aps_data", [])],
           "aps": [do_aps(h) for h in req.get("aps", [])],
           "seq": [do_seq(q) for q in req.get("seq", [])],
           "ring": [do_ring(q) for q in req.get("ring", [])]}
    print("RESULT " + json.dumps(res))

main()
