"""Cooperative forced-schedule harness for whad.device.{device,connector,bridge} (C04/C05).

No source hook: the names `Queue`, `Lock`, `time` in the namespaces of
whad.device.device and whad.device.connector are replaced by the wrappers below, and
`sys.settrace`/`threading.settrace` opcode events on the functions of those modules turn
every LOAD_ATTR/STORE_ATTR of a watched shared attribute into a yield point.

A *managed thread* is a real Python thread that only runs while it holds the baton.
It is always parked AT a yield point, i.e. just before one shared access (label).
`Sched.step(name)` hands the baton to that thread: it performs the pending access (or
stutters if the access is blocked: `get` on an empty queue before its deadline,
`acquire` of a held lock, `read` on a silent device) and runs up to its next yield point.
`Sched.tick()` advances the virtual clock.  Nothing ever sleeps on real time; the
driver has a global watchdog.
"""
import sys, threading, dis, collections, queue as _realq

REAL_THREAD_START = threading.Thread.start
Empty = _realq.Empty


class Kill(BaseException):
    """Raised inside managed threads at teardown."""


class TState:
    def __init__(self, name):
        self.name = name
        self.sem = threading.Semaphore(0)
        self.started = threading.Event()
        self.done = False
        self.label = "start"
        self.enabled = lambda: True
        self.steps = 0
        self.exc = None
        self.timed = False
        self.first = True


class Sched:
    def __init__(self, watchdog=20.0):
        self.threads = collections.OrderedDict()
        self.by_ident = {}
        self.clock = 0
        self.parked = threading.Semaphore(0)
        self.killed = False
        self.trace = []          # (thread, label, 'run'|'stutter')
        self.record = False
        self.watchdog = watchdog
        self.namer = None        # callable(thread_obj) -> name or None (unmanaged)
        self.current = None

    # ---- thread side ---------------------------------------------------------
    def me(self):
        return self.by_ident.get(threading.get_ident())

    def yield_point(self, label, enabled=None, timed=False, first=True):
        """Park the calling managed thread before a shared access."""
        ts = self.me()
        if ts is None:
            return            # unmanaged thread (scheduler itself during setup)
        if self.killed:
            raise Kill()
        ts.label = label
        ts.enabled = enabled or (lambda: True)
        ts.timed = timed      # waiting with a timeout (the clock can unblock it)
        ts.first = first      # first attempt of this operation (not a retry after a stutter)
        if not ts.started.is_set():
            ts.started.set()          # first park: the creator is waiting for it
        else:
            self.parked.release()     # tell the scheduler the step is over
        if not ts.sem.acquire(timeout=self.watchdog):
            raise Kill()
        if self.killed:
            raise Kill()
        ts.steps += 1

    # ---- creation ---------------------------------------------------------------
    def spawn(self, name, fn):
        """Create a managed thread running fn() (the application / caller thread)."""
        t = threading.Thread(target=fn, daemon=True)
        t._c04_name = name
        t.start()                     # patched start: registers + waits for first park
        return self.threads[name]

    def _patched_start(self, thread):
        name = getattr(thread, "_c04_name", None) or (self.namer(thread) if self.namer else None)
        if name is None:
            return REAL_THREAD_START(thread)
        ts = TState(name)
        assert name not in self.threads, "duplicate thread name " + name
        self.threads[name] = ts
        orig_run = thread.run
        sched = self

        def run():
            sched.by_ident[threading.get_ident()] = ts
            sys.settrace(global_trace)
            try:
                try:
                    orig_run()
                except Kill:
                    pass
                except BaseException as e:      # noqa
                    ts.exc = e
            finally:
                sys.settrace(None)
                ts.done = True
                ts.label = "done"
                if not ts.started.is_set():
                    ts.started.set()
                else:
                    sched.parked.release()
        thread.run = run
        thread.daemon = True
        REAL_THREAD_START(thread)
        if not ts.started.wait(self.watchdog):
            raise RuntimeError("thread %s never reached a yield point" % name)

    # ---- scheduler side ------------------------------------------------------------
    def step(self, name):
        ts = self.threads.get(name)
        if ts is None or ts.done:
            return "absent"
        lab = ts.label
        was_enabled = ts.enabled()
        self.current = name
        ts.sem.release()
        if not self.parked.acquire(timeout=self.watchdog):
            raise RuntimeError("watchdog: thread %s did not come back from %s" % (name, lab))
        self.current = None
        if self.record:
            self.trace.append((name, lab, "run" if was_enabled else "stutter"))
        return lab

    def tick(self, n=1):
        self.clock += n
        if self.record:
            self.trace.append(("T", "tick", "run"))

    def enabled(self, name):
        ts = self.threads.get(name)
        return bool(ts) and not ts.done and ts.enabled()

    def kill(self):
        self.killed = True
        for ts in self.threads.values():
            if not ts.done:
                ts.sem.release()
        # give them a moment to unwind; they are daemons anyway
        for ts in self.threads.values():
            for _ in range(200):
                if ts.done:
                    break
                threading.Event().wait(0.001)


SCHED = None          # the scheduler of the case being run


def cur():
    return SCHED


# ---------------------------------------------------------------------------------
# Replacements for Queue / Lock / time
# ---------------------------------------------------------------------------------

class _Deque:
    """The `.queue` attribute of a VQueue: `clear()` is a yield point of its own
    (Connector.lock / enable_synchronous clear the deque directly)."""
    def __init__(self, owner):
        self.owner = owner
        self.d = collections.deque()

    def clear(self):
        self.owner._y("clear")
        self.owner.cleared += list(self.d)     # observation only: what an explicit clear discards
        self.d.clear()

    def __len__(self):
        return len(self.d)

    def __iter__(self):
        return iter(self.d)


class _NoYieldMutex:
    """Queue.mutex: taken only by Connector.lock() around queue.clear(); VQueue operations
    are atomic by construction, so the critical section is the single `clear` step."""
    def __enter__(self):
        return self

    def __exit__(self, *a):
        return False


class VQueue:
    """queue.Queue look-alike; put/get/empty are yield points; virtual-clock timeouts."""
    _count = 0

    def __init__(self, maxsize=0):
        self.queue = _Deque(self)
        self.maxsize = maxsize       # a bounded queue: put() blocks while it is full
        self.cleared = []
        self.mutex = _NoYieldMutex()
        self.name = "q%d" % VQueue._count
        VQueue._count += 1
        self.yielding = True

    def items(self):
        return list(self.queue.d)

    def _y(self, label, enabled=None):
        s = SCHED
        if s is not None and self.yielding:
            s.yield_point(self.name + "." + label, enabled)

    def put(self, item, block=True, timeout=None):
        s = SCHED
        d = self.queue.d
        full = lambda: self.maxsize > 0 and len(d) >= self.maxsize
        if s is None or s.me() is None or not self.yielding:
            if full():
                raise _realq.Full
            d.append(item)
            return
        while True:
            s.yield_point(self.name + ".put", lambda: not full())
            if not full():
                d.append(item)
                return
            if not block:
                raise _realq.Full
            # blocked on a full bounded queue: stutter (for ever if nobody drains it)

    def get(self, block=True, timeout=None):
        s = SCHED
        d = self.queue.d
        if s is None or s.me() is None or not self.yielding:
            if d:
                return d.popleft()
            raise Empty
        state = {"deadline": None}

        def en():
            if d or not block:
                return True
            if timeout is None:
                return False
            return state["deadline"] is None or s.clock >= state["deadline"]
        attempt = 0
        while True:
            s.yield_point(self.name + ".get", en, timed=(block and timeout is not None), first=(attempt == 0))
            attempt += 1
            if d:
                return d.popleft()
            if not block:
                raise Empty
            if timeout is not None:
                if state["deadline"] is None:
                    state["deadline"] = s.clock + timeout
                    continue                    # the step that starts the wait
                if s.clock >= state["deadline"]:
                    raise Empty
            # blocked: stutter

    def empty(self):
        self._y("empty")
        return not self.queue.d

    def qsize(self):
        self._y("qsize")
        return len(self.queue.d)

    def task_done(self):
        pass

    def join(self):
        pass

    def put_nowait(self, item):
        self.put(item, block=False)

    def get_nowait(self):
        return self.get(block=False)


class VLock:
    _count = 0

    def __init__(self):
        self.held = False
        self.name = "l%d" % VLock._count
        VLock._count += 1
        self.yielding = True

    def acquire(self, blocking=True, timeout=-1):
        s = SCHED
        if s is None or s.me() is None or not self.yielding:
            assert not self.held, "unmanaged acquire of a held lock " + self.name
            self.held = True
            return True
        while True:
            s.yield_point(self.name + ".acq", lambda: not self.held)
            if not self.held:
                self.held = True
                return True
            if not blocking:
                return False

    def release(self):
        s = SCHED
        if s is not None and self.yielding:
            s.yield_point(self.name + ".rel")
        self.held = False

    def locked(self):
        return self.held

    __enter__ = acquire

    def __exit__(self, *a):
        self.release()


def vtime():
    s = SCHED
    if s is None:
        return 0.0
    s.yield_point("time")
    return float(s.clock)


# ---------------------------------------------------------------------------------
# Opcode tracing: watched attribute loads / stores are yield points
# ---------------------------------------------------------------------------------

WATCH = set()
OPINFO = {}        # code object -> {offset: label}


def watch_code(code, attrs, prefix=""):
    tab = {}
    for ins in dis.get_instructions(code):
        if ins.opname in ("LOAD_ATTR", "STORE_ATTR", "LOAD_METHOD") and ins.argval in attrs:
            kind = "store" if ins.opname == "STORE_ATTR" else "load"
            tab[ins.offset] = "%s %s @%s:%s" % (kind, ins.argval.split("__")[-1], prefix + code.co_name,
                                                ins.positions.lineno if ins.positions else "?")
    if tab:
        OPINFO[code] = tab


def watch_class(cls, attrs):
    for name, obj in vars(cls).items():
        fns = []
        if isinstance(obj, property):
            fns = [f for f in (obj.fget, obj.fset) if f]
        elif isinstance(obj, (staticmethod, classmethod)):
            fns = [obj.__func__]
        elif callable(obj) and hasattr(obj, "__code__"):
            fns = [obj]
        for f in fns:
            f = getattr(f, "__wrapped__", f)
            if hasattr(f, "__code__"):
                watch_code(f.__code__, attrs, cls.__name__ + ".")


def global_trace(frame, event, arg):
    # sys.settrace fallback (Python < 3.12); unused when sys.monitoring is available
    if USE_MONITORING:
        return None
    if frame.f_code in OPINFO:
        frame.f_trace_opcodes = True
        frame.f_trace_lines = False
        return local_trace
    return None


def local_trace(frame, event, arg):
    if event == "opcode":
        lab = OPINFO[frame.f_code].get(frame.f_lasti)
        if lab is not None:
            s = SCHED
            if s is not None:
                s.yield_point(lab)
    return local_trace


USE_MONITORING = hasattr(sys, "monitoring")
TOOL_ID = 3


def _on_instruction(code, offset):
    tab = OPINFO.get(code)
    if tab is not None:
        lab = tab.get(offset)
        if lab is not None:
            s = SCHED
            if s is not None:
                s.yield_point(lab)


def _enable_monitoring():
    """Python 3.12: sys.settrace opcode events are only delivered from the SECOND call of a
    code object on (instrumentation is installed lazily); sys.monitoring INSTRUCTION events,
    the mechanism underneath settrace, are used directly instead."""
    mon = sys.monitoring
    if mon.get_tool(TOOL_ID) is None:
        mon.use_tool_id(TOOL_ID, "verif-c04")
        mon.register_callback(TOOL_ID, mon.events.INSTRUCTION, _on_instruction)
    for code in OPINFO:
        mon.set_local_events(TOOL_ID, code, mon.events.INSTRUCTION)


def install():
    """Patch the module namespaces once per process."""
    import whad.device.device as D
    import whad.device.connector as K
    import whad.device.bridge as B
    for mod in (D, K):
        mod.Queue = VQueue
        mod.Lock = VLock
        mod.time = vtime
        mod.Empty = Empty
    def start(self):
        s = SCHED
        if s is None:
            return REAL_THREAD_START(self)
        return s._patched_start(self)
    threading.Thread.start = start
    threading.excepthook = lambda args: None
    dev_attrs = {"_Device__connector", "_Device__msg_filter", "_Device__opened"}
    con_attrs = {"_Connector__locked", "_Connector__sync_mode"}
    watch_class(D.Device, dev_attrs)
    watch_class(D.VirtualDevice, dev_attrs)
    watch_class(K.Connector, con_attrs)
    watch_class(K.LockedConnector, con_attrs)
    if USE_MONITORING:
        _enable_monitoring()
    return D, K, B


def new_sched(**kw):
    global SCHED
    VQueue._count = 0
    VLock._count = 0
    SCHED = Sched(**kw)
    return SCHED


def drop_sched():
    global SCHED
    if SCHED is not None:
        SCHED.kill()
    SCHED = None
