"""C15 implementation driver: runs the real whad.ble.profile.advdata code.

stdin JSON (all keys optional):
  {"parse": [hex, ...],                      AdvDataFieldList.from_bytes(bytes)
   "build": [[call, ...], ...],              constructors, AdvDataFieldList(*recs).to_bytes(), from_bytes of it
   "scan":  [[kind, hex], ...],              AdvertisingDevicesDB.on_device_found on an ADV_IND/NONCONN/SCAN_RSP
   "seq":   [{"filter": id|null, "updates": bool, "events": [[dt_ms, pdu, addr id, txadd, rssi, hex], ...]}, ...]
                                             one AdvertisingDevicesDB per case, on_device_found per event; the name `time`
                                             of whad.ble.scanning is a virtual clock advanced by dt_ms before each call
   "api":   [[["parse", hex] | ["build", [call..]] | ["add", i, call] | ["remove", i, j]
               | ["set", i, j, "name"|"company"|"data", hex|int] | ["ser", i] | ["reparse", i], ...], ...]
                                             operation sequences in ONE process: lists[i] = i-th successful parse,
                                             lists[i][j].<attr> = value through the public setter, lists[i].to_bytes()
   "exh":   {"len": 3, "lo": a, "hi": b},    exhaustive oracle on all strings of that length whose first byte is in [a,b)
   "utf8":  {"rows": bool, "decode": [hex, ...], "encode": [[cp, ...], ...]}}   CPython codec facts
stdout: RESULT {...} (canonical observables only: ints, hex, class names).

A record object is observed as [class id, .type, exposed values, to_bytes().hex()] where
class id = the EIR_HANDLERS key of its class (the handler class it is an instance of for
subclasses such as EddystoneUrl) and the exposed values are the public properties /
items of the class, each flattened to a list of non-negative ints.
Every call of urlparse made by advdata.py is recorded (input text, ValueError or
(scheme, geturl() with the scheme removed)): urllib is a parameter of the Coq model.
"""
import sys, json, logging
logging.disable(logging.CRITICAL)
import whad.ble.profile.advdata as A
from whad.ble.profile.advdata import AdvDataFieldList, AdvDataError, AdvDataFieldListOverflow
from whad.ble.profile.attribute import UUID
from whad.hub.ble.bdaddr import BDAddress

URLS = []
_real_urlparse = A.urlparse

def _rec_urlparse(url, *a, **k):
    try:
        res = _real_urlparse(url, *a, **k)
    except ValueError:
        URLS.append([[ord(c) for c in url], None])
        raise
    URLS.append([[ord(c) for c in url],
                 [[ord(c) for c in res.scheme], [ord(c) for c in res._replace(scheme='').geturl()]]])
    return res

A.urlparse = _rec_urlparse

H = AdvDataFieldList.EIR_HANDLERS


def ints(x):
    if isinstance(x, (bytes, bytearray)):
        return list(x)
    if isinstance(x, str):
        return [ord(c) for c in x]
    if isinstance(x, bool):
        return [int(x)]
    if isinstance(x, int):
        if x < 0:
            raise ValueError("negative exposed value")
        return [x]
    raise TypeError("cannot canonicalise %r" % type(x))


def uuid_obs(u):
    return list(u.packed) + [u.type]


def exposed(cls_id, r):
    if cls_id in (0x01, 0x0A):
        return []
    if cls_id in (0x02, 0x03, 0x14, 0x06, 0x07, 0x15):
        return [[len(r)]] + [uuid_obs(r[i]) for i in range(len(r))]
    if cls_id in (0x08, 0x09):
        return [ints(r.name)]
    if cls_id == 0xFF:
        return [ints(r.company), ints(r.data)]
    if cls_id == 0x12:
        if list(r.range) != [r.min, r.max]:
            raise ValueError("range/min/max inconsistent")
        return [ints(r.min), ints(r.max)]
    if cls_id in (0x16, 0x21):
        return [uuid_obs(r.uuid), ints(r.data)]
    if cls_id in (0x17, 0x18):
        return [[len(r)]] + [list(r[i].value) + [r[i].type] for i in range(len(r))]
    if cls_id == 0x19:
        return [ints(r.category), ints(r.subcategory)]
    if cls_id == 0x1A:
        return [ints(r.interval)]
    if cls_id == 0x1B:
        return [ints(r.is_public), ints(r.is_random)]
    if cls_id == 0x1C:
        return [ints(r.role)]
    if cls_id == 0x24:
        return [ints(r.scheme), ints(r.uri)]
    if cls_id == 0x27:
        return [ints(bool(v)) for v in (r.has_encryption, r.has_conn_param_update, r.has_ext_reject_ind,
                                        r.has_slave_features_exchange, r.has_ping, r.has_data_packet_length,
                                        r.has_privacy, r.has_ext_scanner_filter_policies)]
    raise TypeError("no exposure table for class id %r" % cls_id)


def canon(r):
    cid = None
    for k, cls in H.items():
        if type(r) is cls:
            cid = k
    if cid is None:
        for k, cls in H.items():
            if isinstance(r, cls):
                cid = k
    if cid is None:
        return [0, r.type, [], r.to_bytes().hex()]
    return [cid, r.type, exposed(cid, r), r.to_bytes().hex()]


EXN = {"error": "StructError"}


def exc_name(e):
    n = type(e).__name__
    return EXN.get(n, n)


def do_parse(b):
    del URLS[:]
    try:
        l = AdvDataFieldList.from_bytes(b)
        out = {"out": [canon(l[i]) for i in range(len(l))]}
    except Exception as e:  # noqa
        out = {"exc": exc_name(e)}
    out["urls"] = list(URLS)
    if "out" in out:
        try:
            out["reser"] = l.to_bytes().hex()
        except Exception as e:  # noqa
            out["reser_exc"] = exc_name(e)
    return out


def do_api(ops):
    del URLS[:]
    lists, res = [], []
    for op in ops:
        try:
            stop = do_api_op(op, lists, res)
        except Exception as e:  # noqa  the list does not have the shape the sequence assumes (e.g. a record is missing)
            res.append({"op_exc": exc_name(e)})
            break
        if stop:
            break
    return {"steps": res, "urls": list(URLS)}


def do_api_op(op, lists, res):
    if True:
        if op[0] == "parse":
            try:
                l = AdvDataFieldList.from_bytes(bytes.fromhex(op[1]))
                lists.append(l)
                res.append({"out": [canon(l[i]) for i in range(len(l))]})
            except Exception as e:  # noqa
                res.append({"exc": exc_name(e)})
        elif op[0] == "set":
            _, i, j, attr, val = op
            rec = lists[i][j]
            if not isinstance(getattr(type(rec), attr, None), property):
                raise TypeError("no public setter %s on %s" % (attr, type(rec).__name__))
            setattr(rec, attr, val if attr == "company" else bytes.fromhex(val))
            res.append({})
        elif op[0] == "build":
            try:
                l = AdvDataFieldList(*[construct(c) for c in op[1]])
                lists.append(l)
                res.append({"out": [canon(l[i]) for i in range(len(l))]})
            except Exception as e:  # noqa
                res.append({"exc": exc_name(e)})
                return True         # the following operations address the list that was not built
        elif op[0] == "add":
            try:
                lists[op[1]].add(construct(op[2]))
                res.append({})
            except Exception as e:  # noqa
                res.append({"exc": exc_name(e)})
        elif op[0] == "remove":
            lists[op[1]].remove(lists[op[1]][op[2]])
            res.append({})
        elif op[0] in ("ser", "reparse"):
            l = lists[op[1]]
            st = {"current": [canon(l[i]) for i in range(len(l))]}
            # what a brand-new list holding the very same record objects serialises to
            try:
                st["fresh"] = AdvDataFieldList(*[l[i] for i in range(len(l))]).to_bytes().hex()
            except Exception as e:  # noqa
                st["fresh_exc"] = exc_name(e)
            try:
                b = l.to_bytes()
                st["bytes"] = b.hex()
            except Exception as e:  # noqa
                st["exc"] = exc_name(e)
                b = None
            if op[0] == "reparse" and b is not None:
                try:
                    p = AdvDataFieldList.from_bytes(b)
                    st["out"] = [canon(p[i]) for i in range(len(p))]
                except Exception as e:  # noqa
                    st["parse_exc"] = exc_name(e)
            res.append(st)
    return False


def uuid_text(b):
    """canonical text form xxxxxxxx-xxxx-xxxx-xxxx-xxxxxxxxxxxx of 16 wire (little-endian) bytes"""
    h = b[::-1].hex()
    return "-".join((h[:8], h[8:12], h[12:16], h[16:20], h[20:]))


def mk_uuid(hx):
    if hx.startswith("s:"):            # built from the text form, as an application would
        return UUID(uuid_text(bytes.fromhex(hx[2:])))
    return UUID(bytes.fromhex(hx))


def do_uuid(hexes):
    """The UUID class on its own: UUID(bytes), and for 16 bytes UUID(text), for 2 bytes UUID(int)."""
    out = []
    for h in hexes:
        b = bytes.fromhex(h)
        r = {}
        for form, mk in (("bytes", lambda: UUID(b)),
                         ("text", (lambda: UUID(uuid_text(b))) if len(b) == 16 else None),
                         ("int", (lambda: UUID(int.from_bytes(b, "little"))) if len(b) == 2 else None)):
            if mk is None:
                continue
            try:
                u = mk()
                r[form] = [bytes(u.packed).hex(), u.type]
            except Exception as e:  # noqa
                r[form] = exc_name(e)
        out.append(r)
    return out


U16 = {"inc": A.AdvIncServiceUuid16List, "comp": A.AdvCompServiceUuid16List, "sol": A.AdvServiceSollicitationUuid16List}
U128 = {"inc": A.AdvIncServiceUuid128List, "comp": A.AdvCompServiceUuid128List, "sol": A.AdvServiceSollicitationUuid128List}


def construct(c):
    k, a = c["k"], c["a"]
    if k == "Flags":
        return A.AdvFlagsField(limited_disc=a[0], general_disc=a[1], bredr_support=a[2], le_bredr_support=a[3])
    if k == "Uuid16s":
        return U16[a[0]](*[mk_uuid(h) for h in a[1]])
    if k == "Uuid128s":
        return U128[a[0]](*[mk_uuid(h) for h in a[1]])
    if k == "ShortName":
        return A.AdvShortenedLocalName(bytes.fromhex(a[0]))
    if k == "CompleteName":
        return A.AdvCompleteLocalName(bytes.fromhex(a[0]))
    if k == "TxPower":
        return A.AdvTxPowerLevel(a[0])
    if k == "Manuf":
        return A.AdvManufacturerSpecificData(a[0], bytes.fromhex(a[1]))
    if k == "ConnRange":
        return A.AdvSlaveConnIntervalRange(a[0], a[1])
    if k == "SvcData16":
        return A.AdvServiceData16(mk_uuid(a[0]), bytes.fromhex(a[1]))
    if k == "PublicTarget":
        return A.AdvPublicTargetAddr(*[BDAddress(bytes.fromhex(h)) for h in a[0]])
    if k == "RandomTarget":
        return A.AdvRandomTargetAddr(*[BDAddress(bytes.fromhex(h)) for h in a[0]])
    if k == "Appearance":
        return A.AdvAppearance(a[0])
    if k == "AdvInterval":
        return A.AdvAdvertisingInterval(a[0])
    if k == "DevAddr":
        return A.AdvBluetoothDeviceAddr(BDAddress(bytes.fromhex(a[0])), public=a[1])
    if k == "LeRole":
        return A.AdvLeRole(a[0])
    if k == "SvcData128":
        return A.AdvServiceDataUuid128(mk_uuid(a[0]), bytes.fromhex(a[1]))
    if k == "Uri":
        return A.AdvURI(a[0])
    if k == "LeFeatures":
        return A.AdvLeSupportedFeatures(*a)
    if k == "Eddystone":
        return A.EddystoneUrl(a[0])
    raise KeyError(k)


def uri_stable(url):
    """urllib only (no whad code): is the normal form of url a fixed point?"""
    try:
        r = _real_urlparse(url)
    except ValueError:
        return None
    s, u = r.scheme, r._replace(scheme='').geturl()
    try:
        r2 = _real_urlparse(s + ":" + u)
    except ValueError:
        return False
    return (r2.scheme, r2._replace(scheme='').geturl()) == (s, u)


def do_build(calls):
    del URLS[:]
    res = {}
    recs = []
    try:
        for c in calls:
            recs.append(construct(c))
    except Exception as e:  # noqa
        res["ctor_exc"] = exc_name(e)
        res["urls"] = list(URLS)
        return res
    res["recs"] = [canon(r) for r in recs]
    try:
        b = AdvDataFieldList(*recs).to_bytes()
        res["bytes"] = b.hex()
    except Exception as e:  # noqa
        res["to_bytes_exc"] = exc_name(e)
        b = None
    res["urls"] = list(URLS)
    res["uri_stable"] = [uri_stable(c["a"][0]) if c["k"] == "Uri" else None for c in calls]
    if b is not None:
        res["reparse"] = do_parse(b)
    return res


def do_scan(kind, adv):
    from scapy.layers.bluetooth4LE import BTLE_ADV
    from whad.ble.scanning import AdvertisingDevicesDB
    pdu = {0: 0x00, 1: 0x02, 2: 0x04}[kind]
    raw = bytes([pdu, 6 + len(adv)]) + bytes.fromhex("665544332211") + adv
    try:
        pkt = BTLE_ADV(raw)
    except Exception as e:  # noqa  (scapy, not whad)
        return {"scapy_exc": exc_name(e)}
    db = AdvertisingDevicesDB()
    try:
        db.on_device_found(-40, pkt, None, updates=True)
        return {"ok": True}
    except Exception as e:  # noqa
        return {"exc": exc_name(e)}


PDU_BYTE = {"AdvInd": 0x00, "AdvNonconn": 0x02, "ScanRsp": 0x04, "OtherPdu": 0x06}


def addr_wire(i):
    return bytes([i & 0xFF, 0x11, 0x22, 0x33, 0x44, 0x55])


def addr_str(i):
    return ":".join("%02x" % b for b in reversed(addr_wire(i)))


def dev_obs(d):
    rsp = d.scan_rsp_records
    return [d.address_type, d.rssi, [canon(r) for r in d.adv_records],
            None if rsp is None else [canon(r) for r in rsp],
            bool(d.got_scan_rsp), bool(d.connectable), bool(d.scanned), bool(d.reported),
            int(d.timestamp * 1000), int(d.last_seen * 1000)]


def do_seq(case):
    """A sequence of advertisements on one database. Per event: the bytes scapy re-joins from
    the dissected records (what on_device_found parses), the returned devices or the escaping
    exception class (the sequence stops there); at the end find_device() of every address."""
    import whad.ble.scanning as S
    from scapy.layers.bluetooth4LE import BTLE_ADV, BTLE_ADV_IND, BTLE_ADV_NONCONN_IND, BTLE_SCAN_RSP
    from fractions import Fraction
    clock = [0]                      # milliseconds; exact arithmetic: (now - timestamp) > 0.5 <=> more than 500 ms
    S.time = lambda: Fraction(clock[0], 1000)
    layers = {"AdvInd": BTLE_ADV_IND, "AdvNonconn": BTLE_ADV_NONCONN_IND, "ScanRsp": BTLE_SCAN_RSP}
    del URLS[:]
    db = S.AdvertisingDevicesDB()
    filt = None if case["filter"] is None else addr_str(case["filter"])
    ids = {}
    steps = []
    for dt, pdu, a, txadd, rssi, hx in case["events"]:
        clock[0] += dt
        adv = bytes.fromhex(hx)
        ids[addr_str(a)] = a
        raw = bytes([PDU_BYTE[pdu] | (txadd << 6), 6 + len(adv)]) + addr_wire(a) + adv
        st = {}
        try:
            pkt = BTLE_ADV(raw)
            if pdu in layers:
                lay = pkt.getlayer(layers[pdu])
                st["joined"] = b"".join(bytes(r) for r in lay.data).hex()
                st["dissected"] = [str(lay.AdvA).lower() == addr_str(a), pkt.TxAdd == txadd]
            else:
                st["joined"] = hx
                st["dissected"] = [not any(pkt.haslayer(l) for l in layers.values()), pkt.TxAdd == txadd]
        except Exception as e:  # noqa  (scapy, not whad)
            st["scapy_exc"] = exc_name(e)
            steps.append(st)
            break
        try:
            devs = db.on_device_found(rssi, pkt, filt, updates=case["updates"])
            st["ret"] = [ids.get(d.address, 0) for d in devs]
            found = {i: db.find_device(s_) for s_, i in ids.items()}
            st["known"] = sorted(i for i, d in found.items() if d is not None)
            st["got"] = sorted(i for i, d in found.items() if d is not None and d.got_scan_rsp)
        except Exception as e:  # noqa
            st["exc"] = exc_name(e)
            steps.append(st)
            break
        steps.append(st)
    final = []
    for s_, i in sorted(ids.items(), key=lambda kv: kv[1]):
        d = db.find_device(s_)
        final.append([i, None if d is None else dev_obs(d)])
    return {"steps": steps, "final": final, "urls": list(URLS)}


def do_exh(n, lo, hi):
    """All byte strings of length n with first byte in [lo, hi): the property's second
    clause on the real code. Returns counts and the first failing strings."""
    import itertools
    fb = AdvDataFieldList.from_bytes
    bad, counts = [], {"ok": 0, "AdvDataError": 0}
    rng = range(256)
    for b0 in range(lo, hi):
        for tail in itertools.product(rng, repeat=n - 1):
            b = bytes((b0,) + tail)
            try:
                fb(b)
                counts["ok"] += 1
            except AdvDataError:
                counts["AdvDataError"] += 1
            except Exception as e:  # noqa
                nme = exc_name(e)
                counts[nme] = counts.get(nme, 0) + 1
                if len(bad) < 5:
                    bad.append([b.hex(), nme])
    return {"counts": counts, "bad": bad}


def code2(b):
    try:
        t = b.decode("utf-8")
    except UnicodeDecodeError:
        return 0
    if len(t) == 1:
        return 1 + ord(t)
    return 2097152 + 256 * ord(t[0]) + ord(t[1])


def do_utf8(req):
    res = {}
    if req.get("rows"):
        res["rows"] = [[code2(bytes([b0, b1])) for b1 in range(256)] for b0 in range(256)]
    dec = []
    for hx in req.get("decode", []):
        try:
            dec.append([ord(c) for c in bytes.fromhex(hx).decode("utf-8")])
        except UnicodeDecodeError:
            dec.append(None)
    res["decode"] = dec
    enc = []
    for cps in req.get("encode", []):
        try:
            enc.append("".join(chr(c) for c in cps).encode("utf-8").hex())
        except (UnicodeEncodeError, ValueError, OverflowError):
            enc.append(None)
    res["encode"] = enc
    return res


def main():
    req = json.load(sys.stdin)
    res = {}
    if "parse" in req:
        res["parse"] = [do_parse(bytes.fromhex(h)) for h in req["parse"]]
    if "build" in req:
        res["build"] = [do_build(c) for c in req["build"]]
    if "scan" in req:
        res["scan"] = [do_scan(k, bytes.fromhex(h)) for k, h in req["scan"]]
    if "uuid" in req:
        res["uuid"] = do_uuid(req["uuid"])
    if "api" in req:
        res["api"] = [do_api(c) for c in req["api"]]
    if "seq" in req:
        res["seq"] = [do_seq(c) for c in req["seq"]]
    if "exh" in req:
        res["exh"] = do_exh(req["exh"]["len"], req["exh"]["lo"], req["exh"]["hi"])
    if "utf8" in req:
        res["utf8"] = do_utf8(req["utf8"])
    print("RESULT " + json.dumps(res))


main()
