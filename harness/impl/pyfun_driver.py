"""Live side of the differential validation of harness/translators/pyfun.py.

stdin : {"items": [{"path", "qualname", "spec", "live": <python source defining live(a)>,
                    "cases": [{name: int | bool | {"b": hex}}, ...]}, ...], "probe": bool}
stdout: RESULT {"items": [{"out": [{"v": canonical value} | {"exc": class name}, ...]}, ...], "probe": {...}}

`live(a)` runs the REAL code of the tree under verification (PYTHONPATH = C.REPO):
  * function mode: it calls the real function (`MOD` = the imported module, `NS` = SimpleNamespace);
  * prefix / expr mode: `FRAG(env)` evaluates the very statements / expression the translator
    picked (same selector code: pyfun.locate), compiled from the source file of this tree by
    CPython, with the module's globals and `env` as locals.
Canonical values: int, bool, bytes -> {"b": hex}, list/tuple -> list.
"""
import ast
import importlib
import json
import logging
import os
import random
import sys
import types

logging.disable(logging.CRITICAL)
sys.path.insert(0, os.environ.get("PYFUN_DIR") or os.path.join(os.path.dirname(os.path.abspath(__file__)), "..", "translators"))
import pyfun  # noqa: E402

REPO = os.environ.get("VERIF_REPO", "/repo")


def canon(v):
    if isinstance(v, bool):
        return v
    if isinstance(v, int):
        return v
    if isinstance(v, (bytes, bytearray)):
        return {"b": bytes(v).hex()}
    if isinstance(v, (list, tuple)):
        return [canon(x) for x in v]
    raise TypeError("non-canonical value of type %s" % type(v).__name__)


def dec(v):
    if isinstance(v, dict) and "b" in v:
        return bytes.fromhex(v["b"])
    return v


def module_of(path):
    rel = path[:-3] if path.endswith(".py") else path
    if rel.endswith("/__init__"):
        rel = rel[:-9]
    return importlib.import_module(rel.replace("/", "."))


def make_frag(item, mod):
    mode, fn, payload, _lines, _src = pyfun.locate(os.path.join(REPO, item["path"]), item["qualname"], item["spec"])
    binds = getattr(fn, "_bindings", {})
    def keys(env):
        """'$x' keys of the environment are the locals named by role (spec['bind'])"""
        return {(binds[k[1:]] if k.startswith("$") else k): v for k, v in env.items()}
    if mode == "function":
        return None
    if mode == "expr":
        node = ast.Expression(body=payload)
        ast.fix_missing_locations(node)
        code = compile(node, item["path"], "eval")
        def frag(env):
            return eval(code, dict(vars(mod)), keys(env))
        return frag
    body = [s for s in payload]
    node = ast.Module(body=body, type_ignores=[])
    ast.fix_missing_locations(node)
    code = compile(node, item["path"], "exec")
    rets = getattr(fn, "_spec", item["spec"])["returns"]
    def frag(env):
        loc = keys(env)
        exec(code, dict(vars(mod)), loc)
        vs = [loc[r] for r in rets]
        return vs[0] if len(vs) == 1 else tuple(vs)
    return frag


def OBJ(cls, **attrs):
    """A receiver for calling a real method as `Cls.method(OBJ(Cls, attr=value, ...), ...)`: an instance
    (made without __init__) of a throw-away subclass of the REAL class carrying the given attributes, so
    that the method can also reach the other methods of its class (a refactoring may move code into one)."""
    try:
        return object.__new__(type(cls)("_Live" + cls.__name__, (cls,), dict(attrs)))
    except Exception:  # noqa: metaclass / slots that refuse this: plain namespace
        return types.SimpleNamespace(**attrs)


def run_item(item):
    mod = module_of(item["path"])
    ns = {"NS": types.SimpleNamespace, "MOD": mod, "OBJ": OBJ}
    try:
        ns["FRAG"] = make_frag(item, mod)
    except pyfun.Unsupported as e:
        return {"out": [{"exc": "Unsupported: %s" % e}] * len(item["cases"])}
    exec(item["live"], ns)
    out = []
    for c in item["cases"]:
        a = {k: dec(v) for k, v in c.items()}
        try:
            out.append({"v": canon(ns["live"](a))})
        except Exception as e:  # noqa
            out.append({"exc": type(e).__name__})
    return {"out": out}


def probe():
    """int(a/b) == a//b for 0 <= a < 2^53, 0 < b < 2^53 (adversarial: a = b*(q+1) - 1 and
    neighbours, powers of two, random); and witnesses that the bound is sharp."""
    rng = random.Random(53)
    lim = 2 ** 53
    pairs = []
    for _ in range(20000):
        b = rng.choice([rng.randrange(1, 2 ** rng.randrange(1, 53)), 2 ** rng.randrange(0, 53), 3, 7, 10, 22])
        q = rng.randrange(0, max(1, lim // b))
        for a in (b * (q + 1) - 1, b * q, b * q + 1, rng.randrange(0, lim)):
            if 0 <= a < lim:
                pairs.append((a, b))
    for a in (lim - 1, lim - 2, lim - 3):
        for b in (1, 2, 3, 5, 2 ** 26, 2 ** 27, 2 ** 52, lim - 1, 94906267, 94906265):
            pairs.append((a, b))
    bad = [[a, b] for a, b in pairs if int(a / b) != a // b]
    beyond = []
    for a, b in ((3 * 2 ** 53 - 1, 3), (2 ** 54 - 1, 2), (2 ** 60 - 1, 2 ** 5)):
        if int(a / b) != a // b:
            beyond.append([a, b])
    return {"pairs": len(pairs), "bad_below_2_53": bad[:5], "counterexamples_at_or_above_2_53": beyond}


def main():
    req = json.load(sys.stdin)
    res = {"items": [run_item(it) for it in req["items"]]}
    if req.get("probe"):
        res["probe"] = probe()
    print("RESULT " + json.dumps(res))


if __name__ == "__main__":
    main()
