"""Common machinery of the /verif checks (python3 stdlib only).

Every property module `harness/props/<Id>.py` defines `run(ctx)`; `./check` builds
a `Ctx`, calls it, and turns the result into the exit status / VIOLATION lines /
evidence file.  See DESIGN.md section 1.
"""
import fcntl
import hashlib
import json
import os
import random
import re
import shutil
import subprocess
import sys
import time

VERIF = os.path.dirname(os.path.dirname(os.path.abspath(__file__)))
# The tree under verification. Registered commands use /repo; VERIF_REPO lets the
# same checks run against a scratch worktree (seeded-change experiments).
REPO = os.environ.get("VERIF_REPO", "/repo")
PY = os.environ.get("VERIF_PY", "/venv/bin/python")
COQ = os.path.join(VERIF, "coq")
GUARD = "WHAD_CLIENT_VERIF"
JOBS = int(os.environ.get("VERIF_JOBS", "16"))

# Build output. Registered runs use /verif/build; a run against another tree
# (VERIF_REPO) gets its own directory so that parallel experiments do not collide.
def _build_root():
    if REPO == "/repo":
        return os.path.join(VERIF, "build")
    tag = hashlib.sha1(REPO.encode()).hexdigest()[:8]
    return os.path.join(VERIF, "build", "alt-" + tag)

BUILD = _build_root()


class CheckBroken(Exception):
    """The machinery itself failed (not a statement about the code)."""


# ---------------------------------------------------------------------------
# Coq literals
# ---------------------------------------------------------------------------

def cN(n):
    return "%d" % n

def cZ(n):
    return "(%d)%%Z" % n

def cnat(n):
    assert 0 <= n < 5000, "nat literal too large: %r" % (n,)
    return "%d%%nat" % n

def cbool(b):
    return "true" if b else "false"

def clist(items):
    return "[" + "; ".join(items) + "]"

def cbytes(b):
    """bytes -> list N literal (file must have N_scope open)."""
    return "[" + ";".join("%d" % x for x in bytes(b)) + "]"

def copt(x, f=lambda v: v):
    return "None" if x is None else "(Some %s)" % f(x)

def cstr(s):
    return '"' + s.replace('"', '""') + '"'

def cpair(*xs):
    return "(" + ", ".join(xs) + ")"


# ---------------------------------------------------------------------------
# Subprocess helpers
# ---------------------------------------------------------------------------

def sh(cmd, timeout=600, cwd=None, env=None, inp=None):
    """Run a command, return (rc, stdout+stderr)."""
    try:
        p = subprocess.run(cmd, cwd=cwd, env=env, input=inp, timeout=timeout,
                           stdout=subprocess.PIPE, stderr=subprocess.STDOUT,
                           shell=isinstance(cmd, str))
        return p.returncode, p.stdout.decode("utf-8", "replace")
    except subprocess.TimeoutExpired as e:
        out = (e.stdout or b"").decode("utf-8", "replace")
        return 124, out + "\n[timeout after %ss]" % timeout


def impl_env(extra=None):
    env = dict(os.environ)
    env["PYTHONPATH"] = REPO
    env["PYTHONHASHSEED"] = "0"
    env["PYTHONDONTWRITEBYTECODE"] = "1"
    env[GUARD] = "1"
    env["VERIF_REPO"] = REPO
    if extra:
        env.update(extra)
    return env


def run_impl(script, request, timeout=900, extra_env=None):
    """Run harness/impl/<script> under the repository's interpreter with the tree
    under verification first on the path. JSON in on stdin, JSON out on the LAST
    line of stdout starting with 'RESULT '. Returns the decoded object.
    Raises CheckBroken when the driver itself fails."""
    path = os.path.join(VERIF, "harness", "impl", script)
    p = subprocess.run([PY, "-B", path], input=json.dumps(request).encode(),
                       stdout=subprocess.PIPE, stderr=subprocess.PIPE,
                       env=impl_env(extra_env), cwd="/var/tmp", timeout=timeout)
    out = p.stdout.decode("utf-8", "replace")
    for line in reversed(out.splitlines()):
        if line.startswith("RESULT "):
            return json.loads(line[7:])
    raise CheckBroken("impl driver %s produced no RESULT (rc=%s)\nstdout tail: %s\nstderr tail: %s"
                      % (script, p.returncode, out[-1500:], p.stderr.decode("utf-8", "replace")[-3000:]))


# ---------------------------------------------------------------------------
# Coq build / evaluation
# ---------------------------------------------------------------------------

def _lock():
    os.makedirs(os.path.join(VERIF, "build"), exist_ok=True)
    f = open(os.path.join(VERIF, "build", ".coq.lock"), "w")
    fcntl.flock(f, fcntl.LOCK_EX)
    return f


def coq_project_files():
    out = []
    for root, _dirs, files in os.walk(os.path.join(COQ, "theories")):
        for fn in sorted(files):
            if fn.endswith(".v"):
                out.append(os.path.relpath(os.path.join(root, fn), COQ))
    return sorted(out)


def coq_makefile():
    """(Re)generate coq/Makefile from the .v files present under theories/."""
    files = coq_project_files()
    proj = "-Q theories Whad\n" + "\n".join(files) + "\n"
    pth = os.path.join(COQ, "_CoqProject")
    old = open(pth).read() if os.path.exists(pth) else None
    if old != proj or not os.path.exists(os.path.join(COQ, "Makefile")):
        with open(pth, "w") as f:
            f.write(proj)
        rc, out = sh(["coq_makefile", "-f", "_CoqProject", "-o", "Makefile"], cwd=COQ)
        if rc != 0:
            raise CheckBroken("coq_makefile failed: " + out)


def coq_make(targets=None, timeout=1800):
    """Build theories (all, or the listed .vo targets relative to coq/).
    Returns (ok, log)."""
    lk = _lock()
    try:
        coq_makefile()
        cmd = ["timeout", str(timeout), "make", "-j%d" % JOBS]
        if targets:
            cmd += list(targets)
        rc, out = sh(cmd, cwd=COQ, timeout=timeout + 30)
        return rc == 0, out
    finally:
        lk.close()


def prop_targets(pid, sub=None):
    """The .vo targets of a property directory theories/<sub or pid>/*.v"""
    d = os.path.join(COQ, "theories", sub or pid)
    return ["theories/%s/%s" % (sub or pid, fn[:-2] + ".vo")
            for fn in sorted(os.listdir(d)) if fn.endswith(".v")]


def build_dir(pid, clean=False):
    d = os.path.join(BUILD, pid)
    if clean and os.path.isdir(d):
        shutil.rmtree(d)
    os.makedirs(d, exist_ok=True)
    return d


def coqc_file(path, extra_Q=(), timeout=600):
    """Compile one generated file (cases / assumptions). Returns (rc, output)."""
    cmd = ["timeout", str(timeout), "coqc", "-Q", os.path.join(COQ, "theories"), "Whad"]
    for d, name in extra_Q:
        cmd += ["-Q", d, name]
    cmd.append(path)
    return sh(cmd, cwd=os.path.dirname(path), timeout=timeout + 30)


_THM = re.compile(r"^\s*(Theorem|Lemma|Corollary|Example)\s+([A-Za-z0-9_']+)", re.M)


def property_theorems(pid, fname="Property.v", sub=None):
    src = open(os.path.join(COQ, "theories", sub or pid, fname)).read()
    return [m.group(2) for m in _THM.finditer(src)]


FORBIDDEN = re.compile(r"\b(Admitted|admit|Axiom|Axioms|Parameter|Parameters|Conjecture|Conjectures|"
                       r"Admit Obligations|bypass_check|Unset Guard Checking|Unset Positivity Checking|"
                       r"Unset Universe Checking|type-in-type|impredicative-set)\b")


def forbidden_scan(dirs=None):
    """grep the development for declarations that would add an axiom or switch a
    kernel check off.  Returns list of 'file:line: text'."""
    hits = []
    roots = dirs or [os.path.join(COQ, "theories"), os.path.join(COQ, "gen")]
    for r in roots:
        if not os.path.isdir(r):
            continue
        for root, _d, files in os.walk(r):
            for fn in files:
                if not fn.endswith(".v"):
                    continue
                p = os.path.join(root, fn)
                in_comment = 0
                for i, line in enumerate(open(p, errors="replace"), 1):
                    # strip (* ... *) comments crudely (nesting tracked per line)
                    s, j, buf = line, 0, ""
                    while j < len(s):
                        if s.startswith("(*", j):
                            in_comment += 1; j += 2; continue
                        if s.startswith("*)", j) and in_comment:
                            in_comment -= 1; j += 2; continue
                        if not in_comment:
                            buf += s[j]
                        j += 1
                    m = FORBIDDEN.search(buf)
                    if m:
                        # "Variable/Hypothesis" inside sections are allowed; the words above never are
                        hits.append("%s:%d: %s" % (os.path.relpath(p, VERIF), i, line.strip()))
    return hits


def print_assumptions(pid, theorems, module=None, allow=()):
    """Compile a file printing the assumptions of each theorem.
    Returns dict name -> ('closed' | list of axiom lines)."""
    d = build_dir(pid)
    mod = module or ("Whad.%s.Property" % pid)
    body = ["Require Import %s." % mod]
    for t in theorems:
        body.append('Goal True. idtac "BEGIN %s". Abort.' % t)
        body.append("Print Assumptions %s." % t)
        body.append('Goal True. idtac "END %s". Abort.' % t)
    p = os.path.join(d, "Assumptions_%s.v" % pid)
    with open(p, "w") as f:
        f.write("\n".join(body) + "\n")
    rc, out = coqc_file(p)
    if rc != 0:
        return None, out
    res = {}
    for t in theorems:
        m = re.search(r"BEGIN %s\n(.*?)END %s" % (re.escape(t), re.escape(t)), out, re.S)
        if not m:
            res[t] = ["<no output>"]
            continue
        txt = m.group(1).strip()
        if txt.startswith("Closed under the global context"):
            res[t] = "closed"
        else:
            lines = [l for l in txt.splitlines() if l.strip() and not l.startswith("Axioms:")]
            names = [l.split(":")[0].strip() for l in lines if re.match(r"^\S", l)]
            bad = [n for n in names if n not in allow]
            res[t] = "closed" if not bad and not names else (names if bad else "allowed:" + ",".join(names))
    return res, out


def run_cases(pid, name, preamble, case_type, cases, check_fn, shard=400, timeout=900, max_chars=400000):
    """Evaluate `check_fn : case_type -> bool` on every case inside Coq (vm_compute).

    `cases` is a list of Coq terms (strings).  Files of <= shard cases are written to
    build/<pid>/ and compiled in parallel.  Returns (bad_indices, logs) where
    bad_indices are indices into `cases` for which check_fn returned false.
    Raises CheckBroken if a file does not compile (e.g. ill-typed case)."""
    d = build_dir(pid)
    files = []
    # shards of at most `shard` cases and about `max_chars` characters of literal
    parts, cur, cur_sz, start = [], [], 0, 0
    for i, c in enumerate(cases):
        if cur and (len(cur) >= shard or cur_sz + len(c) > max_chars):
            parts.append((start, cur)); cur, cur_sz, start = [], 0, i
        cur.append(c); cur_sz += len(c)
    if cur:
        parts.append((start, cur))
    for pi, (k, part) in enumerate(parts):
        fn = os.path.join(d, "%s_%d.v" % (name, pi))
        with open(fn, "w") as f:
            f.write("From Coq Require Import List NArith ZArith Bool String.\nImport ListNotations.\n")
            f.write(preamble + "\n")
            f.write("Definition cases : list (%s) := [\n" % case_type)
            f.write(";\n".join(part))
            f.write("\n].\n")
            f.write("Fixpoint bad_idx (i : nat) (l : list (%s)) : list nat :=\n"
                    "  match l with [] => [] | c :: r => if %s c then bad_idx (S i) r else i :: bad_idx (S i) r end.\n"
                    % (case_type, check_fn))
            f.write('Goal True. idtac "BEGIN_BAD". Abort.\n')
            f.write("Eval vm_compute in (List.length cases, bad_idx 0 cases).\n")
            f.write('Goal True. idtac "END_BAD". Abort.\n')
        files.append((k, fn))
    procs = []
    bad, logs = [], []
    pending = list(files)
    running = []
    def launch(k, fn):
        cmd = ["bash", "-c", "ulimit -s unlimited 2>/dev/null; exec timeout %d coqc -Q %s Whad %s"
               % (timeout, os.path.join(COQ, "theories"), fn)]
        return (k, fn, subprocess.Popen(cmd, cwd=d, stdout=subprocess.PIPE, stderr=subprocess.STDOUT))
    while pending or running:
        while pending and len(running) < JOBS:
            running.append(launch(*pending.pop(0)))
        k, fn, p = running.pop(0)
        out = p.communicate()[0].decode("utf-8", "replace")
        if p.returncode != 0:
            for _k, _f, q in running:
                q.kill()
            raise CheckBroken("coqc failed on %s (rc=%s):\n%s" % (fn, p.returncode, out[-3000:]))
        m = re.search(r"BEGIN_BAD\s*=\s*\((\d+)%?n?a?t?,\s*\[(.*?)\]\)\s*:.*?END_BAD", out, re.S)
        if not m:
            raise CheckBroken("cannot parse coqc output of %s:\n%s" % (fn, out[-2000:]))
        n = int(m.group(1))
        idx = [int(x.replace("%nat", "")) for x in re.split(r"[;\s]+", m.group(2).strip()) if x.strip()]
        bad += [k + i for i in idx]
        logs.append("%s: %d cases, %d bad" % (os.path.basename(fn), n, len(idx)))
    return sorted(bad), logs


def coq_eval(pid, name, preamble, exprs, timeout=600):
    """Evaluate a list of Coq expressions with vm_compute; returns list of result strings
    (the text between '=' and the final ': type')."""
    d = build_dir(pid)
    fn = os.path.join(d, name + ".v")
    with open(fn, "w") as f:
        f.write("From Coq Require Import List NArith ZArith Bool String.\nImport ListNotations.\n")
        f.write(preamble + "\n")
        for i, e in enumerate(exprs):
            f.write('Goal True. idtac "BEGIN_E%d". Abort.\nEval vm_compute in (%s).\nGoal True. idtac "END_E%d". Abort.\n' % (i, e, i))
    rc, out = coqc_file(fn, timeout=timeout)
    if rc != 0:
        raise CheckBroken("coqc failed on %s:\n%s" % (fn, out[-3000:]))
    res = []
    for i in range(len(exprs)):
        m = re.search(r"BEGIN_E%d\s*=\s*(.*?)\s*END_E%d" % (i, i), out, re.S)
        if not m:
            raise CheckBroken("cannot parse result %d of %s" % (i, fn))
        txt = m.group(1)
        # drop the trailing ': type'
        depth, cut = 0, None
        for j in range(len(txt) - 1, -1, -1):
            c = txt[j]
            if c in ")]":
                depth += 1
            elif c in "([":
                depth -= 1
            elif c == ":" and depth == 0 and txt[j - 1:j + 1] != "::" and txt[j:j + 2] != "::":
                cut = j
                break
        res.append(" ".join((txt[:cut] if cut else txt).split()))
    return res


# ---------------------------------------------------------------------------
# Known findings
# ---------------------------------------------------------------------------

def known_findings(pid):
    """Parse KNOWN_FINDINGS.txt: returns dict key -> text for `finding:` lines of pid."""
    res = {}
    p = os.path.join(VERIF, "KNOWN_FINDINGS.txt")
    if not os.path.exists(p):
        return res
    for line in open(p):
        line = line.strip()
        m = re.match(r"^finding:\s+property=(\S+)\s+key=(\S+)\s+(.*)$", line)
        if m and m.group(1) == pid:
            res[m.group(2)] = m.group(3)
    return res


# ---------------------------------------------------------------------------
# Source ties
# ---------------------------------------------------------------------------

def source_tie(relpath, start=None, end=None):
    p = os.path.join(REPO, relpath)
    try:
        lines = open(p, "rb").read().splitlines(keepends=True)
    except OSError:
        return {"file": relpath, "missing": True}
    seg = lines[(start - 1 if start else 0):(end if end else len(lines))]
    return {"file": relpath, "lines": [start or 1, end or len(lines)],
            "sha256": hashlib.sha256(b"".join(seg)).hexdigest()}


# ---------------------------------------------------------------------------
# Context / verdict
# ---------------------------------------------------------------------------

class Ctx:
    def __init__(self, pid, tier, seed):
        self.pid, self.tier, self.seed = pid, tier, seed
        self.rng = random.Random(seed)
        self.t0 = time.time()
        self.violations = []      # list of dict(replay=..., what=..., nofail=bool)
        self.known_hits = {}      # key -> text (printed once)
        self.notes = []
        self.cov = {"evaluations": 0, "distinct_nontrivial": 0, "samples": [],
                    "obligations": 0, "discharged": 0, "checker_cmd": "", "trusted_base": [],
                    "traces_validated_against_impl": 0}
        self.assumptions = []
        self.kf = known_findings(pid)
        self.thorough = (tier == "thorough")

    # -- reporting -------------------------------------------------------
    def log(self, *a):
        print("[%s %6.1fs]" % (self.pid, time.time() - self.t0), *a, flush=True)

    def replay_path(self, payload):
        os.makedirs(os.path.join(VERIF, "replays"), exist_ok=True)
        blob = json.dumps(payload, sort_keys=True, default=str)
        h = hashlib.sha1(blob.encode()).hexdigest()[:10]
        p = os.path.join(VERIF, "replays", "%s-%s.json" % (self.pid, h))
        with open(p, "w") as f:
            json.dump(payload, f, indent=1, sort_keys=True, default=str)
        return p

    def violation(self, what, case, key=None, expected=None, observed=None):
        """A concrete failing input of the property on the implementation.
        If `key` names a listed known finding the case is reported as KNOWN-FINDING."""
        if key is not None and key in self.kf:
            if key not in self.known_hits:
                self.known_hits[key] = self.kf[key]
            return False
        payload = {"property": self.pid, "kind": "failing-input", "what": what, "class": key,
                   "case": case, "expected": expected, "observed": observed,
                   "seed": self.seed, "tier": self.tier, "repo": REPO}
        p = self.replay_path(payload)
        self.violations.append({"replay": p, "what": what, "nofail": False})
        return True

    def broken_obligation(self, what, detail, first_case=None):
        """A theorem / translator item / correspondence group no longer checks and the
        search found no failing input of the property."""
        payload = {"property": self.pid, "kind": "obligation-no-longer-checks", "what": what,
                   "detail": detail[-4000:] if isinstance(detail, str) else detail,
                   "first_disagreeing_case": first_case,
                   "seed": self.seed, "tier": self.tier, "repo": REPO}
        p = self.replay_path(payload)
        self.violations.append({"replay": p, "what": what, "nofail": True})

    # -- proof obligations -------------------------------------------------
    def check_proofs(self, sub=None, extra_targets=(), allow_axioms=(), property_file="Property.v",
                     lib_targets=()):
        """Build the property's theories and check Print Assumptions of every theorem in
        Property.v.  Returns (ok, detail).  Fills obligations/discharged."""
        pid = self.pid
        hits = forbidden_scan()
        if hits:
            self.cov["obligations"] += 1
            return False, "forbidden declarations: " + "; ".join(hits[:5])
        targets = list(lib_targets) + prop_targets(pid, sub) + list(extra_targets)
        ok, log = coq_make(targets)
        thms = property_theorems(pid, property_file, sub)
        self.cov["obligations"] += len(thms)
        self.cov["checker_cmd"] = "make -C coq " + " ".join(targets) + " ; coqc Assumptions_%s.v (Print Assumptions of %d theorems)" % (pid, len(thms))
        if not ok:
            return False, "make failed:\n" + log[-3000:]
        res, out = print_assumptions(pid, thms, module="Whad.%s.%s" % (sub or pid, property_file[:-2]),
                                     allow=allow_axioms)
        if res is None:
            return False, "Print Assumptions failed:\n" + out[-3000:]
        bad = {t: r for t, r in res.items() if isinstance(r, list)}
        self.cov["discharged"] += len(thms) - len(bad)
        self.cov.setdefault("theorems", {}).update({t: (r if isinstance(r, str) else r) for t, r in res.items()})
        if bad:
            return False, "theorems with unlisted assumptions: %r" % bad
        return True, "%d theorems closed" % len(thms)

    # -- finish --------------------------------------------------------------
    def finish(self):
        for key, text in self.known_hits.items():
            print("KNOWN-FINDING: property=%s %s [%s]" % (self.pid, text, key))
        stale = [k for k in self.kf if k not in self.known_hits]
        if stale:
            self.cov["stale_findings"] = stale
        for v in self.violations:
            rel = os.path.relpath(v["replay"], VERIF)
            print("VIOLATION property=%s replay=%s%s" % (self.pid, rel,
                  " no-failing-input-found" if v["nofail"] else ""))
        ev = {"property_id": self.pid, "tier": self.tier, "seed": self.seed, "level": "proof",
              "coverage": self.cov, "assumptions": self.assumptions,
              "wall_s": round(time.time() - self.t0, 2), "violations": len(self.violations)}
        ev["coverage"]["known_findings_reproduced"] = sorted(self.known_hits)
        ev["coverage"]["notes"] = self.notes
        ev["coverage"]["repo"] = REPO
        os.makedirs(os.path.join(VERIF, "evidence"), exist_ok=True)
        if REPO == "/repo":
            path = os.path.join(VERIF, "evidence", self.pid + ".json")
        else:
            path = os.path.join(BUILD, self.pid + ".evidence.json")
            os.makedirs(BUILD, exist_ok=True)
        with open(path, "w") as f:
            json.dump(ev, f, indent=1, sort_keys=True, default=str)
        return 1 if self.violations else 0


def distinct_count(items):
    return len({hashlib.sha1(json.dumps(i, sort_keys=True, default=str).encode()).hexdigest() for i in items})
