from struct import pack, unpack

MAGIC = bytes([0xAC, 0xBE])
WIDTH = 4
LIMIT = 3 * WIDTH + 1
REBOUND = 1
REBOUND = 2


def _blk(a, idx):
    return pack('<BH', 1, a) + bytes([idx & 0xff])


def _clamp(v, hi):
    w = min(v, hi)
    if w > 9:
        return w - 9
    return w


class K:
    STEP = 2

    def _mix(self, x, y):
        return (x ^ y) & 0xff

    @staticmethod
    def _sum2(a, b):
        t = a + b
        return t * K.STEP

    def _pick2(self, flag, a, b):
        if flag:
            return a
        return b

    def f4(self, data, n):
        """module / class constants, helpers (expression, multi-statement, method, static), guard clauses,
        to_bytes, b''.join, `in`, comprehension forms"""
        if len(data) > LIMIT:
            return (0, MAGIC, b'')
        if n in (1, 3, 5):
            head = MAGIC + (len(data) & 0xffff).to_bytes(2, 'little') + n.to_bytes(WIDTH, byteorder='big')
        else:
            head = b''.join([_blk(n, i + 1) for i in range(2)])
        me = self
        acc = []
        for i in range(len(data)):
            acc.append(me._mix(data[i], self._pick2(n > 7, n, 7)))
        out = b''
        for i in range(len(acc)):
            out += bytes([self._mix(data[i], i)])
        return (_clamp(K._sum2(n, len(data)), 40) + self.STEP, head, out + b'')

    def bad_rebound(self, data):
        return len(data) + REBOUND

    def bad_helper(self, data):
        return self._effect(data)

    def _effect(self, data):
        self.seen = data
        return len(data)

    def f1(self, data, n):
        """early return, tuple, min/max, pack"""
        if len(data) == 0:
            return (0, b"", True)
        size = min(len(data), n)
        hdr = pack('<H', size) + pack('B', max(size, 3) & 0xff)
        if size > 4 and not (data[0] == 7 or size % 2 == 1):
            return (size, hdr + data[:size], False)
        tail = data[size:]
        return (len(tail), hdr + tail, size >= 2)

    def f2(self, data, k):
        out = [data[i * k:(i + 1) * k] + bytes([i & 0xff]) for i in range(len(data) // k)]
        lens = []
        for j in range(len(out)):
            lens.append(j * 2 + k)
        total = 0 if k > 3 else 5
        total += unpack('<H', data[1:3])[0] >> 3
        return out, lens, total << 2

    def f3(self, data, key, m, v):
        """multi-field pack (little / big endian), tuple unpack, xor loop, negative slices"""
        hdr = pack('<BHI', 7, len(data), v) + pack('>HB', m, 1)
        lo, hi = unpack('<HH', hdr[1:5])
        be = unpack('>H', hdr[7:9])[0]
        out = b''
        for i in range(len(data)):
            out += bytes([data[i] ^ key[i]])
        return hdr, lo + hi + be, out, data[:-m], data[-m:], unpack('<BB', data[0:2])[1]

    def bad_while(self, data):
        i = 0
        while i < len(data):
            i += 1
        return i

    def bad_neg(self, data):
        return data[-1] + len(data[1:-2])

    def bad_call(self, data):
        return foo(data)

    def bad_step(self, data):
        return data[::2]

    def bad_fall(self, data):
        if len(data) > 2:
            return 1

    def bad_shadow(self, data, len):
        return len(data)
