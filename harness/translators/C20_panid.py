"""C20 translator: whad/dot15d4/stack/mac/constants.py::PANID_COMPRESSION_TABLE,
MACAddressMode and whad/dot15d4/stack/mac/__init__.py::MACManager._choose_pan_id_compression
-> Gallina text (python3 stdlib `ast` only; fail-closed).

Supported grammar of the function (anything else raises Unsupported, nothing is skipped):
  stmt   ::= if <bool> : stmt+ [else|elif ...]            (only in tail position of a block)
           | packet.fcf_panidcompress = <num>
           | <local> = <GLOBAL>[( <num>, <num>, <bool>, <bool> )]
           | return packet
  bool   ::= <bool> and <bool> | <bool> or <bool> | not <bool>
           | <num> == <num> | <num> != <num> | <num> in (<const>, ...)
           | <opt> == <opt> | <opt> != <opt>
           | hasattr(packet, "dest_panid") | hasattr(packet, "src_panid") | True | False
  num    ::= <int const> | MACAddressMode.<NAME> | destination_address_mode | source_address_mode
           | packet.fcf_framever | <local>
  opt    ::= packet.dest_panid | packet.src_panid            (value or None)

Before translation the function is NORMALISED on the AST (class Inliner; nothing is generated from
un-normalised text and every step is fail-closed):
  * a call `self._h(a..)`, `cls._h(a..)`, `MACManager._h(a..)` (method, staticmethod, classmethod of the
    same class) or `_h(a..)` (function of the same module) is replaced by the helper's result expression
    with the parameters substituted, transitively (recursion and depth > 8 are refused). The helper's
    body must be: docstring*, `x = <expr>` bindings, and an if/elif/else or early-return cascade whose
    every path ends in `return <expr>`; it becomes a conditional expression (`a if t else b`). All
    expressions of the grammar are pure, so substitution preserves meaning.
  * a name bound exactly once at module level, or `self.X`/`cls.X`/`MACManager.X` bound exactly once in
    the class body, to an int/bool literal or MACAddressMode.<NAME>, or imported from the constants
    module where it is bound once to such a value, is replaced by that value (unless shadowed).
Additional grammar accepted after normalisation: conditional expressions in <bool>/<num>,
`<num> not in (...)`, and local bindings `<local> = <bool>|<num>` in the main function. Merged or split
`and`/`or` conditions, nested vs flat `if`s and guard clauses (`if ..: ...; return packet`) are all in
the statement grammar above; they change the generated TEXT, in which case the check re-proves every
theorem against the regenerated definition (see harness/props/C20.py translator_step).

Meaning in Coq: the function becomes
  choose_panid (framever dam sam : N) (has_dp has_sp : bool) (dp sp : option N) : cres
returning `COk bit` (the value finally stored in packet.fcf_panidcompress, initially c0 = 0 —
every path of the present source assigns it) or `CRaise NameError|KeyError`.  A global name
that the module whad.dot15d4.stack.mac does not bind is `CRaise NameError` at the point where
Python would evaluate it; a key missing from the table is `CRaise KeyError`.
"""
import ast
import copy
import hashlib
import os

MAC_REL = "whad/dot15d4/stack/mac/__init__.py"
CONST_REL = "whad/dot15d4/stack/mac/constants.py"
CONST_MOD = "whad.dot15d4.stack.mac.constants"
FUNC = "_choose_pan_id_compression"
TABLE = "PANID_COMPRESSION_TABLE"


class Unsupported(Exception):
    pass


def _seg(src_lines, node):
    return "".join(src_lines[node.lineno - 1:node.end_lineno])


def _sha(s):
    return hashlib.sha256(s.encode()).hexdigest()


def parse_enum(tree, name):
    for n in tree.body:
        if isinstance(n, ast.ClassDef) and n.name == name:
            vals = {}
            for st in n.body:
                if isinstance(st, ast.Expr) and isinstance(st.value, ast.Constant) and isinstance(st.value.value, str):
                    continue
                if (isinstance(st, ast.Assign) and len(st.targets) == 1 and isinstance(st.targets[0], ast.Name)
                        and isinstance(st.value, ast.Constant) and isinstance(st.value.value, int)
                        and not isinstance(st.value.value, bool) and st.value.value >= 0):
                    vals[st.targets[0].id] = st.value.value
                else:
                    raise Unsupported("%s: unsupported class statement at line %d" % (name, st.lineno))
            return vals, n
    raise Unsupported("class %s not found" % name)


def parse_table(tree, enum):
    for n in tree.body:
        if (isinstance(n, ast.Assign) and len(n.targets) == 1 and isinstance(n.targets[0], ast.Name)
                and n.targets[0].id == TABLE):
            if not isinstance(n.value, ast.Dict):
                raise Unsupported("%s is not a dict display" % TABLE)
            tab = {}
            for k, v in zip(n.value.keys, n.value.values):
                if not (isinstance(k, ast.Tuple) and len(k.elts) == 4):
                    raise Unsupported("table key at line %d is not a 4-tuple" % (k.lineno if k else n.lineno))
                key = []
                for i, e in enumerate(k.elts):
                    if i < 2:
                        if (isinstance(e, ast.Attribute) and isinstance(e.value, ast.Name)
                                and e.value.id == "MACAddressMode" and e.attr in enum):
                            key.append(enum[e.attr])
                        else:
                            raise Unsupported("table key element at line %d" % e.lineno)
                    else:
                        if isinstance(e, ast.Constant) and isinstance(e.value, bool):
                            key.append(e.value)
                        else:
                            raise Unsupported("table key element at line %d" % e.lineno)
                if not (isinstance(v, ast.Constant) and isinstance(v.value, int) and not isinstance(v.value, bool)
                        and v.value >= 0):
                    raise Unsupported("table value at line %d" % v.lineno)
                tab[tuple(key)] = v.value      # a repeated key: the last one wins, as in Python
            return tab, n
    raise Unsupported("%s not found" % TABLE)


def module_bindings(tree):
    """Names bound at module level; value = module they are imported from (or '' )."""
    b = {}
    star = []
    for n in tree.body:
        if isinstance(n, ast.ImportFrom):
            for a in n.names:
                if a.name == "*":
                    star.append(n.module)
                else:
                    b[a.asname or a.name] = (n.module or "", a.name)
        elif isinstance(n, ast.Import):
            for a in n.names:
                b[(a.asname or a.name).split(".")[0]] = ("", a.name)
        elif isinstance(n, (ast.FunctionDef, ast.ClassDef)):
            b[n.name] = ("", n.name)
        elif isinstance(n, ast.Assign):
            for t in n.targets:
                if isinstance(t, ast.Name):
                    b[t.id] = ("", t.id)
    return b, star


MAX_INLINE_DEPTH = 8


def _is_doc(st):
    return isinstance(st, ast.Expr) and isinstance(st.value, ast.Constant) and isinstance(st.value.value, str)


def _const_value(v):
    """int/bool literal or MACAddressMode.<NAME> (kept as AST), else None."""
    if isinstance(v, ast.Constant) and isinstance(v.value, (int, bool)) and not isinstance(v.value, float):
        if isinstance(v.value, bool) or v.value >= 0:
            return v
    if (isinstance(v, ast.Attribute) and isinstance(v.value, ast.Name) and v.value.id == "MACAddressMode"):
        return v
    if isinstance(v, ast.Tuple) and v.elts and all(_const_value(x) is not None and not isinstance(x, ast.Tuple)
                                                    for x in v.elts):
        return v        # tuple of such values (right operand of `in` / `not in`)
    return None


def _once_bound_consts(body):
    """name -> value AST for names assigned exactly once in this statement list to a constant value
    (and not otherwise rebound by def/class/import/augmented assignment/for/with at this level)."""
    count, val = {}, {}
    for st in body:
        names = []
        if isinstance(st, ast.Assign):
            for t in st.targets:
                for n in ast.walk(t):
                    if isinstance(n, ast.Name):
                        names.append(n.id)
            if len(st.targets) == 1 and isinstance(st.targets[0], ast.Name):
                val[st.targets[0].id] = _const_value(st.value)
        elif isinstance(st, (ast.AugAssign, ast.AnnAssign)):
            if isinstance(st.target, ast.Name):
                names.append(st.target.id)
                val[st.target.id] = None
        elif isinstance(st, (ast.FunctionDef, ast.AsyncFunctionDef, ast.ClassDef)):
            names.append(st.name)
        elif isinstance(st, (ast.Import, ast.ImportFrom)):
            for a in st.names:
                names.append((a.asname or a.name).split(".")[0])
        elif not _is_doc(st) and not isinstance(st, (ast.Pass,)):
            for n in ast.walk(st):      # for / with / try / if at this level: anything they store is "not once"
                if isinstance(n, ast.Name) and isinstance(n.ctx, (ast.Store, ast.Del)):
                    names += [n.id, n.id]
        for n in names:
            count[n] = count.get(n, 0) + 1
    return {n: v for n, v in val.items() if v is not None and count.get(n) == 1}


def _rebinds_globals(tree):
    """Names declared `global` anywhere in the module (they may be rebound at run time)."""
    out = set()
    for n in ast.walk(tree):
        if isinstance(n, ast.Global):
            out.update(n.names)
    return out


class _Subst(ast.NodeTransformer):
    def __init__(self, env):
        self.env = env

    def visit_Name(self, node):
        if isinstance(node.ctx, ast.Load) and node.id in self.env:
            return copy.deepcopy(self.env[node.id])
        return node


class Inliner:
    """AST -> AST normalisation of one function: helper calls inlined, constants resolved."""

    def __init__(self, mac_tree, const_tree, cls_node, binds, star):
        self.cls = cls_node
        self.cls_funcs = {st.name: st for st in cls_node.body if isinstance(st, ast.FunctionDef)}
        self.mod_funcs = {st.name: st for st in mac_tree.body if isinstance(st, ast.FunctionDef)}
        rebound = _rebinds_globals(mac_tree)
        self.mod_consts = {k: v for k, v in _once_bound_consts(mac_tree.body).items() if k not in rebound}
        self.cls_consts = _once_bound_consts(cls_node.body)
        cm = _once_bound_consts(const_tree.body)
        crebound = _rebinds_globals(const_tree)
        for name, (mod, orig) in binds.items():
            if mod == CONST_MOD and orig in cm and orig not in crebound and name not in self.mod_consts:
                if sum(1 for st in mac_tree.body for a in getattr(st, "names", [])
                       if isinstance(st, (ast.Import, ast.ImportFrom)) and (a.asname or a.name) == name) == 1:
                    self.mod_consts[name] = cm[orig]
        self.used = []          # helpers inlined (FunctionDef nodes), for the source ties
        self.consts_used = set()

    # -- helper bodies -----------------------------------------------------
    def body_expr(self, stmts, env, where):
        """statement list of a helper -> its result expression (params/locals substituted)."""
        stmts = [st for st in stmts if not _is_doc(st) and not isinstance(st, ast.Pass)]
        if not stmts:
            raise Unsupported("helper %s: a path ends without `return <expr>`" % where)
        st, rest = stmts[0], stmts[1:]
        if isinstance(st, ast.Return):
            if st.value is None:
                raise Unsupported("helper %s: bare return at line %d" % (where, st.lineno))
            return _Subst(env).visit(copy.deepcopy(st.value))
        if isinstance(st, ast.Assign) and len(st.targets) == 1 and isinstance(st.targets[0], ast.Name):
            env2 = dict(env)
            env2[st.targets[0].id] = _Subst(env).visit(copy.deepcopy(st.value))
            return self.body_expr(rest, env2, where)
        if isinstance(st, ast.If):
            test = _Subst(env).visit(copy.deepcopy(st.test))
            a = self.body_expr(list(st.body) + rest, env, where)
            b = self.body_expr(list(st.orelse) + rest, env, where)
            return ast.copy_location(ast.IfExp(test=test, body=a, orelse=b), st)
        raise Unsupported("helper %s: statement at line %d (%s) is outside the grammar"
                          % (where, st.lineno, type(st).__name__))

    def resolve_call(self, call):
        """-> (FunctionDef, implicit_first_arg or None, label) or None when the call is not a helper call."""
        f = call.func
        if isinstance(f, ast.Name):
            if f.id in self.mod_funcs:
                return self.mod_funcs[f.id], None, f.id
            return None
        if isinstance(f, ast.Attribute) and isinstance(f.value, ast.Name) and f.value.id in ("self", "cls", self.cls.name):
            fn = self.cls_funcs.get(f.attr)
            if fn is None:
                raise Unsupported("call of %s.%s at line %d: not a method defined in class %s"
                                  % (f.value.id, f.attr, call.lineno, self.cls.name))
            decos = []
            for d in fn.decorator_list:
                if isinstance(d, ast.Name) and d.id in ("staticmethod", "classmethod"):
                    decos.append(d.id)
                else:
                    raise Unsupported("helper %s has a decorator outside the grammar (line %d)" % (fn.name, d.lineno))
            label = "%s.%s" % (self.cls.name, fn.name)
            if "staticmethod" in decos:
                return fn, None, label
            if "classmethod" in decos:
                return fn, ast.Name(id="cls", ctx=ast.Load()), label
            if f.value.id == "self":
                return fn, ast.Name(id="self", ctx=ast.Load()), label
            if f.value.id == self.cls.name:
                return fn, None, label          # plain function taken from the class: first argument explicit
            raise Unsupported("instance method %s called through cls at line %d" % (fn.name, call.lineno))
        return None

    def inline_call(self, call, stack):
        r = self.resolve_call(call)
        if r is None:
            return None
        fn, first, label = r
        if label in stack:
            raise Unsupported("recursive helper %s (line %d)" % (label, call.lineno))
        if len(stack) >= MAX_INLINE_DEPTH:
            raise Unsupported("helper nesting deeper than %d at line %d" % (MAX_INLINE_DEPTH, call.lineno))
        a = fn.args
        if a.vararg or a.kwarg or a.kwonlyargs or a.posonlyargs:
            raise Unsupported("helper %s: parameter kinds outside the grammar" % label)
        if any(isinstance(x, ast.Starred) for x in call.args) or any(k.arg is None for k in call.keywords):
            raise Unsupported("call of %s at line %d uses * or **" % (label, call.lineno))
        params = [p.arg for p in a.args]
        actual = ([first] if first is not None else []) + list(call.args)
        if len(actual) > len(params):
            raise Unsupported("call of %s at line %d: too many arguments" % (label, call.lineno))
        env = dict(zip(params, actual))
        for k in call.keywords:
            if k.arg not in params or k.arg in env:
                raise Unsupported("call of %s at line %d: bad keyword %s" % (label, call.lineno, k.arg))
            env[k.arg] = k.value
        defaults = dict(zip(params[len(params) - len(a.defaults):], a.defaults))
        for p in params:
            if p not in env:
                if p in defaults and _const_value(defaults[p]) is not None:
                    env[p] = defaults[p]
                else:
                    raise Unsupported("call of %s at line %d: parameter %s not supplied" % (label, call.lineno, p))
        for n in ast.walk(fn):
            if isinstance(n, (ast.Global, ast.Nonlocal, ast.Lambda, ast.FunctionDef, ast.Yield, ast.YieldFrom,
                              ast.Await, ast.NamedExpr)) and n is not fn:
                raise Unsupported("helper %s: %s at line %d is outside the grammar"
                                  % (label, type(n).__name__, getattr(n, "lineno", fn.lineno)))
        # arguments are normalised in the caller's context first, the helper body in its own
        env = {k: self.expr(v, stack, shadow=None) if not (isinstance(v, ast.Name) and v.id in ("self", "cls")) else v
               for k, v in env.items()}
        e = self.body_expr(list(fn.body), env, label)
        if fn not in self.used:
            self.used.append(fn)
        # the substituted body may itself contain helper calls / constants of the helper's scope
        local = {p for p in params} | {t.id for st in ast.walk(fn) if isinstance(st, ast.Assign)
                                      for t in st.targets if isinstance(t, ast.Name)}
        return self.expr(e, stack + [label], shadow=local - set(env))

    # -- expressions ---------------------------------------------------------
    def expr(self, e, stack, shadow):
        inl = self

        class T(ast.NodeTransformer):
            def visit_Call(self, node):
                r = inl.inline_call(node, stack)
                if r is not None:
                    return ast.copy_location(r, node)
                return self.generic_visit(node)

            def visit_Name(self, node):
                if (isinstance(node.ctx, ast.Load) and node.id in inl.mod_consts
                        and not (shadow and node.id in shadow)):
                    inl.consts_used.add(node.id)
                    return ast.copy_location(copy.deepcopy(inl.mod_consts[node.id]), node)
                return node

            def visit_Attribute(self, node):
                if (isinstance(node.ctx, ast.Load) and isinstance(node.value, ast.Name)
                        and node.value.id in ("self", "cls", inl.cls.name) and node.attr in inl.cls_consts
                        and not (node.value.id in ("self", "cls") and node.attr in inl.instance_attrs())):
                    inl.consts_used.add("%s.%s" % (inl.cls.name, node.attr))
                    return ast.copy_location(copy.deepcopy(inl.cls_consts[node.attr]), node)
                return self.generic_visit(node)

        return T().visit(copy.deepcopy(e))

    def instance_attrs(self):
        """attribute names assigned through self./cls. anywhere in the class (they shadow class constants)."""
        if not hasattr(self, "_ia"):
            self._ia = set()
            for n in ast.walk(self.cls):
                if (isinstance(n, ast.Attribute) and isinstance(n.ctx, (ast.Store, ast.Del))
                        and isinstance(n.value, ast.Name) and n.value.id in ("self", "cls", self.cls.name)):
                    self._ia.add(n.attr)
        return self._ia

    # -- the function under translation -----------------------------------------
    def function(self, fn):
        shadow = {a.arg for a in fn.args.args} | {t.id for st in ast.walk(fn) if isinstance(st, ast.Assign)
                                                  for t in st.targets if isinstance(t, ast.Name)}
        inl = self

        class S(ast.NodeTransformer):
            def generic_stmt_exprs(self, node):
                return node

            def visit_If(self, node):
                node.test = inl.expr(node.test, [], shadow)
                node.body = [self.visit(x) for x in node.body]
                node.orelse = [self.visit(x) for x in node.orelse]
                return node

            def visit_Assign(self, node):
                node.value = inl.expr(node.value, [], shadow)
                return node

            def visit_Return(self, node):
                return node

        out = copy.deepcopy(fn)
        out.body = [S().visit(st) for st in out.body]
        ast.fix_missing_locations(out)
        return out


class FnTranslator:
    def __init__(self, fn, enum, table_bound):
        self.fn, self.enum, self.table_bound = fn, enum, table_bound
        args = [a.arg for a in fn.args.args]
        if args != ["self", "packet", "destination_address_mode", "source_address_mode"]:
            raise Unsupported("unexpected signature %r" % args)
        self.locals = set()
        self.bool_locals = set()

    # ---- expressions ----
    def num(self, e):
        if isinstance(e, ast.Constant) and isinstance(e.value, int) and not isinstance(e.value, bool) and e.value >= 0:
            return "%d" % e.value
        if isinstance(e, ast.Attribute) and isinstance(e.value, ast.Name):
            if e.value.id == "MACAddressMode" and e.attr in self.enum:
                return "MACAddressMode_%s" % e.attr
            if e.value.id == "packet" and e.attr == "fcf_framever":
                return "framever"
        if isinstance(e, ast.Name):
            if e.id == "destination_address_mode":
                return "dam"
            if e.id == "source_address_mode":
                return "sam"
            if e.id in self.locals and e.id not in self.bool_locals:
                return "v_" + e.id
        if isinstance(e, ast.IfExp):
            a, b = self.num(e.body), self.num(e.orelse)
            if a is not None and b is not None:
                return "(if %s then %s else %s)" % (self.boolean(e.test), a, b)
        return None

    def opt(self, e):
        if isinstance(e, ast.Attribute) and isinstance(e.value, ast.Name) and e.value.id == "packet":
            if e.attr == "dest_panid":
                return "dp"
            if e.attr == "src_panid":
                return "sp"
        return None

    def boolean(self, e):
        if isinstance(e, ast.BoolOp):
            op = "andb" if isinstance(e.op, ast.And) else "orb" if isinstance(e.op, ast.Or) else None
            if op is None:
                raise Unsupported("bool op at line %d" % e.lineno)
            parts = [self.boolean(v) for v in e.values]
            out = parts[-1]
            for p in reversed(parts[:-1]):
                out = "(%s %s %s)" % (op, p, out)
            return out
        if isinstance(e, ast.UnaryOp) and isinstance(e.op, ast.Not):
            return "(negb %s)" % self.boolean(e.operand)
        if isinstance(e, ast.Constant) and isinstance(e.value, bool):
            return "true" if e.value else "false"
        if isinstance(e, ast.IfExp):
            return "(if %s then %s else %s)" % (self.boolean(e.test), self.boolean(e.body), self.boolean(e.orelse))
        if isinstance(e, ast.Name) and e.id in self.bool_locals:
            return "v_" + e.id
        if isinstance(e, ast.Call):
            if (isinstance(e.func, ast.Name) and e.func.id == "hasattr" and len(e.args) == 2 and not e.keywords
                    and isinstance(e.args[0], ast.Name) and e.args[0].id == "packet"
                    and isinstance(e.args[1], ast.Constant) and e.args[1].value in ("dest_panid", "src_panid")):
                return "has_dp" if e.args[1].value == "dest_panid" else "has_sp"
            raise Unsupported("call at line %d" % e.lineno)
        if isinstance(e, ast.Compare) and len(e.ops) == 1:
            op, l, r = e.ops[0], e.left, e.comparators[0]
            if isinstance(op, (ast.Eq, ast.NotEq)):
                ln, rn = self.num(l), self.num(r)
                lo, ro = self.opt(l), self.opt(r)
                if ln is not None and rn is not None:
                    t = "(N.eqb %s %s)" % (ln, rn)
                elif lo is not None and ro is not None:
                    t = "(optN_eqb %s %s)" % (lo, ro)
                else:
                    raise Unsupported("comparison operands at line %d" % e.lineno)
                return t if isinstance(op, ast.Eq) else "(negb %s)" % t
            if isinstance(op, ast.NotIn) and isinstance(r, ast.Tuple):
                pos = ast.copy_location(ast.Compare(left=l, ops=[ast.In()], comparators=[r]), e)
                return "(negb %s)" % self.boolean(pos)
            if isinstance(op, ast.In) and isinstance(r, ast.Tuple):
                ln = self.num(l)
                items = [self.num(x) for x in r.elts]
                if ln is None or any(i is None for i in items) or not items:
                    raise Unsupported("membership test at line %d" % e.lineno)
                out = "(N.eqb %s %s)" % (ln, items[-1])
                for it in reversed(items[:-1]):
                    out = "(orb (N.eqb %s %s) %s)" % (ln, it, out)
                return out
        raise Unsupported("boolean expression at line %d: %s" % (getattr(e, "lineno", 0), ast.dump(e)[:80]))

    # ---- statements ----
    def block(self, stmts, ind):
        """stmts in tail position -> Gallina expression of type cres."""
        pad = "  " * ind
        if not stmts:
            raise Unsupported("control reaches the end of the function without `return packet`")
        s, rest = stmts[0], stmts[1:]
        if isinstance(s, ast.Expr) and isinstance(s.value, ast.Constant) and isinstance(s.value.value, str):
            return self.block(rest, ind)
        if isinstance(s, ast.Return):
            if isinstance(s.value, ast.Name) and s.value.id == "packet":
                return pad + "COk c"
            raise Unsupported("return value at line %d" % s.lineno)
        if isinstance(s, ast.If):
            saved, saved_b = set(self.locals), set(self.bool_locals)
            a = self.block(list(s.body) + rest, ind + 1)
            self.locals, self.bool_locals = set(saved), set(saved_b)
            b = self.block(list(s.orelse) + rest, ind + 1)
            self.locals, self.bool_locals = saved, saved_b
            return "%sif %s then\n%s\n%selse\n%s" % (pad, self.boolean(s.test), a, pad, b)
        if isinstance(s, ast.Assign) and len(s.targets) == 1:
            t, v = s.targets[0], s.value
            if (isinstance(t, ast.Attribute) and isinstance(t.value, ast.Name) and t.value.id == "packet"
                    and t.attr == "fcf_panidcompress"):
                n = self.num(v)
                if n is None:
                    raise Unsupported("assigned value at line %d" % s.lineno)
                return "%slet c := %s in\n%s" % (pad, n, self.block(rest, ind))
            if isinstance(t, ast.Name) and isinstance(v, ast.Subscript) and isinstance(v.value, ast.Name):
                if v.value.id != TABLE:
                    raise Unsupported("subscript of %s at line %d" % (v.value.id, s.lineno))
                key = v.slice
                if not (isinstance(key, ast.Tuple) and len(key.elts) == 4):
                    raise Unsupported("table key at line %d" % s.lineno)
                k = [self.num(key.elts[0]), self.num(key.elts[1]), None, None]
                if k[0] is None or k[1] is None:
                    raise Unsupported("table key at line %d" % s.lineno)
                k[2], k[3] = self.boolean(key.elts[2]), self.boolean(key.elts[3])
                if not self.table_bound:
                    # the global name is not bound in the module: evaluating it raises NameError
                    return pad + "CRaise NameError"
                self.locals.add(t.id)
                body = self.block(rest, ind + 1)
                return ("%smatch panid_lookup panid_table (%s, %s, %s, %s) with\n%s| None => CRaise KeyError\n"
                        "%s| Some v_%s =>\n%s\n%send" % (pad, k[0], k[1], k[2], k[3], pad, pad, t.id, body, pad))
            if isinstance(t, ast.Name) and t.id not in ("packet", "self", "destination_address_mode", "source_address_mode"):
                # local binding of a pure expression of the grammar
                n = self.num(v)
                if n is not None:
                    self.locals.add(t.id)
                    self.bool_locals.discard(t.id)
                    return "%slet v_%s := %s in\n%s" % (pad, t.id, n, self.block(rest, ind))
                bexp = self.boolean(v)
                self.locals.add(t.id)
                self.bool_locals.add(t.id)
                return "%slet v_%s := %s in\n%s" % (pad, t.id, bexp, self.block(rest, ind))
        raise Unsupported("statement at line %d: %s" % (s.lineno, type(s).__name__))


def translate(repo):
    """Returns (coq_text, info) or raises Unsupported / OSError."""
    mac_src = open(os.path.join(repo, MAC_REL)).read()
    const_src = open(os.path.join(repo, CONST_REL)).read()
    mac_tree, const_tree = ast.parse(mac_src), ast.parse(const_src)
    mac_lines, const_lines = mac_src.splitlines(keepends=True), const_src.splitlines(keepends=True)
    enum, enum_node = parse_enum(const_tree, "MACAddressMode")
    for need in ("NONE", "SHORT", "EXTENDED"):
        if need not in enum:
            raise Unsupported("MACAddressMode.%s missing" % need)
    table, table_node = parse_table(const_tree, enum)
    binds, star = module_bindings(mac_tree)
    table_bound = (TABLE in binds and binds[TABLE] == (CONST_MOD, TABLE)) or (CONST_MOD in star)
    if TABLE in binds and binds[TABLE] != (CONST_MOD, TABLE):
        raise Unsupported("%s is bound to something else in the MAC module: %r" % (TABLE, binds[TABLE]))
    if "MACAddressMode" not in binds or binds["MACAddressMode"] != (CONST_MOD, "MACAddressMode"):
        if CONST_MOD not in star:
            raise Unsupported("MACAddressMode is not imported from the constants module")
    fn, cls_node = None, None
    for n in mac_tree.body:
        if isinstance(n, ast.ClassDef) and n.name == "MACManager":
            cls_node = n
            for st in n.body:
                if isinstance(st, ast.FunctionDef) and st.name == FUNC:
                    fn = st
    if fn is None:
        raise Unsupported("MACManager.%s not found" % FUNC)
    if fn.decorator_list:
        raise Unsupported("MACManager.%s is decorated" % FUNC)
    inliner = Inliner(mac_tree, const_tree, cls_node, binds, star)
    norm = inliner.function(fn)
    tr = FnTranslator(norm, enum, table_bound)
    body = tr.block(list(norm.body), 1)
    ties = [
        {"item": "MACAddressMode", "file": CONST_REL, "lines": [enum_node.lineno, enum_node.end_lineno],
         "sha256": _sha(_seg(const_lines, enum_node))},
        {"item": TABLE, "file": CONST_REL, "lines": [table_node.lineno, table_node.end_lineno],
         "sha256": _sha(_seg(const_lines, table_node))},
        {"item": "MACManager." + FUNC, "file": MAC_REL, "lines": [fn.lineno, fn.end_lineno],
         "sha256": _sha(_seg(mac_lines, fn))},
    ]
    for h in inliner.used:
        first = min([h.lineno] + [d.lineno for d in h.decorator_list])
        seg = "".join(mac_lines[first - 1:h.end_lineno])
        ties.append({"item": "inlined helper " + h.name, "file": MAC_REL, "lines": [first, h.end_lineno],
                     "sha256": _sha(seg)})
    out = []
    out.append("(** GENERATED by harness/translators/C20_panid.py -- do not edit.")
    for t in ties:
        out.append("    %s : %s lines %d-%d sha256 %s" % (t["item"], t["file"], t["lines"][0], t["lines"][1], t["sha256"]))
    out.append("    %s bound in the MAC module namespace: %s *)" % (TABLE, "yes" if table_bound else "NO (NameError)"))
    out.append("From Coq Require Import List NArith Bool.")
    out.append("Import ListNotations.")
    out.append("Open Scope N_scope.")
    out.append("")
    out.append("Inductive cexn := NameError | KeyError.")
    out.append("Inductive cres := COk (bit : N) | CRaise (e : cexn).")
    out.append("")
    for k in sorted(enum, key=lambda x: (enum[x], x)):
        out.append("Definition MACAddressMode_%s : N := %d." % (k, enum[k]))
    out.append("")
    out.append("Definition optN_eqb (a b : option N) : bool :=")
    out.append("  match a, b with Some x, Some y => N.eqb x y | None, None => true | _, _ => false end.")
    out.append("")
    out.append("Definition panid_key := (N * N * bool * bool)%type.")
    out.append("Definition panid_key_eqb (a b : panid_key) : bool :=")
    out.append("  let '(a1, a2, a3, a4) := a in let '(b1, b2, b3, b4) := b in")
    out.append("  N.eqb a1 b1 && N.eqb a2 b2 && Bool.eqb a3 b3 && Bool.eqb a4 b4.")
    out.append("Fixpoint panid_lookup (t : list (panid_key * N)) (k : panid_key) : option N :=")
    out.append("  match t with [] => None | (k', v) :: r => if panid_key_eqb k' k then Some v else panid_lookup r k end.")
    out.append("")
    out.append("(** (dest. mode, src. mode, dest. PAN id present, src. PAN id present) -> PAN id compression bit;")
    out.append("    sorted by key, a key repeated in the source keeps its last value (Python dict display). *)")
    out.append("Definition panid_table : list (panid_key * N) := [")
    rows = ["  ((%d, %d, %s, %s), %d)" % (k[0], k[1], "true" if k[2] else "false", "true" if k[3] else "false", v)
            for k, v in sorted(table.items())]
    out.append(";\n".join(rows))
    out.append("].")
    out.append("")
    out.append("Definition panid_table_bound_in_mac_module : bool := %s." % ("true" if table_bound else "false"))
    out.append("")
    out.append("Definition choose_panid (framever dam sam : N) (has_dp has_sp : bool) (dp sp : option N) : cres :=")
    out.append("  let c := 0 in")
    out.append(body + ".")
    out.append("")
    text = "\n".join(out)
    return text, {"ties": ties, "table_bound": table_bound, "table": sorted([list(k) + [v] for k, v in table.items()]),
                  "enum": enum, "inlined_helpers": [h.name for h in inliner.used],
                  "constants_resolved": sorted(inliner.consts_used)}


def strip_header(text):
    """The generated text without its leading comment (source hashes)."""
    i = text.find("*)")
    return text[i + 2:].strip() if text.startswith("(**") and i >= 0 else text.strip()


if __name__ == "__main__":
    import sys
    t, info = translate(sys.argv[1] if len(sys.argv) > 1 else os.environ.get("VERIF_REPO", "/repo"))
    sys.stdout.write(t)
