#!/usr/bin/env python3
"""Self-test of the pure-function translator (pyfun.py) on synthetic functions that cover the
grammar beyond what the tied whad functions use (early return, tuples, min/max, pack/unpack,
shifts, boolean operators, if-expressions, comprehensions, for/append), and on functions that
must be REFUSED (fail-closed).  The accepted ones are validated differentially: CPython runs
pyfun_selftest_src/synthpkg/synth.py, Coq evaluates the generated Gallina, on the same inputs.

    python3 harness/translators/pyfun_selftest.py        (exit 0 = all good; ~10 s)
"""
import os
import sys
import types

HERE = os.path.dirname(os.path.abspath(__file__))
os.environ["VERIF_REPO"] = os.path.join(HERE, "pyfun_selftest_src")
sys.path.insert(0, os.path.dirname(os.path.dirname(HERE)))
from harness import common as C                      # noqa: E402
from harness.props import pyfun_util as U            # noqa: E402

SRC = "synthpkg/synth.py"
REFUSED = ["K.bad_while", "K.bad_neg", "K.bad_call", "K.bad_step", "K.bad_fall", "K.bad_shadow", "K.bad_rebound", "K.bad_helper"]


def _b(rng, n):
    return bytes(rng.choice([rng.randrange(256), 7, 0]) for _ in range(n))


MOD = types.SimpleNamespace(TITLE="synthetic functions (translator self-test)", MODEL_IMPORT="", ITEMS=[
    {"path": SRC, "qualname": "K.f1", "spec": {"name": "f1", "inputs": [["data", "data", "bytes"], ["n", "n", "nat"]]},
     "gen": lambda rng: {"data": _b(rng, rng.randrange(0, 12)), "n": rng.randrange(0, 14)},
     "live": "def live(a):\n    return MOD.K.f1(None, a['data'], a['n'])\n"},
    {"path": SRC, "qualname": "K.f2", "spec": {"name": "f2", "inputs": [["data", "data", "bytes"], ["k", "k", "nat"]]},
     "gen": lambda rng: {"data": _b(rng, rng.randrange(3, 20)), "k": rng.randrange(1, 7)},
     "live": "def live(a):\n    return MOD.K.f2(None, a['data'], a['k'])\n"},
    {"path": SRC, "qualname": "K.f3",
     "spec": {"name": "f3", "inputs": [["data", "data", "bytes"], ["key", "key", "bytes"], ["m", "m", "nat"], ["v", "v", "N"]]},
     "gen": lambda rng: (lambda n: {"data": _b(rng, n), "key": _b(rng, n + rng.randrange(0, 3)), "m": rng.randrange(0, 7),
                                    "v": rng.choice([0, 1, 255, 65536, 2 ** 32 - 1, rng.randrange(0, 2 ** 32)])})(rng.randrange(2, 12)),
     "live": "def live(a):\n    return MOD.K.f3(None, a['data'], a['key'], a['m'], a['v'])\n"},
    {"path": SRC, "qualname": "K.f4", "spec": {"name": "f4", "inputs": [["data", "data", "bytes"], ["n", "n", "nat"]]},
     "gen": lambda rng: {"data": _b(rng, rng.randrange(0, 16)), "n": rng.randrange(0, 60)},
     "live": "def live(a):\n    return MOD.K.f4(MOD.K(), a['data'], a['n'])\n"},
])


def main():
    ok = True
    for q in REFUSED:
        try:
            U.T.translate(os.path.join(C.REPO, SRC), q, {"name": "x", "inputs": [["data", "data", "bytes"]]})
            print("NOT REFUSED:", q)
            ok = False
        except U.T.Unsupported as e:
            print("refused  %-14s %s" % (q, str(e)[:90]))
    ctx = C.Ctx("PYFUNSELF", "quick", 3)
    C.build_dir("PYFUNSELF", clean=True)
    text, infos, errors = U.regenerate("PYFUNSELF", MOD)
    if errors:
        print("translator errors:", errors)
        return 1
    res = {"ok": True, "problems": []}
    cov = {"items": [{"name": i["name"]} for i in infos]}

    def fail(what, detail, first=None):
        res["ok"] = False
        print("FAIL", what, detail[:800])
    U._differential(ctx, "PYFUNSELF", MOD, text, infos, 300, cov, fail, res)
    for it in cov["items"]:
        print("accepted %-8s %d inputs, %d differ, %d raised" % (it["name"], it["differential_cases"], it["differential_bad"],
                                                                 it["live_raised_or_ill_typed"]))
    return 0 if ok and res["ok"] else 1


if __name__ == "__main__":
    sys.exit(main())
