"""C14 stage A translator (python3 stdlib only): Python `ast` -> Gallina text.

Translates, from the tree under verification,
  * whad/ble/stack/smp/constants.py : every integer constant, the tuple AUTHENTICATED_METHODS
    and the dictionary IOCAP_KEY_GENERATION_MAPPING (built by subscript assignments),
  * whad/ble/stack/smp/__init__.py  : SMPLayer.key_generation_method_selection as a total
    function of two `peer` records, and the decision inside SMPLayer.get_pin_code (where the
    legacy passkey comes from, as a function of the device's own IO capability).

Fail-closed: any AST node outside the grammar below raises `Unsupported`, which names the
definition and the node; nothing is skipped silently.  The semantics assumed for the
supported grammar is validated on every run by evaluating the generated definitions and the
live Python functions on the whole (finite) domain.

Supported statements: docstring, `pass`, `x = <expr>` (locals may be named freely, dead stores are harmless),
`if/elif/else` and chains of early-return `if`s, `return <const | integer local | conditional of those>`,
`try: return D[(a, b)][<index>]  except IndexError: return None` where <index> is any integer or boolean expression
of the grammar (a named constant, a local bound on every path that reaches the lookup, `int(b)`, `1 if b else 0`, `b`).
Supported expressions (typed bool / integer; mixing them the way Python's truthiness would is rejected): names
(locals, integer constants of smp/constants.py that the SMP module imports by `*` or by name, module-level names of
the SMP module assigned exactly once to an integer literal), True/False, int literals, `and`/`or`/`not`,
`==`/`!=`, `in`/`not in` a literal tuple or list, `a if c else b`, `int(x)`, `bool(b)`,
`p.support_lesc()/support_oob()/support_mitm()`, `p.iocap`, `self.is_initiator()` (get_pin_code only).
A local assigned only on some paths is unknown on the others (the continuation of an `if` is translated once per
branch, in that branch's scope), so a use that Python would answer with UnboundLocalError is rejected.
The VALUE of every such expression in every case is computed by Coq, not here: the obligations (method_sweep etc.)
are re-proved on the whole domain against whatever text is generated, and the generated definitions are compared
with the live functions on the whole domain.
"""
import ast
import hashlib
import os

CONSTANTS = "whad/ble/stack/smp/constants.py"
SMP = "whad/ble/stack/smp/__init__.py"
MAPPING = "IOCAP_KEY_GENERATION_MAPPING"


class Unsupported(Exception):
    pass


def _seg(src_lines, node):
    return "".join(src_lines[node.lineno - 1:node.end_lineno])


def _sha(text):
    return hashlib.sha256(text.encode()).hexdigest()


# --------------------------------------------------------------------------
# constants.py
# --------------------------------------------------------------------------

def parse_constants(repo):
    path = os.path.join(repo, CONSTANTS)
    src = open(path).read()
    tree = ast.parse(src)
    lines = src.splitlines(keepends=True)
    consts, order = {}, []
    tuples = {}
    mapping = None       # list of ((a, b), [m...]) in source order
    map_lines = [None, None]

    def ival(node, what):
        if isinstance(node, ast.Constant) and isinstance(node.value, int) and not isinstance(node.value, bool):
            return node.value
        if isinstance(node, ast.Name) and node.id in consts:
            return consts[node.id]
        raise Unsupported("%s: %s:%d: not an integer constant or known name: %s"
                          % (what, CONSTANTS, node.lineno, ast.dump(node)[:80]))

    for st in tree.body:
        if isinstance(st, ast.Expr) and isinstance(st.value, ast.Constant) and isinstance(st.value.value, str):
            continue
        if not (isinstance(st, ast.Assign) and len(st.targets) == 1):
            raise Unsupported("constants: %s:%d: unsupported statement %s" % (CONSTANTS, st.lineno, type(st).__name__))
        tgt, val = st.targets[0], st.value
        if isinstance(tgt, ast.Name):
            if tgt.id == MAPPING:
                if not (isinstance(val, ast.Dict) and not val.keys) or mapping is not None:
                    raise Unsupported("constants: %s must start as one empty dict literal (line %d)" % (MAPPING, st.lineno))
                mapping = []
                map_lines = [st.lineno, st.end_lineno]
            elif isinstance(val, ast.Tuple):
                tuples[tgt.id] = [ival(e, tgt.id) for e in val.elts]
            else:
                consts[tgt.id] = ival(val, tgt.id)
                order.append(tgt.id)
        elif isinstance(tgt, ast.Subscript) and isinstance(tgt.value, ast.Name) and tgt.value.id == MAPPING:
            if mapping is None:
                raise Unsupported("constants: %s assigned before creation (line %d)" % (MAPPING, st.lineno))
            key = tgt.slice
            if not (isinstance(key, ast.Tuple) and len(key.elts) == 2):
                raise Unsupported("constants: %s key is not a pair (line %d)" % (MAPPING, st.lineno))
            if not isinstance(val, ast.Tuple):
                raise Unsupported("constants: %s value is not a tuple (line %d)" % (MAPPING, st.lineno))
            mapping.append(((ival(key.elts[0], MAPPING), ival(key.elts[1], MAPPING)),
                            [ival(e, MAPPING) for e in val.elts]))
            map_lines[1] = st.end_lineno
        else:
            raise Unsupported("constants: %s:%d: unsupported assignment target" % (CONSTANTS, st.lineno))
    # any other mention of the mapping (update(), del, ...) would be a statement kind rejected above
    if mapping is None:
        raise Unsupported("constants: %s not found" % MAPPING)
    seg = "".join(lines[map_lines[0] - 1:map_lines[1]])
    return {"consts": consts, "order": order, "tuples": tuples, "mapping": mapping,
            "tie": {"file": CONSTANTS, "lines": map_lines, "sha256": _sha(seg)}}


# --------------------------------------------------------------------------
# expressions / statements of key_generation_method_selection
# --------------------------------------------------------------------------

PEER_CALLS = {"support_lesc": "p_lesc", "support_oob": "p_oob", "support_mitm": "p_mitm"}
PEER_ATTRS = {"iocap": "p_iocap"}


class FnTr:
    """Statement/expression translator.  Expressions are typed ('bool' | 'N'); a construct whose operands do not
    have the type Python semantics needs here (e.g. truthiness of an integer) is rejected, never guessed."""

    def __init__(self, name, consts, peers, locals_, self_calls=None, rename=None):
        self.name, self.consts, self.peers = name, consts, peers
        self.locals = dict(locals_) if isinstance(locals_, dict) else {n: "N" for n in locals_}
        self.self_calls = self_calls or {}      # self.<method>() -> Gallina boolean variable
        self.rename = rename or {}              # Python local -> Gallina name

    def bad(self, node, why="unsupported node"):
        raise Unsupported("%s: line %d: %s: %s" % (self.name, getattr(node, "lineno", 0), why, ast.dump(node)[:120]))

    def texpr(self, e):
        """-> (Gallina text, type)"""
        if isinstance(e, ast.Constant):
            if e.value is True:
                return "true", "bool"
            if e.value is False:
                return "false", "bool"
            if isinstance(e.value, int):
                return "%d" % e.value, "N"
            self.bad(e)
        if isinstance(e, ast.Name):
            if e.id in self.locals:
                return self.rename.get(e.id, e.id), self.locals[e.id]
            if e.id in self.consts:
                return e.id, "N"
            self.bad(e, "unknown name (or local not assigned on this path)")
        if isinstance(e, ast.BoolOp):
            parts = [self.texpr(v) for v in e.values]
            if any(t != "bool" for _x, t in parts):
                self.bad(e, "and/or on a non-boolean operand")
            op = " && " if isinstance(e.op, ast.And) else " || "
            return "(" + op.join(x for x, _t in parts) + ")", "bool"
        if isinstance(e, ast.UnaryOp) and isinstance(e.op, ast.Not):
            x, t = self.texpr(e.operand)
            if t != "bool":
                self.bad(e, "not on a non-boolean operand")
            return "(negb %s)" % x, "bool"
        if isinstance(e, ast.Compare) and len(e.ops) == 1:
            op = e.ops[0]
            a, ta = self.texpr(e.left)
            rhs = e.comparators[0]
            if isinstance(op, (ast.Eq, ast.NotEq)):
                b, tb = self.texpr(rhs)
                if ta != tb:
                    self.bad(e, "comparison of a boolean with an integer")
                r = "(%s %s %s)" % ("N.eqb" if ta == "N" else "Bool.eqb", a, b)
                return (r if isinstance(op, ast.Eq) else "(negb %s)" % r), "bool"
            if isinstance(op, (ast.In, ast.NotIn)) and isinstance(rhs, (ast.Tuple, ast.List)) and rhs.elts and ta == "N":
                items = [self.texpr(x) for x in rhs.elts]
                if any(t != "N" for _x, t in items):
                    self.bad(e, "membership in a collection of non-integers")
                r = "(" + " || ".join("(N.eqb %s %s)" % (a, x) for x, _t in items) + ")"
                return (r if isinstance(op, ast.In) else "(negb %s)" % r), "bool"
            self.bad(e, "unsupported comparison")
        if isinstance(e, ast.IfExp):
            c, tc = self.texpr(e.test)
            a, ta = self.texpr(e.body)
            b, tb = self.texpr(e.orelse)
            if tc != "bool" or ta != tb:
                self.bad(e, "conditional expression with a non-boolean test or branches of different types")
            return "(if %s then %s else %s)" % (c, a, b), ta
        if (isinstance(e, ast.Call) and isinstance(e.func, ast.Name) and e.func.id in ("int", "bool")
                and len(e.args) == 1 and not e.keywords):
            x, t = self.texpr(e.args[0])
            if e.func.id == "int":
                return (x, "N") if t == "N" else ("(if %s then 1 else 0)" % x, "N")
            if t == "bool":
                return x, "bool"
            self.bad(e, "bool() of an integer")
        if (isinstance(e, ast.Call) and not e.args and not e.keywords and isinstance(e.func, ast.Attribute)
                and isinstance(e.func.value, ast.Name) and e.func.value.id in self.peers and e.func.attr in PEER_CALLS):
            return "(%s %s)" % (PEER_CALLS[e.func.attr], e.func.value.id), "bool"
        if (isinstance(e, ast.Attribute) and isinstance(e.value, ast.Name) and e.value.id in self.peers
                and e.attr in PEER_ATTRS):
            return "(%s %s)" % (PEER_ATTRS[e.attr], e.value.id), "N"
        if (self.self_calls and isinstance(e, ast.Call) and not e.args and not e.keywords
                and isinstance(e.func, ast.Attribute) and isinstance(e.func.value, ast.Name)
                and e.func.value.id == "self" and e.func.attr in self.self_calls):
            return self.self_calls[e.func.attr], "bool"
        self.bad(e)

    def expr(self, e):
        return self.texpr(e)[0]

    def cond(self, e):
        x, t = self.texpr(e)
        if t != "bool":
            self.bad(e, "condition is not a boolean expression (truthiness of an integer is not translated)")
        return x

    def ret(self, e):
        if e is None or (isinstance(e, ast.Constant) and e.value is None):
            return "KNone"
        if isinstance(e, ast.Name) and (e.id in self.consts or self.locals.get(e.id) == "N"):
            return "(KMethod %s)" % self.expr(e)
        if isinstance(e, ast.IfExp):
            return "(if %s then %s else %s)" % (self.cond(e.test), self.ret(e.body), self.ret(e.orelse))
        self.bad(e, "unsupported return value")

    def index(self, idx):
        """Tuple index -> Gallina nat.  Any integer expression of the grammar (a named constant, a local bound on
        every path reaching here, `int(b)`, `1 if b else 0`, ...) or a boolean (Python indexes with True/False as 1/0).
        Its value in each case is computed by Coq when the obligations are re-proved on the whole domain."""
        if (isinstance(idx, ast.Call) and isinstance(idx.func, ast.Name) and idx.func.id == "int"
                and len(idx.args) == 1 and not idx.keywords):
            x, t = self.texpr(idx.args[0])
            if t == "bool":
                return "(if %s then 1%%nat else 0%%nat)" % x
        x, t = self.texpr(idx)
        if t == "bool":
            return "(if %s then 1%%nat else 0%%nat)" % x
        return "(N.to_nat %s)" % x

    def lookup(self, st):
        """try: return MAPPING[(a, b)][<index>]  except IndexError: return None"""
        if not (len(st.body) == 1 and isinstance(st.body[0], ast.Return) and len(st.handlers) == 1
                and not st.orelse and not st.finalbody):
            self.bad(st, "unsupported try shape")
        h = st.handlers[0]
        if not (isinstance(h.type, ast.Name) and h.type.id == "IndexError" and len(h.body) == 1
                and isinstance(h.body[0], ast.Return) and self.ret(h.body[0].value) == "KNone"):
            self.bad(h, "unsupported except clause")
        v = st.body[0].value
        if not (isinstance(v, ast.Subscript) and isinstance(v.value, ast.Subscript)
                and isinstance(v.value.value, ast.Name) and v.value.value.id == MAPPING):
            self.bad(v, "unsupported lookup")
        key, idx = v.value.slice, v.slice
        if not (isinstance(key, ast.Tuple) and len(key.elts) == 2):
            self.bad(key, "mapping key is not a pair")
        ka, ta = self.texpr(key.elts[0])
        kb, tb = self.texpr(key.elts[1])
        if ta != "N" or tb != "N":
            self.bad(key, "mapping key components are not integers")
        return "(dict_tuple_index %s %s %s %s)" % (MAPPING, ka, kb, self.index(idx))

    def block(self, stmts, k):
        """Gallina expression for `stmts`; `k()` gives the text of what follows when the block falls through
        and is evaluated IN THE SCOPE of the falling-through path (`let` shadowing carries the locals assigned
        on that path; a local that is not assigned on a path is unknown there, i.e. rejected)."""
        if not stmts:
            return k()
        st, rest = stmts[0], stmts[1:]
        if isinstance(st, ast.Expr) and isinstance(st.value, ast.Constant) and isinstance(st.value.value, str):
            return self.block(rest, k)
        if isinstance(st, ast.Pass):
            return self.block(rest, k)
        if isinstance(st, ast.Assign) and len(st.targets) == 1 and isinstance(st.targets[0], ast.Name):
            nm = st.targets[0].id
            if nm in self.consts or nm in self.peers or nm in self.self_calls.values():
                self.bad(st, "assignment shadows a constant/parameter")
            val, ty = self.texpr(st.value)
            self.locals[nm] = ty
            return "(let %s := %s in\n %s)" % (self.rename.get(nm, nm), val, self.block(rest, k))
        if isinstance(st, ast.Return):
            return self.ret(st.value)        # statements after a return are dead
        if isinstance(st, ast.If):
            saved = dict(self.locals)
            test = self.cond(st.test)
            k2 = (lambda: self.block(rest, k))
            a = self.block(st.body, k2)
            self.locals = dict(saved)
            b = self.block(st.orelse, k2)
            self.locals = saved
            return "(if %s\n then %s\n else %s)" % (test, a, b)
        if isinstance(st, ast.Try):
            if rest:
                self.bad(rest[0], "statement after the final try/except")
            return self.lookup(st)
        self.bad(st)


def module_constants(tree, relpath):
    """Module-level names of `relpath` assigned exactly once, to an integer literal."""
    count, val = {}, {}
    for st in tree.body:
        targets = []
        if isinstance(st, ast.Assign):
            targets = st.targets
        elif isinstance(st, (ast.AugAssign, ast.AnnAssign)):
            targets = [st.target]
        for t in targets:
            for n in ast.walk(t):
                if isinstance(n, ast.Name):
                    count[n.id] = count.get(n.id, 0) + 1
        if (isinstance(st, ast.Assign) and len(st.targets) == 1 and isinstance(st.targets[0], ast.Name)
                and isinstance(st.value, ast.Constant) and isinstance(st.value.value, int)
                and not isinstance(st.value.value, bool)):
            val[st.targets[0].id] = st.value.value
    for n in ast.walk(tree):          # `global X` anywhere makes X not a constant
        if isinstance(n, ast.Global):
            for nm in n.names:
                count[nm] = count.get(nm, 0) + 2
    return {k: v for k, v in val.items() if count.get(k) == 1}


def visible_constants(tree, consts):
    """The constants of smp/constants.py that the SMP module really imports (star import or by name), plus the
    SMP module's own integer constants.  Returns (consts, own)."""
    vis = {}
    for st in tree.body:
        if isinstance(st, ast.ImportFrom) and st.module and st.module.endswith("smp.constants"):
            for a in st.names:
                if a.name == "*":
                    vis.update(consts)
                elif a.name in consts:
                    vis[a.asname or a.name] = consts[a.name]
    own = module_constants(tree, SMP)
    for k, v in own.items():
        if k in vis and vis[k] != v:
            raise Unsupported("constant %s of %s redefines an imported constant with another value" % (k, SMP))
    own = {k: v for k, v in own.items() if k not in vis}
    vis.update(own)
    return vis, own


def _find_method(tree, cls, name):
    for n in tree.body:
        if isinstance(n, ast.ClassDef) and n.name == cls:
            for m in n.body:
                if isinstance(m, ast.FunctionDef) and m.name == name:
                    return m
    raise Unsupported("%s.%s not found" % (cls, name))


def _assigned_names(fn):
    out = []
    for n in ast.walk(fn):
        if isinstance(n, ast.Assign):
            for t in n.targets:
                if isinstance(t, ast.Name):
                    out.append(t.id)
    return out


def translate_selection(repo, consts):
    src = open(os.path.join(repo, SMP)).read()
    tree = ast.parse(src)
    lines = src.splitlines(keepends=True)
    fn = _find_method(tree, "SMPLayer", "key_generation_method_selection")
    args = [a.arg for a in fn.args.args]
    if args != ["self", "initiator", "responder"] or fn.args.vararg or fn.args.kwarg or fn.args.kwonlyargs:
        raise Unsupported("key_generation_method_selection: unexpected signature %r" % args)
    # every local must be assigned before use on every path: we require a first-level
    # assignment before the first `if` for each local name used after the branches
    vis, _own = visible_constants(tree, consts)
    tr = FnTr("key_generation_method_selection", vis, ("initiator", "responder"), {})
    body = tr.block(fn.body, lambda: "KNone")
    text = ("Definition key_generation_method_selection (initiator responder : peer) : kres :=\n %s.\n" % body)
    return text, {"file": SMP, "lines": [fn.lineno, fn.end_lineno], "sha256": _sha(_seg(lines, fn))}


def translate_pin_source(repo, consts):
    """get_pin_code: `self_iocap = <own iocap>` [; `peer_iocap = <peer iocap>`];
    `if <test on self_iocap, peer_iocap, self.is_initiator()>: <input()> else: <randint(0, 999999)>`"""
    src = open(os.path.join(repo, SMP)).read()
    tree = ast.parse(src)
    lines = src.splitlines(keepends=True)
    fn = _find_method(tree, "SMPLayer", "get_pin_code")
    name = "get_pin_code"
    body = [s for s in fn.body
            if not (isinstance(s, ast.Expr) and isinstance(s.value, ast.Constant) and isinstance(s.value.value, str))]
    if len(body) not in (2, 3) or not all(isinstance(b, ast.Assign) for b in body[:-1]) or not isinstance(body[-1], ast.If):
        raise Unsupported("%s: expected `self_iocap = ...` [`peer_iocap = ...`] followed by one if/else" % name)
    own = "self.state.initiator.iocap if self.is_initiator() else self.state.responder.iocap"
    peer = "self.state.responder.iocap if self.is_initiator() else self.state.initiator.iocap"
    roles = {}
    for asg in body[:-1]:
        txt = ast.unparse(asg.value)
        if not (len(asg.targets) == 1 and isinstance(asg.targets[0], ast.Name) and txt in (own, peer)):
            raise Unsupported("%s: line %d: assigned value is neither the device's own nor the peer's IO capability: %s"
                              % (name, asg.lineno, txt[:100]))
        roles[asg.targets[0].id] = "self_iocap" if txt == own else "peer_iocap"
    if "self_iocap" not in roles.values() or len(set(roles.values())) != len(roles):
        raise Unsupported("%s: the device's own IO capability is not read (or a value is read twice)" % name)
    # the Python local names are mapped to the fixed Gallina parameters self_iocap / peer_iocap
    vis, _own = visible_constants(tree, consts)
    tr = FnTr(name, vis, (), {n: "N" for n in roles}, self_calls={"is_initiator": "is_initiator"}, rename=roles)

    def classify(stmts):
        calls = set()
        rng = None
        has_ret = False
        for s in stmts:
            for n in ast.walk(s):
                if isinstance(n, ast.Call) and isinstance(n.func, ast.Name):
                    calls.add(n.func.id)
                    if n.func.id == "randint":
                        rng = [a.value if isinstance(a, ast.Constant) else None for a in n.args]
                if isinstance(n, ast.Return):
                    has_ret = True
                if isinstance(n, (ast.If, ast.For, ast.While, ast.Try)):
                    raise Unsupported("%s: nested control flow in a branch (line %d)" % (name, n.lineno))
        calls -= {"print", "int"}
        if not has_ret:
            raise Unsupported("%s: branch without return" % name)
        if calls == {"input"}:
            return "PinTyped"
        if calls == {"randint"} and rng == [0, 999999]:
            return "PinGenerated"
        raise Unsupported("%s: branch is neither `input()` nor `randint(0, 999999)`: calls %r range %r"
                          % (name, sorted(calls), rng))

    def cond(node):
        test = tr.cond(node.test)
        a = classify(node.body)
        if len(node.orelse) == 1 and isinstance(node.orelse[0], ast.If):
            b = cond(node.orelse[0])
        elif node.orelse:
            b = classify(node.orelse)
        else:
            raise Unsupported("%s: if without else (falls through returning None)" % name)
        return "(if %s then %s else %s)" % (test, a, b)

    text = ("Definition get_pin_code_source (is_initiator : bool) (self_iocap peer_iocap : N) : pin_src :=\n %s.\n"
            % cond(body[-1]))
    return text, {"file": SMP, "lines": [fn.lineno, fn.end_lineno], "sha256": _sha(_seg(lines, fn))}


# --------------------------------------------------------------------------
# whole module
# --------------------------------------------------------------------------

def generate(repo):
    """Returns (gallina_text, info).  info: consts, mapping, tuples, ties, items.
    Raises Unsupported (fail-closed)."""
    c = parse_constants(repo)
    sel_text, sel_tie = translate_selection(repo, c["consts"])
    pin_text, pin_tie = translate_pin_source(repo, c["consts"])
    out = []
    out.append("(** GENERATED by harness/translators/C14_table.py -- do not edit.\n"
               "    Regenerated from the tree under verification and re-proved on every run. *)")
    out.append("From Coq Require Import List NArith Bool.\nFrom Whad Require Import C14.Base.\n"
               "Import ListNotations.\nLocal Open Scope N_scope.\n")
    out.append("(* %s *)" % CONSTANTS)
    for nm in c["order"]:
        out.append("Definition %s : N := %d." % (nm, c["consts"][nm]))
    for nm, vals in sorted(c["tuples"].items()):
        out.append("Definition %s : list N := [%s]." % (nm, "; ".join("%d" % v for v in vals)))
    out.append("\n(* %s lines %d-%d sha256 %s *)" % (CONSTANTS, c["tie"]["lines"][0], c["tie"]["lines"][1], c["tie"]["sha256"][:16]))
    out.append("Definition %s : list ((N * N) * list N) := [\n%s\n]." % (
        MAPPING, ";\n".join("  ((%d, %d), [%s])" % (a, b, "; ".join("%d" % m for m in ms)) for (a, b), ms in c["mapping"])))
    _vis, own = visible_constants(ast.parse(open(os.path.join(repo, SMP)).read()), c["consts"])
    if own:
        out.append("\n(* integer constants of %s *)" % SMP)
        for nm in sorted(own):
            out.append("Definition %s : N := %d." % (nm, own[nm]))
    out.append("\n(* %s lines %d-%d sha256 %s *)" % (SMP, sel_tie["lines"][0], sel_tie["lines"][1], sel_tie["sha256"][:16]))
    out.append(sel_text)
    out.append("(* %s lines %d-%d sha256 %s *)" % (SMP, pin_tie["lines"][0], pin_tie["lines"][1], pin_tie["sha256"][:16]))
    out.append(pin_text)
    info = {"consts": c["consts"], "tuples": c["tuples"], "mapping": c["mapping"],
            "ties": [c["tie"], sel_tie, pin_tie],
            "items": ["constants (%d)" % len(c["order"]), MAPPING + " (%d entries)" % len(c["mapping"]),
                      "key_generation_method_selection", "get_pin_code_source"]}
    return "\n".join(out) + "\n", info


def body_without_header(text):
    """The generated text with comment lines removed (for comparing against the committed snapshot)."""
    return "\n".join(l for l in text.splitlines() if not l.startswith("(*") and not l.startswith("    Regenerated"))


if __name__ == "__main__":
    import sys
    t, i = generate(sys.argv[1] if len(sys.argv) > 1 else "/repo")
    sys.stdout.write(t)
