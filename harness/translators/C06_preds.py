"""C06 translator: Python AST of the capability predicates, role constructors and guarded
operations of the domain connectors  ->  Gallina terms of coq/theories/C06/Model.v
([bexpr] for predicates, [gprog] for constructors / operations).

Runs under /venv/bin/python with PYTHONPATH = tree under verification (it imports the
connector modules to resolve `Commands.X` / `Capability.X` / `Domain.X` to integers and to
follow the MRO); everything else is read from the source text with `ast`.
FAIL-CLOSED: an AST node outside the supported grammar raises `Unsupported`, the item is
reported with its error and is never silently skipped.

Grammar of predicates (methods `can_*` / `support_*`):
  body  ::= [docstring] (bind | memo | `return` expr)*
  bind  ::= NAME `=` `self.device.get_domain_commands(Domain.D)`      (the command word)
          | NAME `=` `self.device.get_domain_capability(Domain.D)`    (the capability word)
  memo  ::= `if self.__c is None:` bind* `self.__c = expr`  ...  `return self.__c`
  expr  ::= expr `and` expr | expr `or` expr | `not` expr | iexpr CMP iexpr | iexpr
          | `self.can_y()` (one level) | True | False
  iexpr ::= NAME `&` closed | closed `&` NAME | closed
  closed::= INT | Commands.X | Capability.X | closed (`<<`|`>>`|`|`|`&`) closed | NAME bound by `NAME = closed`
D must be the domain the connector class checks in its constructor.

Grammar of constructors / operations: straight-line statements, `if`/`else`, `for`,
`raise`, `return`, `assert`; conditions are split on and/or/not into atoms; an atom that is
a capability predicate call / mask test / `self.device.has_domain(Domain.D)` becomes [GIf],
any other atom becomes [GChoice] (both branches possible).  A statement whose calls are all
on the allow-list below is [GCall false], any other call is [GCall true] (may transmit).
`super().__init__` / `Base.__init__(self, ..)` of connector classes are inlined.
"""
import ast, hashlib, importlib, inspect, os, re, sys


class Unsupported(Exception):
    pass


# --------------------------------------------------------------------------------------
# Targets
# --------------------------------------------------------------------------------------

# domain key -> (module, base class) defining the predicates
BASES = {
    "ble": ("whad.ble.connector.base", "BLE"),
    "dot15d4": ("whad.dot15d4.connector", "Dot15d4"),
    "esb": ("whad.esb.connector.base", "ESB"),
    "unifying": ("whad.unifying.connector.base", "Unifying"),
    "phy": ("whad.phy.connector.base", "Phy"),
}

# role connectors: id -> (module, class, predicate domain key)
ROLES = [
    ("ble.BLE", "whad.ble.connector.base", "BLE", "ble"),
    ("ble.Central", "whad.ble.connector.central", "Central", "ble"),
    ("ble.Peripheral", "whad.ble.connector.peripheral", "Peripheral", "ble"),
    ("ble.Scanner", "whad.ble.connector.scanner", "Scanner", "ble"),
    ("ble.Sniffer", "whad.ble.connector.sniffer", "Sniffer", "ble"),
    ("ble.Injector", "whad.ble.connector.injector", "Injector", "ble"),
    ("ble.Hijacker", "whad.ble.connector.hijacker", "Hijacker", "ble"),
    ("dot15d4.Dot15d4", "whad.dot15d4.connector", "Dot15d4", "dot15d4"),
    ("dot15d4.Coordinator", "whad.dot15d4.connector.coordinator", "Coordinator", "dot15d4"),
    ("dot15d4.EndDevice", "whad.dot15d4.connector.enddevice", "EndDevice", "dot15d4"),
    ("dot15d4.Injector", "whad.dot15d4.connector.injector", "Injector", "dot15d4"),
    ("dot15d4.Sniffer", "whad.dot15d4.connector.sniffer", "Sniffer", "dot15d4"),
    ("zigbee.Zigbee", "whad.zigbee.connector.base", "Zigbee", "dot15d4"),
    ("zigbee.Coordinator", "whad.zigbee.connector.coordinator", "Coordinator", "dot15d4"),
    ("zigbee.EndDevice", "whad.zigbee.connector.enddevice", "EndDevice", "dot15d4"),
    ("zigbee.Injector", "whad.zigbee.connector.injector", "Injector", "dot15d4"),
    ("zigbee.Sniffer", "whad.zigbee.connector.sniffer", "Sniffer", "dot15d4"),
    ("rf4ce.RF4CE", "whad.rf4ce.connector.base", "RF4CE", "dot15d4"),
    ("rf4ce.Controller", "whad.rf4ce.connector.controller", "Controller", "dot15d4"),
    ("rf4ce.Target", "whad.rf4ce.connector.target", "Target", "dot15d4"),
    ("rf4ce.Injector", "whad.rf4ce.connector.injector", "Injector", "dot15d4"),
    ("rf4ce.Sniffer", "whad.rf4ce.connector.sniffer", "Sniffer", "dot15d4"),
    ("esb.ESB", "whad.esb.connector.base", "ESB", "esb"),
    ("esb.PRX", "whad.esb.connector.prx", "PRX", "esb"),
    ("esb.PTX", "whad.esb.connector.ptx", "PTX", "esb"),
    ("esb.Scanner", "whad.esb.connector.scanner", "Scanner", "esb"),
    ("esb.Sniffer", "whad.esb.connector.sniffer", "Sniffer", "esb"),
    ("esb.Injector", "whad.esb.connector.injector", "Injector", "esb"),
    ("unifying.Unifying", "whad.unifying.connector.base", "Unifying", "unifying"),
    ("unifying.Dongle", "whad.unifying.connector.dongle", "Dongle", "unifying"),
    ("unifying.Keyboard", "whad.unifying.connector.keyboard", "Keyboard", "unifying"),
    ("unifying.Mouse", "whad.unifying.connector.mouse", "Mouse", "unifying"),
    ("unifying.Sniffer", "whad.unifying.connector.sniffer", "Sniffer", "unifying"),
    ("unifying.Keylogger", "whad.unifying.connector.keylogger", "Keylogger", "unifying"),
    ("unifying.Mouselogger", "whad.unifying.connector.mouselogger", "Mouselogger", "unifying"),
    ("unifying.Injector", "whad.unifying.connector.injector", "Injector", "unifying"),
    ("phy.Phy", "whad.phy.connector.base", "Phy", "phy"),
    ("phy.Injector", "whad.phy.connector.injector", "Injector", "phy"),
    ("phy.Sniffer", "whad.phy.connector.sniffer", "Sniffer", "phy"),
    ("phy.LoRa", "whad.phy.connector.lora", "LoRa", "phy"),
]

# guarded operations: every method of these classes (own methods only) that calls a
# predicate, reads the command word, or raises Unsupported* -- discovered from the AST.
OP_CLASSES = [
    ("ble", "whad.ble.connector.base", "BLE"),
    ("dot15d4", "whad.dot15d4.connector", "Dot15d4"),
    ("esb", "whad.esb.connector.base", "ESB"),
    ("unifying", "whad.unifying.connector.base", "Unifying"),
    ("phy", "whad.phy.connector.base", "Phy"),
    ("dot15d4", "whad.dot15d4.connector.coordinator", "Coordinator"),
    ("dot15d4", "whad.dot15d4.connector.enddevice", "EndDevice"),
]

# --------------------------------------------------------------------------------------
# Allow-list of NON-TRANSMITTING calls (text of the callee expression, regular expressions).
# `device.open()` / `device.discover()` transmit discovery messages only, never a domain
# command, which is what the property is about.  Everything not matched here counts as a
# possible transmission of a domain command.
# --------------------------------------------------------------------------------------
SAFE_CALLS = [
    r"logger\.\w+", r"isinstance", r"issubclass", r"hasattr", r"getattr", r"len", r"bytes", r"int", r"str",
    r"bool", r"range", r"all", r"any", r"list", r"dict", r"raw", r"struct\.pack", r"bytes\.fromhex",
    r"self\.device\.open", r"self\.device\.discover", r"self\.device\.has_domain",
    r"self\.device\.get_domain_commands", r"self\.device\.get_domain_capability",
    r"self\.device\.interface\.startswith",
    r"self\.enable_synchronous", r"self\.hub\.\w+\.create_\w+", r"message_filter",
    r"self\.add_event_handler", r"self\.add_listener", r"self\.__configure_stack",
    r"self\.can_\w+", r"self\.support_\w+",
    r"Version", r"CommandLineApp\.get_instance", r"app\.warning", r"bind",
    r"self\.__disconnected\.set", r"name\.startswith", r"kwargs\.items",
    r"MACManager\.add", r"ESBStack\.add", r"ATTLayer\.add",
    # protocol stacks instantiated with the connector as parent: their layers only
    # initialise local state (validated on every run by the recording-interface runs)
    r"ESBStack", r"Dot15d4Stack",
]
_SAFE_RE = re.compile(r"^(?:%s)$" % "|".join(SAFE_CALLS))

_SRC_CACHE = {}


def _module_ast(path):
    if path not in _SRC_CACHE:
        src = open(path).read()
        _SRC_CACHE[path] = (src, ast.parse(src))
    return _SRC_CACHE[path]


def class_node(klass):
    path = inspect.getsourcefile(klass)
    src, tree = _module_ast(path)
    for n in ast.walk(tree):
        if isinstance(n, ast.ClassDef) and n.name == klass.__name__:
            return path, src, n
    raise Unsupported("class %s not found in %s" % (klass.__name__, path))


def own_method(klass, name):
    """AST of method `name` defined in `klass` itself (last definition wins), or None."""
    try:
        path, src, cn = class_node(klass)
    except (TypeError, OSError, Unsupported):
        return None
    found = None
    for m in cn.body:
        if isinstance(m, ast.FunctionDef) and m.name == name:
            found = m
    return (path, src, found) if found is not None else None


def resolve_method(cls, name):
    """(defining class, path, src, FunctionDef) following the MRO of cls."""
    for k in cls.__mro__:
        if name in k.__dict__:
            r = own_method(k, name)
            if r is None:
                raise Unsupported("no source for %s.%s" % (k.__name__, name))
            return (k,) + r
    raise Unsupported("%s has no method %s" % (cls.__name__, name))


def src_tie(path, fn, repo):
    lines = open(path, "rb").read().splitlines(keepends=True)
    seg = b"".join(lines[fn.lineno - 1:fn.end_lineno])
    rel = os.path.relpath(path, repo) if repo else path
    return {"file": rel, "lines": [fn.lineno, fn.end_lineno], "sha256": hashlib.sha256(seg).hexdigest()}


def strip_doc(body):
    if body and isinstance(body[0], ast.Expr) and isinstance(body[0].value, ast.Constant) \
            and isinstance(body[0].value.value, str):
        return body[1:]
    return body


# --------------------------------------------------------------------------------------
# Predicates -> bexpr trees
#   cexpr: ('c', n, label) ('shl',a,b) ('shr',a,b) ('cor',a,b) ('cand',a,b)
#   iexpr: ('iconst', c) ('masked', var, c)
#   bexpr: ('const', b) ('test', var, n) ('cmp', op, i, i) ('truthy', i) ('not', x) ('and', x, y) ('or', x, y)
# --------------------------------------------------------------------------------------
CMP = {ast.Gt: "OGt", ast.GtE: "OGe", ast.Lt: "OLt", ast.LtE: "OLe", ast.Eq: "OEq", ast.NotEq: "ONe"}
VARS = {"cmds": "VCmds", "caps": "VCaps", "aux": "VAux"}


class Scope:
    """Translation context of one target class."""

    def __init__(self, cls, domain_value):
        self.cls = cls
        self.domain_value = domain_value
        self.pred_cache = {}

    # -- closed expressions
    def closed(self, node, glob, loc=None):
        if isinstance(node, ast.Name) and loc and isinstance(loc.get(node.id), tuple):
            return loc[node.id]          # local name bound to a closed expression
        if isinstance(node, ast.Constant) and isinstance(node.value, int) and not isinstance(node.value, bool):
            if node.value < 0:
                raise Unsupported("negative constant")
            return ("c", node.value, str(node.value))
        if isinstance(node, ast.Attribute) and isinstance(node.value, ast.Name):
            holder = glob.get(node.value.id)
            if holder is not None and inspect.isclass(holder) and hasattr(holder, node.attr):
                v = getattr(holder, node.attr)
                if isinstance(v, int) and not isinstance(v, bool) and v >= 0:
                    return ("c", int(v), "%s.%s" % (node.value.id, node.attr))
            raise Unsupported("cannot resolve constant " + ast.unparse(node))
        if isinstance(node, ast.BinOp):
            ops = {ast.LShift: "shl", ast.RShift: "shr", ast.BitOr: "cor", ast.BitAnd: "cand"}
            if type(node.op) in ops:
                return (ops[type(node.op)], self.closed(node.left, glob, loc), self.closed(node.right, glob, loc))
        raise Unsupported("not a closed integer expression: " + ast.unparse(node))

    def iexpr(self, node, glob, loc):
        if isinstance(node, ast.BinOp) and isinstance(node.op, ast.BitAnd):
            for a, b in ((node.left, node.right), (node.right, node.left)):
                if isinstance(a, ast.Name) and isinstance(loc.get(a.id), str):
                    return ("masked", loc[a.id], self.closed(b, glob, loc))
        if isinstance(node, ast.Name) and isinstance(loc.get(node.id), str):
            raise Unsupported("word %s used without a constant mask" % node.id)
        return ("iconst", self.closed(node, glob, loc))

    def bexpr(self, node, glob, loc, depth):
        if isinstance(node, ast.BoolOp):
            vals = [self.bexpr(v, glob, loc, depth) for v in node.values]
            tag = "and" if isinstance(node.op, ast.And) else "or"
            out = vals[-1]
            for v in reversed(vals[:-1]):
                out = (tag, v, out)
            return out
        if isinstance(node, ast.UnaryOp) and isinstance(node.op, ast.Not):
            return ("not", self.bexpr(node.operand, glob, loc, depth))
        if isinstance(node, ast.Compare):
            if len(node.ops) != 1 or type(node.ops[0]) not in CMP:
                raise Unsupported("comparison " + ast.unparse(node))
            return ("cmp", CMP[type(node.ops[0])], self.iexpr(node.left, glob, loc),
                    self.iexpr(node.comparators[0], glob, loc))
        if isinstance(node, ast.Constant) and isinstance(node.value, bool):
            return ("const", node.value)
        if isinstance(node, ast.Call):
            name = self.pred_call(node)
            if name is not None:
                if depth >= 1:
                    raise Unsupported("nested predicate call deeper than one level: " + ast.unparse(node))
                return self.pred(name, depth + 1)
            if ast.unparse(node.func) == "self.device.has_domain" and len(node.args) == 1:
                self.check_domain(node.args[0], glob)
                return ("test", "aux", 0)
            raise Unsupported("call in predicate: " + ast.unparse(node))
        return ("truthy", self.iexpr(node, glob, loc))

    @staticmethod
    def pred_call(node):
        if isinstance(node, ast.Call) and not node.args and not node.keywords \
                and isinstance(node.func, ast.Attribute) and isinstance(node.func.value, ast.Name) \
                and node.func.value.id == "self" \
                and (node.func.attr.startswith("can_") or node.func.attr.startswith("support_")):
            return node.func.attr
        return None

    def check_domain(self, node, glob):
        c = self.closed(node, glob)
        if c[0] != "c" or c[1] != self.domain_value:
            raise Unsupported("queries domain %s, the connector's domain is 0x%08x" % (ast.unparse(node), self.domain_value))

    def binding(self, stmt, glob):
        """`NAME = self.device.get_domain_commands(Domain.D)` -> (NAME, var) or None"""
        if isinstance(stmt, ast.Assign) and len(stmt.targets) == 1 and isinstance(stmt.targets[0], ast.Name) \
                and isinstance(stmt.value, ast.Call) and len(stmt.value.args) == 1 and not stmt.value.keywords:
            f = ast.unparse(stmt.value.func)
            if f in ("self.device.get_domain_commands", "self.device.get_domain_capability"):
                self.check_domain(stmt.value.args[0], glob)
                return stmt.targets[0].id, ("cmds" if f.endswith("commands") else "caps")
        return None

    def pred(self, name, depth=0):
        key = (name, depth)
        if key in self.pred_cache:
            return self.pred_cache[key]
        k, path, src, fn = resolve_method(self.cls, name)
        glob = sys.modules[k.__module__].__dict__
        if len(fn.args.args) != 1 or fn.args.vararg or fn.args.kwarg or fn.args.kwonlyargs:
            raise Unsupported("predicate %s takes arguments" % name)
        res = self.pred_body(strip_doc(fn.body), glob, {}, depth)
        self.pred_cache[key] = res
        return res

    def pred_body(self, body, glob, loc, depth):
        loc = dict(loc)
        memo = {}
        for i, st in enumerate(body):
            b = self.binding(st, glob)
            if b:
                loc[b[0]] = b[1]
                continue
            if isinstance(st, ast.Assign) and len(st.targets) == 1 and isinstance(st.targets[0], ast.Name):
                loc[st.targets[0].id] = self.closed(st.value, glob, loc)     # NAME = closed expression
                continue
            if isinstance(st, ast.Return) and st.value is not None:
                if i != len(body) - 1:
                    raise Unsupported("statements after return")
                if isinstance(st.value, ast.Attribute) and ast.unparse(st.value) in memo:
                    return memo[ast.unparse(st.value)]
                return self.bexpr(st.value, glob, loc, depth)
            if isinstance(st, ast.If) and not st.orelse and isinstance(st.test, ast.Compare) \
                    and len(st.test.ops) == 1 and isinstance(st.test.ops[0], ast.Is) \
                    and isinstance(st.test.comparators[0], ast.Constant) and st.test.comparators[0].value is None \
                    and isinstance(st.test.left, ast.Attribute) and ast.unparse(st.test.left).startswith("self."):
                cache = ast.unparse(st.test.left)
                iloc = dict(loc)
                val = None
                for s2 in st.body:
                    b2 = self.binding(s2, glob)
                    if b2:
                        iloc[b2[0]] = b2[1]
                    elif isinstance(s2, ast.Assign) and len(s2.targets) == 1 and ast.unparse(s2.targets[0]) == cache \
                            and val is None:
                        val = self.bexpr(s2.value, glob, iloc, depth)
                    else:
                        raise Unsupported("statement in memoisation block: " + ast.unparse(s2))
                if val is None:
                    raise Unsupported("memoisation block does not assign " + cache)
                memo[cache] = val
                continue
            raise Unsupported("statement in predicate: " + ast.unparse(st)[:80])
        raise Unsupported("predicate without return")


# -- evaluation / rendering of trees ----------------------------------------------------

def c_eval(c):
    t = c[0]
    if t == "c":
        return c[1]
    a, b = c_eval(c[1]), c_eval(c[2])
    return {"shl": lambda: a << b, "shr": lambda: a >> b, "cor": lambda: a | b, "cand": lambda: a & b}[t]()


def b_supp(b, acc=None):
    acc = acc if acc is not None else {"cmds": 0, "caps": 0, "aux": 0}
    t = b[0]
    if t == "test":
        acc[b[1]] |= 1 << b[2]
    elif t == "cmp":
        for i in (b[2], b[3]):
            if i[0] == "masked":
                acc[i[1]] |= c_eval(i[2])
    elif t == "truthy":
        if b[1][0] == "masked":
            acc[b[1][1]] |= c_eval(b[1][2])
    elif t == "not":
        b_supp(b[1], acc)
    elif t in ("and", "or"):
        b_supp(b[1], acc); b_supp(b[2], acc)
    return acc


def c_coq(c):
    if c[0] == "c":
        return "(CConst %d)" % c[1]
    return "(%s %s %s)" % ({"shl": "CShl", "shr": "CShr", "cor": "COr", "cand": "CAnd"}[c[0]], c_coq(c[1]), c_coq(c[2]))


def i_coq(i):
    if i[0] == "iconst":
        return "(IConst %s)" % c_coq(i[1])
    return "(IMasked %s %s)" % (VARS[i[1]], c_coq(i[2]))


def b_coq(b):
    t = b[0]
    if t == "const":
        return "(BConst %s)" % ("true" if b[1] else "false")
    if t == "test":
        return "(BTest %s %d)" % (VARS[b[1]], b[2])
    if t == "cmp":
        return "(BCmp %s %s %s)" % (b[1], i_coq(b[2]), i_coq(b[3]))
    if t == "truthy":
        return "(BTruthy %s)" % i_coq(b[1])
    if t == "not":
        return "(BNot %s)" % b_coq(b[1])
    return "(%s %s %s)" % ("BAnd" if t == "and" else "BOr", b_coq(b[1]), b_coq(b[2]))


# --------------------------------------------------------------------------------------
# Constructors / operations -> gprog trees
#   ('done', result) ('call', transmits, name, k) ('if', bexpr, t, e) ('choice', label, t, e)
#   result: 'ROk' | 'RFalse' | ('raise', exn)
# --------------------------------------------------------------------------------------
HOLE = ("hole",)


def coq_string(s):
    s = "".join(ch if 32 <= ord(ch) < 127 else "?" for ch in s)
    return '"' + s.replace('"', "'")[:60] + '"'


def g_coq(g):
    t = g[0]
    if t == "done":
        r = g[1]
        return "(GDone %s)" % (r if isinstance(r, str) else "(RRaise %s)" % r[1])
    if t == "call":
        return "(GCall %s %s %s)" % ("true" if g[1] else "false", coq_string(g[2]), g_coq(g[3]))
    if t == "if":
        return "(GIf %s %s %s)" % (b_coq(g[1]), g_coq(g[2]), g_coq(g[3]))
    if t == "choice":
        return "(GChoice %s %s %s)" % (coq_string(g[1]), g_coq(g[2]), g_coq(g[3]))
    raise AssertionError(g)


def g_supp(g, acc=None):
    acc = acc if acc is not None else {"cmds": 0, "caps": 0, "aux": 0}
    if g[0] == "call":
        g_supp(g[3], acc)
    elif g[0] == "if":
        b_supp(g[1], acc); g_supp(g[2], acc); g_supp(g[3], acc)
    elif g[0] == "choice":
        g_supp(g[2], acc); g_supp(g[3], acc)
    return acc


def g_size(g):
    if g[0] == "done":
        return 1
    if g[0] == "call":
        return 1 + g_size(g[3])
    return 1 + g_size(g[2]) + g_size(g[3])


def harmless(g):
    """only non-transmitting calls and falls through to the hole"""
    if g == HOLE:
        return True
    if g[0] == "call":
        return (not g[1]) and harmless(g[3])
    if g[0] in ("if", "choice"):
        return harmless(g[2]) and harmless(g[3])
    return False


def plug(g, k):
    if g == HOLE:
        return k
    if g[0] == "done":
        return g
    if g[0] == "call":
        return ("call", g[1], g[2], plug(g[3], k))
    return (g[0], g[1], plug(g[2], k), plug(g[3], k))


class GuardTr:
    def __init__(self, scope, is_ctor):
        self.scope = scope
        self.is_ctor = is_ctor
        self.unsafe_seen = []
        self.inline_depth = 0

    def call_safe(self, call, glob):
        f = ast.unparse(call.func)
        if _SAFE_RE.match(f):
            return True
        # constructor of a class that is not a connector, not given `self`
        if isinstance(call.func, ast.Name):
            obj = glob.get(call.func.id)
            if inspect.isclass(obj) and not self.is_connector(obj):
                if not any(isinstance(a, ast.Name) and a.id == "self" for a in list(call.args) + [k.value for k in call.keywords]):
                    return True
        return False

    @staticmethod
    def is_connector(klass):
        from whad.device.connector import Connector
        from whad.device import Device
        return issubclass(klass, (Connector, Device))

    def classify(self, node, glob):
        """(transmits, name) for the calls inside a statement / expression"""
        bad = [c for c in ast.walk(node) if isinstance(c, ast.Call) and not self.call_safe(c, glob)]
        if bad:
            return True, ast.unparse(bad[0].func)
        return False, ast.unparse(node).split("\n")[0]

    def base_init(self, call, defcls, glob):
        """If `call` is super().__init__(..) or Base.__init__(self, ..): the class whose
        __init__ runs, else None."""
        f = call.func
        if not (isinstance(f, ast.Attribute) and f.attr == "__init__"):
            return None
        if isinstance(f.value, ast.Call) and isinstance(f.value.func, ast.Name) and f.value.func.id == "super" \
                and not f.value.args:
            mro = self.scope.cls.__mro__
            after = mro[mro.index(defcls) + 1:]
            for k in after:
                if "__init__" in k.__dict__:
                    return k
            return object
        if isinstance(f.value, ast.Name) and call.args and isinstance(call.args[0], ast.Name) and call.args[0].id == "self":
            k = glob.get(f.value.id)
            if inspect.isclass(k):
                for kk in k.__mro__:
                    if "__init__" in kk.__dict__:
                        return kk
        return None

    def inline_guarded(self, call, glob):
        """`self.m(args)` as a statement, where m is itself a guarded operation (calls a predicate,
        reads the command word or raises Unsupported*): its body is inlined (one level) so that the
        bits ITS guard reads appear in the program (e.g. Peripheral.__init__ -> set_bd_address)."""
        f = call.func
        if self.inline_depth > 0 or not (isinstance(f, ast.Attribute) and isinstance(f.value, ast.Name) and f.value.id == "self"):
            return None
        if f.attr.startswith("__") or Scope.pred_call(call):
            return None
        if any(not self.call_safe(c, glob) for a in list(call.args) + [kw.value for kw in call.keywords]
               for c in ast.walk(a) if isinstance(c, ast.Call)):
            return None
        try:
            mk, _p, _s, fn = resolve_method(self.scope.cls, f.attr)
        except Unsupported:
            return None
        guarded = any(Scope.pred_call(x) for x in ast.walk(fn) if isinstance(x, ast.Call)) \
            or any(isinstance(x, ast.Raise) and x.exc is not None and "Unsupported" in ast.unparse(x.exc) for x in ast.walk(fn)) \
            or "get_domain_commands" in ast.unparse(fn)
        return (mk, fn) if guarded else None

    def in_scope_connector(self, k):
        return self.is_connector(k) and k.__module__.startswith("whad.") and ".connector" in k.__module__ \
            and k.__module__ != "whad.device.connector"

    # -- statements
    def seq(self, stmts, k, retk, defcls, glob, loc):
        """translate stmts followed by continuation k (a gprog); retk(kind) = what `return` does"""
        if not stmts:
            return k
        st, rest = stmts[0], stmts[1:]
        if isinstance(st, ast.Expr) and isinstance(st.value, ast.Constant):
            return self.seq(rest, k, retk, defcls, glob, loc)
        if isinstance(st, ast.Pass):
            return self.seq(rest, k, retk, defcls, glob, loc)
        if isinstance(st, ast.Raise):
            if st.exc is None:
                raise Unsupported("bare raise")
            name = ast.unparse(st.exc.func) if isinstance(st.exc, ast.Call) else ast.unparse(st.exc)
            exn = {"UnsupportedDomain": "EUnsupportedDomain", "UnsupportedCapability": "EUnsupportedCapability"}.get(name, "EOther")
            g = ("done", ("raise", exn))
            tx, nm = self.classify(st, glob)
            return ("call", True, nm, g) if tx else g
        if isinstance(st, ast.Return):
            kind = "ROk"
            if st.value is None or (isinstance(st.value, ast.Constant) and st.value.value in (None, False)):
                kind = "RFalse"
            g = retk(kind)
            if st.value is not None:
                tx, nm = self.classify(st.value, glob)
                if tx:
                    g = ("call", True, nm, g)
            return g
        if isinstance(st, ast.If):
            restg = self.seq(rest, k, retk, defcls, glob, loc)
            t = self.seq(st.body, HOLE, retk, defcls, glob, dict(loc))
            e = self.seq(st.orelse, HOLE, retk, defcls, glob, dict(loc))
            return self.cond(st.test, t, e, restg, glob, loc)
        if isinstance(st, ast.For):
            restg = self.seq(rest, k, retk, defcls, glob, loc)
            body = self.seq(st.body + st.orelse, HOLE, retk, defcls, glob, dict(loc))
            tx, nm = self.classify(st.iter, glob)
            if harmless(body):
                g = ("call", False, "for " + ast.unparse(st.target), restg)
            else:
                g = ("choice", "for " + ast.unparse(st.target), plug(body, restg), restg)
            return ("call", True, nm, g) if tx else g
        if isinstance(st, ast.Assert):
            restg = self.seq(rest, k, retk, defcls, glob, loc)
            tx, nm = self.classify(st.test, glob)
            g = ("choice", "assert " + ast.unparse(st.test), restg, ("done", ("raise", "EOther")))
            return ("call", True, nm, g) if tx else g
        if isinstance(st, (ast.Assign, ast.AugAssign, ast.AnnAssign, ast.Expr)):
            b = self.scope.binding(st, glob) if isinstance(st, ast.Assign) else None
            if b:
                loc[b[0]] = b[1]
                return self.seq(rest, k, retk, defcls, glob, loc)
            call = st.value if isinstance(st, ast.Expr) and isinstance(st.value, ast.Call) else None
            if call is not None:
                bk = self.base_init(call, defcls, glob)
                if bk is not None:
                    restg = self.seq(rest, k, retk, defcls, glob, loc)
                    if self.in_scope_connector(bk):
                        r = own_method(bk, "__init__")
                        if r is None:
                            raise Unsupported("no source for %s.__init__" % bk.__name__)
                        _p, _s, fn = r
                        bglob = sys.modules[bk.__module__].__dict__
                        return self.seq(strip_doc(fn.body), restg, lambda kind: restg, bk, bglob, {})
                    # Connector.__init__ (starts the I/O thread), EventsManager, Thread, object ...
                    tx = any(not self.call_safe(c, glob) for a in list(call.args) + [kw.value for kw in call.keywords]
                             for c in ast.walk(a) if isinstance(c, ast.Call))
                    return ("call", tx, "%s.__init__" % bk.__name__, restg)
                inl = self.inline_guarded(call, glob)
                if inl is not None:
                    mk, fn = inl
                    restg = self.seq(rest, k, retk, defcls, glob, loc)
                    self.inline_depth += 1
                    try:
                        return self.seq(strip_doc(fn.body), restg, lambda kind: restg, mk,
                                        sys.modules[mk.__module__].__dict__, {})
                    except Unsupported:
                        pass        # fall back to an opaque, possibly transmitting call
                    finally:
                        self.inline_depth -= 1
            tx, nm = self.classify(st, glob)
            if tx:
                self.unsafe_seen.append(nm)
            return ("call", tx, nm, self.seq(rest, k, retk, defcls, glob, loc))
        raise Unsupported("statement %s: %s" % (type(st).__name__, ast.unparse(st).split("\n")[0][:80]))

    def cond(self, test, t, e, restg, glob, loc):
        """if test: t else: e ; then restg   (t, e have HOLEs for falling through)"""
        if harmless(t) and harmless(e):
            # neither branch raises, returns or transmits: behaves as one non-transmitting step
            tx, nm = self.classify(test, glob)
            return ("call", tx, nm if tx else "if " + ast.unparse(test)[:40], restg)
        return self.split(test, plug(t, restg), plug(e, restg), glob, loc)

    def split(self, test, T, E, glob, loc):
        if isinstance(test, ast.BoolOp):
            vals = list(test.values)
            if isinstance(test.op, ast.And):
                g = T
                for v in reversed(vals):
                    g = self.split(v, g, E, glob, loc)
                return g
            g = E
            for v in reversed(vals):
                g = self.split(v, T, g, glob, loc)
            return g
        if isinstance(test, ast.UnaryOp) and isinstance(test.op, ast.Not):
            return self.split(test.operand, E, T, glob, loc)
        try:
            pure = self.pure_atom(test, glob, loc)
        except Unsupported:
            raise
        if pure is not None:
            return ("if", pure, T, E)
        tx, nm = self.classify(test, glob)
        g = ("choice", ast.unparse(test), T, E)
        return ("call", True, nm, g) if tx else g

    def pure_atom(self, test, glob, loc):
        """bexpr if the atom depends on the advertised masks only, None if opaque"""
        mentions = any((isinstance(n, ast.Name) and n.id in loc) for n in ast.walk(test))
        has_pred = any(Scope.pred_call(n) for n in ast.walk(test) if isinstance(n, ast.Call))
        has_dom = any(isinstance(n, ast.Call) and ast.unparse(n.func) == "self.device.has_domain" for n in ast.walk(test))
        if not (mentions or has_pred or has_dom):
            return None
        # a predicate called from a constructor / operation is inlined at depth 0 (it may
        # itself call one further predicate)
        return self.scope.bexpr(test, glob, loc, -1)


# --------------------------------------------------------------------------------------
# Driver
# --------------------------------------------------------------------------------------

def domain_of(cls):
    """Domain value checked by `self.device.has_domain(Domain.D)` in the constructor chain."""
    for k in cls.__mro__:
        r = own_method(k, "__init__") if "__init__" in k.__dict__ else None
        if r is None:
            continue
        _p, _s, fn = r
        glob = sys.modules[k.__module__].__dict__
        for n in ast.walk(fn):
            if isinstance(n, ast.Call) and ast.unparse(n.func) == "self.device.has_domain" and len(n.args) == 1:
                a = n.args[0]
                if isinstance(a, ast.Attribute) and isinstance(a.value, ast.Name):
                    holder = glob.get(a.value.id)
                    return int(getattr(holder, a.attr)), ast.unparse(a)
    raise Unsupported("no has_domain check found for " + cls.__name__)


_SKIP_METHODS = {"close", "format", "lock", "unlock", "join", "sniff", "wait_packet", "wait_for_message"}


def public_methods(klass):
    """names of the plain public methods defined in klass itself that can be called as a step of a
    sequence: no decorators (properties), no callbacks, no generators, no predicates"""
    _p, _s, cn = class_node(klass)
    out = []
    for m in cn.body:
        if not isinstance(m, ast.FunctionDef) or m.decorator_list or m.name.startswith("_") or m.name.startswith("on_") \
                or m.name.startswith("can_") or m.name.startswith("support_") or m.name.startswith("wait") \
                or m.name in _SKIP_METHODS or m.name in out:
            continue
        if any(isinstance(x, (ast.Yield, ast.YieldFrom, ast.While)) for x in ast.walk(m)):
            continue
        out.append(m.name)
    return out


def state_access(fn):
    """instance attributes (other than the memoisation caches of predicates) read in a condition /
    written by a method: what makes an operation depend on the connector's history"""
    reads, writes = set(), set()
    for n in ast.walk(fn):
        if isinstance(n, (ast.If, ast.IfExp, ast.Assert)):
            for a in ast.walk(n.test):
                if isinstance(a, ast.Attribute) and isinstance(a.value, ast.Name) and a.value.id == "self" \
                        and isinstance(a.ctx, ast.Load) and not isinstance(getattr(a, "_parent_call", None), ast.Call):
                    reads.add(a.attr)
        if isinstance(n, ast.Attribute) and isinstance(n.value, ast.Name) and n.value.id == "self" and isinstance(n.ctx, ast.Store):
            writes.add(n.attr)
    # attributes that are only the callee of a call (self.can_x()) are not state
    for n in ast.walk(fn):
        if isinstance(n, ast.Call) and isinstance(n.func, ast.Attribute) and isinstance(n.func.value, ast.Name) \
                and n.func.value.id == "self":
            reads.discard(n.func.attr)
    for d in ("device", "hub"):
        reads.discard(d)
    return sorted(reads), sorted(writes)


def ident(s):
    return re.sub(r"[^A-Za-z0-9_]", "_", s)


def translate(repo=None, want_ops=()):
    """want_ops: operation ids (domain.Class.method) listed in Spec.v; they are translated even
    when the method no longer contains any guard (so that a dropped guard is seen)."""
    repo = repo or os.environ.get("VERIF_REPO") or None
    out = {"preds": [], "ctors": [], "ops": [], "enums": {}, "domains": {}}
    scopes = {}
    # --- predicates
    for dk, (modname, cname) in BASES.items():
        mod = importlib.import_module(modname)
        cls = getattr(mod, cname)
        dval, dname = domain_of(cls)
        out["domains"][dk] = {"value": dval, "name": dname}
        out["enums"][dk] = {k: int(v) for k, v in vars(mod.Commands).items()
                            if not k.startswith("_") and isinstance(v, int)}
        sc = scopes[dk] = Scope(cls, dval)
        path, src, cn = class_node(cls)
        names = []
        for m in cn.body:
            if isinstance(m, ast.FunctionDef) and (m.name.startswith("can_") or m.name.startswith("support_")) \
                    and m.name not in names:
                names.append(m.name)
        for name in names:
            item = {"id": "%s.%s" % (dk, name), "coq_name": "gen_%s_%s" % (dk, name), "domain": dk, "method": name,
                    "class": cname, "module": modname}
            try:
                k, p, s, fn = resolve_method(cls, name)
                item["tie"] = src_tie(p, fn, repo)
                tree = sc.pred(name, 0)
                item["coq"] = b_coq(tree)
                item["supp"] = b_supp(tree)
            except Unsupported as e:
                item["error"] = str(e)
            out["preds"].append(item)
    cap = importlib.import_module("whad.hub.discovery").Capability
    out["enums"]["Capability"] = {k: int(v) for k, v in vars(cap).items() if not k.startswith("_") and isinstance(v, int)}
    # --- constructors
    for rid, modname, cname, dk in ROLES:
        item = {"id": rid, "coq_name": "ctor_" + ident(rid), "domain": dk, "class": cname, "module": modname}
        try:
            mod = importlib.import_module(modname)
            cls = getattr(mod, cname)
            dval, _ = domain_of(cls)
            sc = Scope(cls, dval)
            k, p, s, fn = resolve_method(cls, "__init__")
            item["tie"] = src_tie(p, fn, repo)
            tr = GuardTr(sc, True)
            g = tr.seq(strip_doc(fn.body), ("done", "ROk"), lambda kind: ("done", "ROk"), k,
                       sys.modules[k.__module__].__dict__, {})
            if g_size(g) > 20000:
                raise Unsupported("guard program too large (%d nodes)" % g_size(g))
            item["coq"] = g_coq(g)
            item["supp"] = g_supp(g)
            item["size"] = g_size(g)
            item["transmitting_calls"] = sorted(set(tr.unsafe_seen))
            a = fn.args
            pos = a.args[1:]
            # steps of operation sequences on this role connector: start/stop and the role's own
            # argument-less public methods that consult a capability predicate
            steps = [n for n in ("start", "stop") if hasattr(cls, n)]
            try:
                _p2, _s2, rcn = class_node(cls)
                for m in rcn.body:
                    if isinstance(m, ast.FunctionDef) and m.name in public_methods(cls) and m.name not in steps \
                            and len(m.args.args) - len(m.args.defaults) == 1 \
                            and any(Scope.pred_call(x) for x in ast.walk(m) if isinstance(x, ast.Call)):
                        steps.append(m.name)
            except Unsupported:
                pass
            item["seq_methods"] = steps
            item["opt_params"] = [x.arg for x in pos[len(pos) - len(a.defaults):]] + \
                [x.arg for x, d in zip(a.kwonlyargs, a.kw_defaults) if d is not None]
        except Unsupported as e:
            item["error"] = str(e)
        except Exception as e:  # import errors etc. are translation failures too
            item["error"] = "%s: %s" % (type(e).__name__, e)
        out["ctors"].append(item)
    # --- operations
    for dk, modname, cname in OP_CLASSES:
        mod = importlib.import_module(modname)
        cls = getattr(mod, cname)
        dval, _ = domain_of(cls)
        path, src, cn = class_node(cls)
        out.setdefault("prefix_methods", {})["%s.%s" % (dk, cname)] = public_methods(cls)
        seen = set()
        wanted = {w.split(".")[2] for w in want_ops if w.split(".")[:2] == [dk, cname]}
        for m in cn.body:
            if not isinstance(m, ast.FunctionDef) or m.name == "__init__" or m.name.startswith("can_") \
                    or m.name.startswith("support_") or m.name in seen:
                continue
            preds = sorted({Scope.pred_call(x) for x in ast.walk(m) if isinstance(x, ast.Call) and Scope.pred_call(x)})
            raises = [x for x in ast.walk(m) if isinstance(x, ast.Raise) and x.exc is not None and "Unsupported" in ast.unparse(x.exc)]
            rawcmds = "get_domain_commands" in ast.unparse(m)
            if not (preds or raises or rawcmds or m.name in wanted):
                continue
            seen.add(m.name)
            k, p, s, fn = resolve_method(cls, m.name)   # last definition wins
            item = {"id": "%s.%s.%s" % (dk, cname, m.name), "coq_name": "op_%s_%s_%s" % (dk, cname, m.name),
                    "domain": dk, "class": cname, "module": modname, "method": m.name, "preds_called": preds,
                    "tie": src_tie(p, fn, repo)}
            item["state_reads"], item["state_writes"] = state_access(fn)
            try:
                sc = Scope(cls, dval)
                tr = GuardTr(sc, False)
                g = tr.seq(strip_doc(fn.body), ("done", "RFalse"), lambda kind: ("done", kind), k,
                           sys.modules[k.__module__].__dict__, {})
                item["coq"] = g_coq(g)
                item["supp"] = g_supp(g)
                item["size"] = g_size(g)
            except Unsupported as e:
                item["error"] = str(e)
            out["ops"].append(item)
    return out


if __name__ == "__main__":
    import json
    r = translate()
    for sec in ("preds", "ctors", "ops"):
        for it in r[sec]:
            print(sec, it["id"], it.get("error") or it["coq"][:150], it.get("supp"))
