"""C06 translator: Python AST of the capability predicates, role constructors and guarded
operations of the domain connectors  ->  Gallina terms of coq/theories/C06/Model.v
([bexpr] for predicates, [gprog] for constructors / operations).

Runs under /venv/bin/python with PYTHONPATH = tree under verification (it imports the
connector modules to resolve `Commands.X` / `Capability.X` / `Domain.X` to integers and to
follow the MRO); everything else is read from the source text with `ast`.
FAIL-CLOSED: an AST node outside the supported grammar raises `Unsupported`, the item is
reported with its error and is never silently skipped.

Predicates (methods `can_*` / `support_*`) are evaluated SYMBOLICALLY (class Scope) over the values
word (`self.device.get_domain_commands(Domain.D)` / `get_domain_capability`), closed integer
(INT, Commands.X, Capability.X, module/class constants assigned once, `<< >> | &` of those), masked
word (`word & closed`), truth value, constant tuple, None:
  statements : assignments to locals, `return`, `if/elif/else` (if-then-else on truth values), `for x in
               <constant tuple>` (unrolled), the memoisation idiom `if self.__c is None: ... self.__c = e`
  expressions: and/or/not, comparisons (`> >= < <= == !=`, `in`/`not in` a constant tuple), conditional
               expressions, `bool()`, `all()`/`any()` over a comprehension or tuple, `self.can_y()` (one
               level), `self.device.has_domain(Domain.D)`, calls to helpers of the SAME module / class
               hierarchy (module functions, methods, staticmethods; inlined transitively, arguments bound,
               defaults / keywords / *args supported)
Anything else (other instance attributes, the word without a constant mask, foreign helpers, loops over
non-constant collections, while/try ...) raises Unsupported.
D must be the domain the connector class checks in its constructor.

Grammar of constructors / operations: straight-line statements, `if`/`else`, `for`,
`raise`, `return`, `assert`; conditions are split on and/or/not into atoms; an atom that is
a capability predicate call / mask test / `self.device.has_domain(Domain.D)` becomes [GIf],
any other atom becomes [GChoice] (both branches possible).  A statement whose calls are all
on the allow-list below is [GCall false], any other call is [GCall true] (may transmit).
`super().__init__` / `Base.__init__(self, ..)` of connector classes are inlined.
"""
import ast, hashlib, importlib, inspect, os, re, sys


class Unsupported(Exception):
    pass


# --------------------------------------------------------------------------------------
# Targets
# --------------------------------------------------------------------------------------

# domain key -> (module, base class) defining the predicates
BASES = {
    "ble": ("whad.ble.connector.base", "BLE"),
    "dot15d4": ("whad.dot15d4.connector", "Dot15d4"),
    "esb": ("whad.esb.connector.base", "ESB"),
    "unifying": ("whad.unifying.connector.base", "Unifying"),
    "phy": ("whad.phy.connector.base", "Phy"),
}

# role connectors: id -> (module, class, predicate domain key)
ROLES = [
    ("ble.BLE", "whad.ble.connector.base", "BLE", "ble"),
    ("ble.Central", "whad.ble.connector.central", "Central", "ble"),
    ("ble.Peripheral", "whad.ble.connector.peripheral", "Peripheral", "ble"),
    ("ble.Scanner", "whad.ble.connector.scanner", "Scanner", "ble"),
    ("ble.Sniffer", "whad.ble.connector.sniffer", "Sniffer", "ble"),
    ("ble.Injector", "whad.ble.connector.injector", "Injector", "ble"),
    ("ble.Hijacker", "whad.ble.connector.hijacker", "Hijacker", "ble"),
    ("dot15d4.Dot15d4", "whad.dot15d4.connector", "Dot15d4", "dot15d4"),
    ("dot15d4.Coordinator", "whad.dot15d4.connector.coordinator", "Coordinator", "dot15d4"),
    ("dot15d4.EndDevice", "whad.dot15d4.connector.enddevice", "EndDevice", "dot15d4"),
    ("dot15d4.Injector", "whad.dot15d4.connector.injector", "Injector", "dot15d4"),
    ("dot15d4.Sniffer", "whad.dot15d4.connector.sniffer", "Sniffer", "dot15d4"),
    ("zigbee.Zigbee", "whad.zigbee.connector.base", "Zigbee", "dot15d4"),
    ("zigbee.Coordinator", "whad.zigbee.connector.coordinator", "Coordinator", "dot15d4"),
    ("zigbee.EndDevice", "whad.zigbee.connector.enddevice", "EndDevice", "dot15d4"),
    ("zigbee.Injector", "whad.zigbee.connector.injector", "Injector", "dot15d4"),
    ("zigbee.Sniffer", "whad.zigbee.connector.sniffer", "Sniffer", "dot15d4"),
    ("rf4ce.RF4CE", "whad.rf4ce.connector.base", "RF4CE", "dot15d4"),
    ("rf4ce.Controller", "whad.rf4ce.connector.controller", "Controller", "dot15d4"),
    ("rf4ce.Target", "whad.rf4ce.connector.target", "Target", "dot15d4"),
    ("rf4ce.Injector", "whad.rf4ce.connector.injector", "Injector", "dot15d4"),
    ("rf4ce.Sniffer", "whad.rf4ce.connector.sniffer", "Sniffer", "dot15d4"),
    ("esb.ESB", "whad.esb.connector.base", "ESB", "esb"),
    ("esb.PRX", "whad.esb.connector.prx", "PRX", "esb"),
    ("esb.PTX", "whad.esb.connector.ptx", "PTX", "esb"),
    ("esb.Scanner", "whad.esb.connector.scanner", "Scanner", "esb"),
    ("esb.Sniffer", "whad.esb.connector.sniffer", "Sniffer", "esb"),
    ("esb.Injector", "whad.esb.connector.injector", "Injector", "esb"),
    ("unifying.Unifying", "whad.unifying.connector.base", "Unifying", "unifying"),
    ("unifying.Dongle", "whad.unifying.connector.dongle", "Dongle", "unifying"),
    ("unifying.Keyboard", "whad.unifying.connector.keyboard", "Keyboard", "unifying"),
    ("unifying.Mouse", "whad.unifying.connector.mouse", "Mouse", "unifying"),
    ("unifying.Sniffer", "whad.unifying.connector.sniffer", "Sniffer", "unifying"),
    ("unifying.Keylogger", "whad.unifying.connector.keylogger", "Keylogger", "unifying"),
    ("unifying.Mouselogger", "whad.unifying.connector.mouselogger", "Mouselogger", "unifying"),
    ("unifying.Injector", "whad.unifying.connector.injector", "Injector", "unifying"),
    ("phy.Phy", "whad.phy.connector.base", "Phy", "phy"),
    ("phy.Injector", "whad.phy.connector.injector", "Injector", "phy"),
    ("phy.Sniffer", "whad.phy.connector.sniffer", "Sniffer", "phy"),
    ("phy.LoRa", "whad.phy.connector.lora", "LoRa", "phy"),
]

# guarded operations: every method of these classes (own methods only) that calls a
# predicate, reads the command word, or raises Unsupported* -- discovered from the AST.
OP_CLASSES = [
    ("ble", "whad.ble.connector.base", "BLE"),
    ("dot15d4", "whad.dot15d4.connector", "Dot15d4"),
    ("esb", "whad.esb.connector.base", "ESB"),
    ("unifying", "whad.unifying.connector.base", "Unifying"),
    ("phy", "whad.phy.connector.base", "Phy"),
    ("dot15d4", "whad.dot15d4.connector.coordinator", "Coordinator"),
    ("dot15d4", "whad.dot15d4.connector.enddevice", "EndDevice"),
]

# --------------------------------------------------------------------------------------
# Allow-list of NON-TRANSMITTING calls (text of the callee expression, regular expressions).
# `device.open()` / `device.discover()` transmit discovery messages only, never a domain
# command, which is what the property is about.  Everything not matched here counts as a
# possible transmission of a domain command.
# --------------------------------------------------------------------------------------
SAFE_CALLS = [
    r"logger\.\w+", r"isinstance", r"issubclass", r"hasattr", r"getattr", r"len", r"bytes", r"int", r"str",
    r"bool", r"range", r"all", r"any", r"list", r"dict", r"raw", r"struct\.pack", r"bytes\.fromhex",
    r"self\.device\.open", r"self\.device\.discover", r"self\.device\.has_domain",
    r"self\.device\.get_domain_commands", r"self\.device\.get_domain_capability",
    r"self\.device\.interface\.startswith",
    r"self\.enable_synchronous", r"self\.hub\.\w+\.create_\w+", r"message_filter",
    r"self\.add_event_handler", r"self\.add_listener", r"self\.__configure_stack",
    r"self\.can_\w+", r"self\.support_\w+",
    r"Version", r"CommandLineApp\.get_instance", r"app\.warning", r"bind",
    r"self\.__disconnected\.set", r"name\.startswith", r"kwargs\.items",
    r"MACManager\.add", r"ESBStack\.add", r"ATTLayer\.add",
    # protocol stacks instantiated with the connector as parent: their layers only
    # initialise local state (validated on every run by the recording-interface runs)
    r"ESBStack", r"Dot15d4Stack",
]
_SAFE_RE = re.compile(r"^(?:%s)$" % "|".join(SAFE_CALLS))

_SRC_CACHE = {}


def _module_ast(path):
    if path not in _SRC_CACHE:
        src = open(path).read()
        _SRC_CACHE[path] = (src, ast.parse(src))
    return _SRC_CACHE[path]


def class_node(klass):
    path = inspect.getsourcefile(klass)
    src, tree = _module_ast(path)
    for n in ast.walk(tree):
        if isinstance(n, ast.ClassDef) and n.name == klass.__name__:
            return path, src, n
    raise Unsupported("class %s not found in %s" % (klass.__name__, path))


def own_method(klass, name):
    """AST of method `name` defined in `klass` itself (last definition wins), or None."""
    try:
        path, src, cn = class_node(klass)
    except (TypeError, OSError, Unsupported):
        return None
    found = None
    for m in cn.body:
        if isinstance(m, ast.FunctionDef) and m.name == name:
            found = m
    return (path, src, found) if found is not None else None


def resolve_method(cls, name):
    """(defining class, path, src, FunctionDef) following the MRO of cls."""
    for k in cls.__mro__:
        if name in k.__dict__:
            r = own_method(k, name)
            if r is None:
                raise Unsupported("no source for %s.%s" % (k.__name__, name))
            return (k,) + r
    raise Unsupported("%s has no method %s" % (cls.__name__, name))


def src_tie(path, fn, repo):
    lines = open(path, "rb").read().splitlines(keepends=True)
    seg = b"".join(lines[fn.lineno - 1:fn.end_lineno])
    rel = os.path.relpath(path, repo) if repo else path
    return {"file": rel, "lines": [fn.lineno, fn.end_lineno], "sha256": hashlib.sha256(seg).hexdigest()}


def strip_doc(body):
    if body and isinstance(body[0], ast.Expr) and isinstance(body[0].value, ast.Constant) \
            and isinstance(body[0].value.value, str):
        return body[1:]
    return body


# --------------------------------------------------------------------------------------
# Predicates -> bexpr trees
#   cexpr: ('c', n, label) ('shl',a,b) ('shr',a,b) ('cor',a,b) ('cand',a,b)
#   iexpr: ('iconst', c) ('masked', var, c)
#   bexpr: ('const', b) ('test', var, n) ('cmp', op, i, i) ('truthy', i) ('not', x) ('and', x, y) ('or', x, y)
# --------------------------------------------------------------------------------------
CMP = {ast.Gt: "OGt", ast.GtE: "OGe", ast.Lt: "OLt", ast.LtE: "OLe", ast.Eq: "OEq", ast.NotEq: "ONe"}
VARS = {"cmds": "VCmds", "caps": "VCaps", "aux": "VAux"}


CTAGS = ("c", "shl", "shr", "cor", "cand")


def is_closed(v):
    return isinstance(v, tuple) and len(v) > 0 and v[0] in CTAGS


def b_not(x):
    if x[0] == "const":
        return ("const", not x[1])
    if x[0] == "not":
        return x[1]
    return ("not", x)


def b_and(x, y):
    if x[0] == "const":
        return y if x[1] else x
    if y[0] == "const":
        return x if y[1] else y
    return ("and", x, y)


def b_or(x, y):
    if x[0] == "const":
        return x if x[1] else y
    if y[0] == "const":
        return y if y[1] else x
    return ("or", x, y)


def b_ite(c, a, b):
    """if c then a else b, on truth values"""
    if a == b:
        return a
    if c[0] == "const":
        return a if c[1] else b
    return b_or(b_and(c, a), b_and(b_not(c), b))


class Scope:
    """Translation context of one target class: a small symbolic evaluator of the predicate
    fragment of Python.  Values:  str = one of the advertised words ("cmds"/"caps");
    cexpr tuple = closed integer; ("I", iexpr) = masked word; ("B", bexpr) = truth value;
    ("T", [values]) = tuple/list; ("N",) = None; ("SELF",) = the connector.
    Helper functions/methods of the same module/class are inlined (arguments bound to values),
    loops over constant tuples are unrolled, if/return control flow becomes if-then-else on
    truth values.  Anything else raises Unsupported (fail-closed)."""
    MAX_INLINE = 6
    BUDGET = 4000

    def __init__(self, cls, domain_value):
        self.cls = cls
        self.domain_value = domain_value
        self.pred_cache = {}
        self.cache_attr = {}        # predicate name -> its memoisation attribute
        self.steps = 0

    # -- truth value / integer views of a value
    def truth(self, v):
        if isinstance(v, str):
            raise Unsupported("word %s used without a constant mask" % v)
        if is_closed(v):
            return ("truthy", ("iconst", v))
        if v[0] == "I":
            return ("truthy", v[1])
        if v[0] == "B":
            return v[1]
        if v[0] == "T":
            return ("const", len(v[1]) > 0)
        if v[0] == "N":
            return ("const", False)
        raise Unsupported("no truth value for %r" % (v[0],))

    def as_iexpr(self, v, what):
        if is_closed(v):
            return ("iconst", v)
        if isinstance(v, tuple) and v and v[0] == "I":
            return v[1]
        raise Unsupported("not an integer expression of the grammar: " + what)

    # -- constants of the module / class assigned once to an expression of the closed grammar
    def module_const(self, glob, name):
        path = glob.get("__file__")
        if not path or not os.path.exists(path):
            return None
        _src, tree = _module_ast(path)
        defs = [st for st in tree.body if isinstance(st, (ast.Assign, ast.AnnAssign, ast.AugAssign))
                for t in (st.targets if isinstance(st, ast.Assign) else [st.target])
                if isinstance(t, ast.Name) and t.id == name]
        if len(defs) != 1 or isinstance(defs[0], ast.AugAssign) or defs[0].value is None:
            return None
        return self.ev(defs[0].value, glob, {}, 0, ("<const %s>" % name,))

    def class_const(self, name):
        for k in self.cls.__mro__:
            if name in k.__dict__ and not callable(k.__dict__[name]) and not isinstance(k.__dict__[name], (staticmethod, classmethod, property)):
                try:
                    _p, _s, cn = class_node(k)
                except (Unsupported, TypeError, OSError):
                    return None
                defs = [st for st in cn.body if isinstance(st, (ast.Assign, ast.AnnAssign, ast.AugAssign))
                        for t in (st.targets if isinstance(st, ast.Assign) else [st.target])
                        if isinstance(t, ast.Name) and t.id == name]
                if len(defs) != 1 or isinstance(defs[0], ast.AugAssign) or defs[0].value is None:
                    return None
                return self.ev(defs[0].value, sys.modules[k.__module__].__dict__, {}, 0, ("<const %s>" % name,))
        return None

    def py_const(self, v, label):
        if isinstance(v, bool):
            return ("B", ("const", v))
        if isinstance(v, int) and v >= 0:
            return ("c", int(v), label)
        if isinstance(v, (tuple, list)):
            return ("T", [self.py_const(x, label) for x in v])
        raise Unsupported("cannot resolve constant " + label)

    # -- expressions
    def ev(self, node, glob, loc, depth, stack=()):
        self.steps += 1
        if self.steps > self.BUDGET * 50:
            raise Unsupported("predicate too large")
        if isinstance(node, ast.Constant):
            if isinstance(node.value, bool):
                return ("B", ("const", node.value))
            if isinstance(node.value, int):
                if node.value < 0:
                    raise Unsupported("negative constant")
                return ("c", node.value, str(node.value))
            if node.value is None:
                return ("N",)
            raise Unsupported("constant " + repr(node.value)[:30])
        if isinstance(node, ast.Name):
            if node.id in loc:
                return loc[node.id]
            if node.id == "self" and "__self__" in loc:
                return ("SELF",)
            v = self.module_const(glob, node.id)
            if v is not None:
                return v
            raise Unsupported("unknown name in predicate: " + node.id)
        if isinstance(node, ast.Attribute) and isinstance(node.value, ast.Name):
            key = "%s.%s" % (node.value.id, node.attr)
            if node.value.id == "self":
                if key in loc:
                    return loc[key]
                v = self.class_const(node.attr)
                if v is not None:
                    return v
                raise Unsupported("instance attribute read in predicate: " + key)
            holder = loc.get(node.value.id, glob.get(node.value.id))
            if holder is not None and inspect.isclass(holder) and hasattr(holder, node.attr):
                return self.py_const(getattr(holder, node.attr), key)
            raise Unsupported("cannot resolve constant " + key)
        if isinstance(node, (ast.Tuple, ast.List)):
            return ("T", [self.ev(e, glob, loc, depth, stack) for e in node.elts])
        if isinstance(node, ast.BinOp):
            a, b = self.ev(node.left, glob, loc, depth, stack), self.ev(node.right, glob, loc, depth, stack)
            ops = {ast.LShift: "shl", ast.RShift: "shr", ast.BitOr: "cor", ast.BitAnd: "cand"}
            if isinstance(node.op, ast.BitAnd):
                for x, y in ((a, b), (b, a)):
                    if isinstance(x, str) and is_closed(y):
                        return ("I", ("masked", x, y))
            if type(node.op) in ops and is_closed(a) and is_closed(b):
                return (ops[type(node.op)], a, b)
            if isinstance(a, str) or isinstance(b, str):
                raise Unsupported("word used without a constant mask: " + ast.unparse(node))
            raise Unsupported("not a closed integer expression: " + ast.unparse(node))
        if isinstance(node, ast.UnaryOp) and isinstance(node.op, ast.Not):
            return ("B", b_raw_not(self.truth(self.ev(node.operand, glob, loc, depth, stack))))
        if isinstance(node, ast.BoolOp):
            vals = [self.truth(self.ev(v, glob, loc, depth, stack)) for v in node.values]
            tag = "and" if isinstance(node.op, ast.And) else "or"
            out = vals[-1]
            for v in reversed(vals[:-1]):
                out = (tag, v, out)
            return ("B", out)
        if isinstance(node, ast.IfExp):
            c = self.truth(self.ev(node.test, glob, loc, depth, stack))
            return self.ite(c, self.ev(node.body, glob, loc, depth, stack), self.ev(node.orelse, glob, loc, depth, stack))
        if isinstance(node, ast.Compare):
            if len(node.ops) != 1:
                raise Unsupported("comparison " + ast.unparse(node))
            op = node.ops[0]
            left = self.ev(node.left, glob, loc, depth, stack)
            right = self.ev(node.comparators[0], glob, loc, depth, stack)
            if isinstance(op, (ast.In, ast.NotIn)):
                if not (isinstance(right, tuple) and right and right[0] == "T"):
                    raise Unsupported("membership in a non-constant collection: " + ast.unparse(node))
                li = self.as_iexpr(left, ast.unparse(node.left))
                out = ("const", False)
                for e in reversed(right[1]):
                    out = b_or(("cmp", "OEq", li, self.as_iexpr(e, ast.unparse(node))), out)
                return ("B", b_not(out) if isinstance(op, ast.NotIn) else out)
            if type(op) not in CMP:
                raise Unsupported("comparison " + ast.unparse(node))
            return ("B", ("cmp", CMP[type(op)], self.as_iexpr(left, ast.unparse(node.left)),
                          self.as_iexpr(right, ast.unparse(node.comparators[0]))))
        if isinstance(node, (ast.GeneratorExp, ast.ListComp)):
            if len(node.generators) != 1 or node.generators[0].ifs or node.generators[0].is_async \
                    or not isinstance(node.generators[0].target, ast.Name):
                raise Unsupported("comprehension " + ast.unparse(node))
            it = self.ev(node.generators[0].iter, glob, loc, depth, stack)
            if not (isinstance(it, tuple) and it and it[0] == "T"):
                raise Unsupported("comprehension over a non-constant collection: " + ast.unparse(node))
            return ("T", [self.ev(node.elt, glob, dict(loc, **{node.generators[0].target.id: e}), depth, stack) for e in it[1]])
        if isinstance(node, ast.Call):
            return self.call(node, glob, loc, depth, stack)
        raise Unsupported("expression in predicate: " + ast.unparse(node)[:80])

    def ite(self, c, a, b):
        if a == b:
            return a
        return ("B", b_ite(c, self.truth(a), self.truth(b)))

    def call(self, node, glob, loc, depth, stack):
        f = ast.unparse(node.func)
        name = self.pred_call(node)
        if name is not None:
            if depth >= 1:
                raise Unsupported("nested predicate call deeper than one level: " + ast.unparse(node))
            return ("B", self.pred(name, depth + 1))
        if f in ("self.device.get_domain_commands", "self.device.get_domain_capability") and len(node.args) == 1 and not node.keywords:
            self.check_domain(node.args[0], glob, loc)
            return "cmds" if f.endswith("commands") else "caps"
        if f == "self.device.has_domain" and len(node.args) == 1:
            self.check_domain(node.args[0], glob, loc)
            return ("B", ("test", "aux", 0))
        if f == "bool" and len(node.args) == 1 and not node.keywords:
            return ("B", self.truth(self.ev(node.args[0], glob, loc, depth, stack)))
        if f in ("all", "any") and len(node.args) == 1 and not node.keywords:
            seq = self.ev(node.args[0], glob, loc, depth, stack)
            if not (isinstance(seq, tuple) and seq and seq[0] == "T"):
                raise Unsupported("%s() of a non-constant collection: %s" % (f, ast.unparse(node)))
            out = ("const", f == "all")
            for e in reversed(seq[1]):
                out = b_and(self.truth(e), out) if f == "all" else b_or(self.truth(e), out)
            return ("B", out)
        # helper defined in the same module / class: inline
        target = self.helper(node, glob, loc)
        if target is not None:
            fn, fglob, selfval, label = target
            if label in stack or len(stack) >= self.MAX_INLINE:
                raise Unsupported("helper inlining too deep / recursive: " + label)
            if any(isinstance(a, ast.Starred) for a in node.args) or any(k.arg is None for k in node.keywords):
                raise Unsupported("star arguments in call: " + ast.unparse(node))
            args = [self.ev(a, glob, loc, depth, stack) for a in node.args]
            kws = {k.arg: self.ev(k.value, glob, loc, depth, stack) for k in node.keywords}
            return self.inline(fn, fglob, selfval, args, kws, depth, stack + (label,))
        raise Unsupported("call in predicate: " + ast.unparse(node))

    def helper(self, node, glob, loc):
        """(FunctionDef, globals, self value or None, label) of a helper of the same module/class"""
        f = node.func
        if isinstance(f, ast.Name):
            obj = glob.get(f.id)
            if inspect.isfunction(obj) and obj.__module__ == glob.get("__name__"):
                _src, tree = _module_ast(glob["__file__"])
                defs = [st for st in tree.body if isinstance(st, ast.FunctionDef) and st.name == f.id]
                if len(defs) == 1:
                    return defs[0], glob, None, "%s.%s" % (glob.get("__name__"), f.id)
            return None
        if isinstance(f, ast.Attribute) and isinstance(f.value, ast.Name):
            owner = f.value.id
            klass = self.cls if (owner == "self" and (("__self__" in loc) or True)) else loc.get(owner, glob.get(owner))
            if owner not in ("self",) and not (inspect.isclass(klass) and issubclass(self.cls, klass)):
                return None
            if not inspect.isclass(klass) or f.attr.startswith("can_") or f.attr.startswith("support_"):
                return None
            for k in klass.__mro__:
                if f.attr in k.__dict__:
                    if not k.__module__.startswith("whad."):
                        return None
                    raw = k.__dict__[f.attr]
                    r = own_method(k, f.attr)
                    if r is None:
                        return None
                    static = isinstance(raw, staticmethod)
                    if isinstance(raw, (classmethod, property)):
                        return None
                    if owner != "self" and not static:
                        return None
                    return r[2], sys.modules[k.__module__].__dict__, (None if static else ("SELF",)), "%s.%s" % (k.__name__, f.attr)
            return None
        return None

    def inline(self, fn, fglob, selfval, args, kws, depth, stack):
        a = fn.args
        params = [x.arg for x in a.posonlyargs + a.args]
        nloc = {}
        if selfval is not None:
            if not params:
                raise Unsupported("method without self: " + fn.name)
            nloc["__self__"] = True
            params = params[1:]
        defaults = dict(zip(params[len(params) - len(a.defaults):], a.defaults)) if a.defaults else {}
        for i, pname in enumerate(params):
            if i < len(args):
                nloc[pname] = args[i]
            elif pname in kws:
                nloc[pname] = kws.pop(pname)
            elif pname in defaults:
                nloc[pname] = self.ev(defaults[pname], fglob, {}, depth, stack)
            else:
                raise Unsupported("missing argument %s of %s" % (pname, fn.name))
        extra = args[len(params):]
        if a.vararg is not None:
            nloc[a.vararg.arg] = ("T", list(extra))
        elif extra:
            raise Unsupported("too many arguments for " + fn.name)
        for x, d in zip(a.kwonlyargs, a.kw_defaults):
            if x.arg in kws:
                nloc[x.arg] = kws.pop(x.arg)
            elif d is not None:
                nloc[x.arg] = self.ev(d, fglob, {}, depth, stack)
            else:
                raise Unsupported("missing keyword argument %s of %s" % (x.arg, fn.name))
        if kws:
            raise Unsupported("unexpected keyword argument(s) %s of %s" % (sorted(kws), fn.name))
        return self.run(strip_doc(fn.body), fglob, nloc, depth, stack, None)

    # -- statements: value of `stmts` followed by continuation `cont`
    def run(self, stmts, glob, loc, depth, stack, cont):
        self.steps += 1
        if self.steps > self.BUDGET * 50:
            raise Unsupported("predicate too large")
        if not stmts:
            return cont(loc) if cont else ("N",)
        st, rest = stmts[0], stmts[1:]
        again = lambda l: self.run(rest, glob, l, depth, stack, cont)
        if isinstance(st, ast.Pass) or (isinstance(st, ast.Expr) and isinstance(st.value, ast.Constant)):
            return again(loc)
        if isinstance(st, ast.Return):
            return self.ev(st.value, glob, loc, depth, stack) if st.value is not None else ("N",)
        if isinstance(st, (ast.Assign, ast.AnnAssign)):
            targets = st.targets if isinstance(st, ast.Assign) else [st.target]
            if len(targets) != 1 or st.value is None:
                raise Unsupported("assignment " + ast.unparse(st)[:60])
            t = targets[0]
            if isinstance(t, ast.Name):
                return again(dict(loc, **{t.id: self.ev(st.value, glob, loc, depth, stack)}))
            if isinstance(t, ast.Attribute) and ast.unparse(t) == loc.get("__cache__"):
                return again(dict(loc, **{ast.unparse(t): self.ev(st.value, glob, loc, depth, stack)}))
            raise Unsupported("statement in predicate: " + ast.unparse(st)[:80] +
                              (" (statement in memoisation block)" if loc.get("__cache__") else ""))
        if isinstance(st, ast.If):
            t = st.test
            # memoisation idiom of a predicate: `if self.__c is None: ...; self.__c = expr` ... `return self.__c`
            if not st.orelse and isinstance(t, ast.Compare) and len(t.ops) == 1 and isinstance(t.ops[0], ast.Is) \
                    and isinstance(t.comparators[0], ast.Constant) and t.comparators[0].value is None \
                    and isinstance(t.left, ast.Attribute) and ast.unparse(t.left).startswith("self.") \
                    and loc.get("__pred__") and not loc.get("__cache__"):
                cache = ast.unparse(t.left)
                self.cache_attr[loc["__pred__"]] = cache
                # first call (cache empty): the block runs, then what follows; later calls return the stored
                # value, which is the same expression of the (immutable) advertised words
                val = self.run(list(st.body) + list(rest), glob, dict(loc, __cache__=cache), depth, stack, cont)
                if cache not in self._assigned(st.body):
                    raise Unsupported("memoisation block does not assign " + cache)
                return val
            c = self.truth(self.ev(t, glob, loc, depth, stack))
            a = self.run(list(st.body), glob, loc, depth, stack, again)
            b = self.run(list(st.orelse), glob, loc, depth, stack, again)
            return self.ite(c, a, b)
        if isinstance(st, ast.For):
            if not isinstance(st.target, ast.Name) or any(isinstance(x, (ast.Break, ast.Continue)) for x in ast.walk(st)):
                raise Unsupported("loop " + ast.unparse(st).split("\n")[0][:60])
            it = self.ev(st.iter, glob, loc, depth, stack)
            if not (isinstance(it, tuple) and it and it[0] == "T"):
                raise Unsupported("loop over a non-constant collection: " + ast.unparse(st.iter))
            elems = it[1]
            def step(i, l):
                if i == len(elems):
                    return self.run(list(st.orelse), glob, l, depth, stack, again)
                return self.run(list(st.body), glob, dict(l, **{st.target.id: elems[i]}), depth, stack,
                                lambda l2: step(i + 1, l2))
            return step(0, loc)
        raise Unsupported("statement in predicate: " + ast.unparse(st).split("\n")[0][:80])

    @staticmethod
    def _assigned(stmts):
        return {ast.unparse(t) for s in stmts for n in ast.walk(s) if isinstance(n, ast.Assign) for t in n.targets}

    # -- interface used by the guard-program translator
    def closed(self, node, glob, loc=None):
        v = self.ev(node, glob, loc or {}, 0)
        if not is_closed(v):
            raise Unsupported("not a closed integer expression: " + ast.unparse(node))
        return v

    def bexpr(self, node, glob, loc, depth):
        return self.truth(self.ev(node, glob, loc, depth))

    @staticmethod
    def pred_call(node):
        if isinstance(node, ast.Call) and not node.args and not node.keywords \
                and isinstance(node.func, ast.Attribute) and isinstance(node.func.value, ast.Name) \
                and node.func.value.id == "self" \
                and (node.func.attr.startswith("can_") or node.func.attr.startswith("support_")):
            return node.func.attr
        return None

    def check_domain(self, node, glob, loc=None):
        c = self.closed(node, glob, loc)
        if c_eval(c) != self.domain_value:
            raise Unsupported("queries domain %s, the connector's domain is 0x%08x" % (ast.unparse(node), self.domain_value))

    def binding(self, stmt, glob):
        """`NAME = self.device.get_domain_commands(Domain.D)` -> (NAME, var) or None"""
        if isinstance(stmt, ast.Assign) and len(stmt.targets) == 1 and isinstance(stmt.targets[0], ast.Name) \
                and isinstance(stmt.value, ast.Call) and len(stmt.value.args) == 1 and not stmt.value.keywords:
            f = ast.unparse(stmt.value.func)
            if f in ("self.device.get_domain_commands", "self.device.get_domain_capability"):
                self.check_domain(stmt.value.args[0], glob)
                return stmt.targets[0].id, ("cmds" if f.endswith("commands") else "caps")
        return None

    def pred(self, name, depth=0):
        key = (name, depth)
        if key in self.pred_cache:
            return self.pred_cache[key]
        k, path, src, fn = resolve_method(self.cls, name)
        glob = sys.modules[k.__module__].__dict__
        if len(fn.args.args) != 1 or fn.args.vararg or fn.args.kwarg or fn.args.kwonlyargs:
            raise Unsupported("predicate %s takes arguments" % name)
        res = self.truth(self.run(strip_doc(fn.body), glob, {"__pred__": name, "__self__": True}, depth, (name,), None))
        self.pred_cache[key] = res
        return res


def b_raw_not(x):
    return ("not", x)


# -- evaluation / rendering of trees ----------------------------------------------------

def c_eval(c):
    t = c[0]
    if t == "c":
        return c[1]
    a, b = c_eval(c[1]), c_eval(c[2])
    return {"shl": lambda: a << b, "shr": lambda: a >> b, "cor": lambda: a | b, "cand": lambda: a & b}[t]()


def b_supp(b, acc=None):
    acc = acc if acc is not None else {"cmds": 0, "caps": 0, "aux": 0}
    t = b[0]
    if t == "test":
        acc[b[1]] |= 1 << b[2]
    elif t == "cmp":
        for i in (b[2], b[3]):
            if i[0] == "masked":
                acc[i[1]] |= c_eval(i[2])
    elif t == "truthy":
        if b[1][0] == "masked":
            acc[b[1][1]] |= c_eval(b[1][2])
    elif t == "not":
        b_supp(b[1], acc)
    elif t in ("and", "or"):
        b_supp(b[1], acc); b_supp(b[2], acc)
    return acc


def c_coq(c):
    if c[0] == "c":
        return "(CConst %d)" % c[1]
    return "(%s %s %s)" % ({"shl": "CShl", "shr": "CShr", "cor": "COr", "cand": "CAnd"}[c[0]], c_coq(c[1]), c_coq(c[2]))


def i_coq(i):
    if i[0] == "iconst":
        return "(IConst %s)" % c_coq(i[1])
    return "(IMasked %s %s)" % (VARS[i[1]], c_coq(i[2]))


def b_coq(b):
    t = b[0]
    if t == "const":
        return "(BConst %s)" % ("true" if b[1] else "false")
    if t == "test":
        return "(BTest %s %d)" % (VARS[b[1]], b[2])
    if t == "cmp":
        return "(BCmp %s %s %s)" % (b[1], i_coq(b[2]), i_coq(b[3]))
    if t == "truthy":
        return "(BTruthy %s)" % i_coq(b[1])
    if t == "not":
        return "(BNot %s)" % b_coq(b[1])
    return "(%s %s %s)" % ("BAnd" if t == "and" else "BOr", b_coq(b[1]), b_coq(b[2]))


# --------------------------------------------------------------------------------------
# Constructors / operations -> gprog trees
#   ('done', result) ('call', transmits, name, k) ('if', bexpr, t, e) ('choice', label, t, e)
#   result: 'ROk' | 'RFalse' | ('raise', exn)
# --------------------------------------------------------------------------------------
HOLE = ("hole",)


def coq_string(s):
    s = "".join(ch if 32 <= ord(ch) < 127 else "?" for ch in s)
    return '"' + s.replace('"', "'")[:60] + '"'


def g_coq(g):
    t = g[0]
    if t == "done":
        r = g[1]
        return "(GDone %s)" % (r if isinstance(r, str) else "(RRaise %s)" % r[1])
    if t == "call":
        return "(GCall %s %s %s)" % ("true" if g[1] else "false", coq_string(g[2]), g_coq(g[3]))
    if t == "if":
        return "(GIf %s %s %s)" % (b_coq(g[1]), g_coq(g[2]), g_coq(g[3]))
    if t == "choice":
        return "(GChoice %s %s %s)" % (coq_string(g[1]), g_coq(g[2]), g_coq(g[3]))
    raise AssertionError(g)


def g_supp(g, acc=None):
    acc = acc if acc is not None else {"cmds": 0, "caps": 0, "aux": 0}
    if g[0] == "call":
        g_supp(g[3], acc)
    elif g[0] == "if":
        b_supp(g[1], acc); g_supp(g[2], acc); g_supp(g[3], acc)
    elif g[0] == "choice":
        g_supp(g[2], acc); g_supp(g[3], acc)
    return acc


def g_size(g):
    if g[0] == "done":
        return 1
    if g[0] == "call":
        return 1 + g_size(g[3])
    return 1 + g_size(g[2]) + g_size(g[3])


def harmless(g):
    """only non-transmitting calls and falls through to the hole"""
    if g == HOLE:
        return True
    if g[0] == "call":
        return (not g[1]) and harmless(g[3])
    if g[0] in ("if", "choice"):
        return harmless(g[2]) and harmless(g[3])
    return False


def plug(g, k):
    if g == HOLE:
        return k
    if g[0] == "done":
        return g
    if g[0] == "call":
        return ("call", g[1], g[2], plug(g[3], k))
    return (g[0], g[1], plug(g[2], k), plug(g[3], k))


class GuardTr:
    def __init__(self, scope, is_ctor):
        self.scope = scope
        self.is_ctor = is_ctor
        self.unsafe_seen = []
        self.inline_depth = 0

    def call_safe(self, call, glob):
        f = ast.unparse(call.func)
        if _SAFE_RE.match(f):
            return True
        # constructor of a class that is not a connector, not given `self`
        if isinstance(call.func, ast.Name):
            obj = glob.get(call.func.id)
            if inspect.isclass(obj) and not self.is_connector(obj):
                if not any(isinstance(a, ast.Name) and a.id == "self" for a in list(call.args) + [k.value for k in call.keywords]):
                    return True
        return False

    @staticmethod
    def is_connector(klass):
        from whad.device.connector import Connector
        from whad.device import Device
        return issubclass(klass, (Connector, Device))

    def classify(self, node, glob):
        """(transmits, name) for the calls inside a statement / expression"""
        bad = [c for c in ast.walk(node) if isinstance(c, ast.Call) and not self.call_safe(c, glob)]
        if bad:
            return True, ast.unparse(bad[0].func)
        return False, ast.unparse(node).split("\n")[0]

    def base_init(self, call, defcls, glob):
        """If `call` is super().__init__(..) or Base.__init__(self, ..): the class whose
        __init__ runs, else None."""
        f = call.func
        if not (isinstance(f, ast.Attribute) and f.attr == "__init__"):
            return None
        if isinstance(f.value, ast.Call) and isinstance(f.value.func, ast.Name) and f.value.func.id == "super" \
                and not f.value.args:
            mro = self.scope.cls.__mro__
            after = mro[mro.index(defcls) + 1:]
            for k in after:
                if "__init__" in k.__dict__:
                    return k
            return object
        if isinstance(f.value, ast.Name) and call.args and isinstance(call.args[0], ast.Name) and call.args[0].id == "self":
            k = glob.get(f.value.id)
            if inspect.isclass(k):
                for kk in k.__mro__:
                    if "__init__" in kk.__dict__:
                        return kk
        return None

    def inline_guarded(self, call, glob, loc):
        """`self.m(args)` / `_helper(args)` as a statement, where the callee is itself guarded (calls a
        predicate, reads the command word or raises Unsupported*): its body is inlined (one level) so
        that the bits ITS guard reads appear in the program (e.g. Peripheral.__init__ ->
        set_bd_address, or a guard clause extracted into a helper).  Parameters are bound to the
        arguments that evaluate in the predicate grammar (masks, constants, predicate values)."""
        f = call.func
        if self.inline_depth > 0 or Scope.pred_call(call):
            return None
        if isinstance(f, ast.Attribute) and f.attr.startswith("__") and f.attr.endswith("__"):
            return None
        if any(not self.call_safe(c, glob) for a in list(call.args) + [kw.value for kw in call.keywords]
               for c in ast.walk(a) if isinstance(c, ast.Call)):
            return None
        if isinstance(f, ast.Attribute) and isinstance(f.value, ast.Name) and f.value.id == "self":
            try:
                mk, _p, _s, fn = resolve_method(self.scope.cls, f.attr)
            except Unsupported:
                return None
            fglob, is_method = sys.modules[mk.__module__].__dict__, not isinstance(mk.__dict__.get(f.attr), staticmethod)
        else:
            h = self.scope.helper(call, glob, loc)
            if h is None:
                return None
            fn, fglob, selfval, _label = h
            mk, is_method = self.scope.cls, selfval is not None
        guarded = any(Scope.pred_call(x) for x in ast.walk(fn) if isinstance(x, ast.Call)) \
            or any(isinstance(x, ast.Raise) and x.exc is not None and "Unsupported" in ast.unparse(x.exc) for x in ast.walk(fn)) \
            or "get_domain_commands" in ast.unparse(fn)
        if not guarded:
            return None
        params = [x.arg for x in fn.args.args][(1 if is_method else 0):]
        ploc = {}
        pairs = list(zip(params, call.args)) + [(k.arg, k.value) for k in call.keywords if k.arg in params]
        for pname, anode in pairs:
            try:
                ploc[pname] = self.scope.ev(anode, glob, loc, -1)
            except Unsupported:
                pass
        if fn.args.vararg is not None and len(call.args) >= len(params):
            try:
                ploc[fn.args.vararg.arg] = ("T", [self.scope.ev(a, glob, loc, -1) for a in call.args[len(params):]])
            except Unsupported:
                pass
        return mk, fn, fglob, ploc

    def in_scope_connector(self, k):
        return self.is_connector(k) and k.__module__.startswith("whad.") and ".connector" in k.__module__ \
            and k.__module__ != "whad.device.connector"

    # -- statements
    def seq(self, stmts, k, retk, defcls, glob, loc):
        """translate stmts followed by continuation k (a gprog); retk(kind) = what `return` does"""
        if not stmts:
            return k
        st, rest = stmts[0], stmts[1:]
        if isinstance(st, ast.Expr) and isinstance(st.value, ast.Constant):
            return self.seq(rest, k, retk, defcls, glob, loc)
        if isinstance(st, ast.Pass):
            return self.seq(rest, k, retk, defcls, glob, loc)
        if isinstance(st, ast.Raise):
            if st.exc is None:
                raise Unsupported("bare raise")
            name = ast.unparse(st.exc.func) if isinstance(st.exc, ast.Call) else ast.unparse(st.exc)
            exn = {"UnsupportedDomain": "EUnsupportedDomain", "UnsupportedCapability": "EUnsupportedCapability"}.get(name, "EOther")
            g = ("done", ("raise", exn))
            tx, nm = self.classify(st, glob)
            return ("call", True, nm, g) if tx else g
        if isinstance(st, ast.Return):
            kind = "ROk"
            if st.value is None or (isinstance(st.value, ast.Constant) and st.value.value in (None, False)):
                kind = "RFalse"
            if isinstance(st.value, ast.Call):
                # `return self.m(...)` / `return _helper(...)` with a guarded callee: the callee's body is
                # the rest of this operation (its guards are guards of this entry point too)
                inl = self.inline_guarded(st.value, glob, loc)
                if inl is not None:
                    mk, fn, fglob, ploc = inl
                    self.inline_depth += 1
                    try:
                        return self.seq(strip_doc(fn.body), retk("RFalse"), retk, mk, fglob, ploc)
                    except Unsupported:
                        pass
                    finally:
                        self.inline_depth -= 1
            g = retk(kind)
            if st.value is not None:
                tx, nm = self.classify(st.value, glob)
                if tx:
                    g = ("call", True, nm, g)
            return g
        if isinstance(st, ast.If):
            restg = self.seq(rest, k, retk, defcls, glob, loc)
            t = self.seq(st.body, HOLE, retk, defcls, glob, dict(loc))
            e = self.seq(st.orelse, HOLE, retk, defcls, glob, dict(loc))
            return self.cond(st.test, t, e, restg, glob, loc)
        if isinstance(st, ast.For):
            restg = self.seq(rest, k, retk, defcls, glob, loc)
            body = self.seq(st.body + st.orelse, HOLE, retk, defcls, glob, dict(loc))
            tx, nm = self.classify(st.iter, glob)
            if harmless(body):
                g = ("call", False, "for " + ast.unparse(st.target), restg)
            else:
                g = ("choice", "for " + ast.unparse(st.target), plug(body, restg), restg)
            return ("call", True, nm, g) if tx else g
        if isinstance(st, ast.Assert):
            restg = self.seq(rest, k, retk, defcls, glob, loc)
            tx, nm = self.classify(st.test, glob)
            g = ("choice", "assert " + ast.unparse(st.test), restg, ("done", ("raise", "EOther")))
            return ("call", True, nm, g) if tx else g
        if isinstance(st, (ast.Assign, ast.AugAssign, ast.AnnAssign, ast.Expr)):
            b = self.scope.binding(st, glob) if isinstance(st, ast.Assign) else None
            if b:
                loc[b[0]] = b[1]
                return self.seq(rest, k, retk, defcls, glob, loc)
            if isinstance(st, ast.Assign) and len(st.targets) == 1 and isinstance(st.targets[0], ast.Name):
                # a local bound to an expression of the predicate grammar (mask test, helper result, constant)
                try:
                    v = self.scope.ev(st.value, glob, loc, -1)
                except Unsupported:
                    v = None
                    loc.pop(st.targets[0].id, None)     # rebound to something outside the grammar
                if v is not None and (self.mask_dependent(v) or is_closed(v) or v[0] == "T"):
                    loc[st.targets[0].id] = v
                    return ("call", False, ast.unparse(st).split("\n")[0], self.seq(rest, k, retk, defcls, glob, loc))
            call = st.value if isinstance(st, ast.Expr) and isinstance(st.value, ast.Call) else None
            if call is not None:
                bk = self.base_init(call, defcls, glob)
                if bk is not None:
                    restg = self.seq(rest, k, retk, defcls, glob, loc)
                    if self.in_scope_connector(bk):
                        r = own_method(bk, "__init__")
                        if r is None:
                            raise Unsupported("no source for %s.__init__" % bk.__name__)
                        _p, _s, fn = r
                        bglob = sys.modules[bk.__module__].__dict__
                        return self.seq(strip_doc(fn.body), restg, lambda kind: restg, bk, bglob, {})
                    # Connector.__init__ (starts the I/O thread), EventsManager, Thread, object ...
                    tx = any(not self.call_safe(c, glob) for a in list(call.args) + [kw.value for kw in call.keywords]
                             for c in ast.walk(a) if isinstance(c, ast.Call))
                    return ("call", tx, "%s.__init__" % bk.__name__, restg)
                inl = self.inline_guarded(call, glob, loc)
                if inl is not None:
                    mk, fn, fglob, ploc = inl
                    restg = self.seq(rest, k, retk, defcls, glob, loc)
                    self.inline_depth += 1
                    try:
                        return self.seq(strip_doc(fn.body), restg, lambda kind: restg, mk, fglob, ploc)
                    except Unsupported:
                        pass        # fall back to an opaque, possibly transmitting call
                    finally:
                        self.inline_depth -= 1
            tx, nm = self.classify(st, glob)
            if tx:
                self.unsafe_seen.append(nm)
            return ("call", tx, nm, self.seq(rest, k, retk, defcls, glob, loc))
        raise Unsupported("statement %s: %s" % (type(st).__name__, ast.unparse(st).split("\n")[0][:80]))

    def cond(self, test, t, e, restg, glob, loc):
        """if test: t else: e ; then restg   (t, e have HOLEs for falling through)"""
        if harmless(t) and harmless(e):
            # neither branch raises, returns or transmits: behaves as one non-transmitting step
            tx, nm = self.classify(test, glob)
            return ("call", tx, nm if tx else "if " + ast.unparse(test)[:40], restg)
        return self.split(test, plug(t, restg), plug(e, restg), glob, loc)

    def split(self, test, T, E, glob, loc):
        if isinstance(test, ast.BoolOp):
            vals = list(test.values)
            if isinstance(test.op, ast.And):
                g = T
                for v in reversed(vals):
                    g = self.split(v, g, E, glob, loc)
                return g
            g = E
            for v in reversed(vals):
                g = self.split(v, T, g, glob, loc)
            return g
        if isinstance(test, ast.UnaryOp) and isinstance(test.op, ast.Not):
            return self.split(test.operand, E, T, glob, loc)
        try:
            pure = self.pure_atom(test, glob, loc)
        except Unsupported:
            raise
        if pure is not None:
            return ("if", pure, T, E)
        tx, nm = self.classify(test, glob)
        g = ("choice", ast.unparse(test), T, E)
        return ("call", True, nm, g) if tx else g

    @staticmethod
    def mask_dependent(v):
        return isinstance(v, str) or (isinstance(v, tuple) and len(v) > 0 and v[0] in ("I", "B"))

    def pure_atom(self, test, glob, loc):
        """bexpr if the atom depends on the advertised masks only, None if opaque"""
        mentions = any((isinstance(n, ast.Name) and self.mask_dependent(loc.get(n.id))) for n in ast.walk(test))
        has_pred = any(Scope.pred_call(n) for n in ast.walk(test) if isinstance(n, ast.Call))
        has_dom = any(isinstance(n, ast.Call) and ast.unparse(n.func) in ("self.device.has_domain", "self.device.get_domain_commands",
                                                                          "self.device.get_domain_capability") for n in ast.walk(test))
        has_helper = any(isinstance(n, ast.Call) and not self.call_safe(n, glob) and self.scope.helper(n, glob, loc) is not None
                         for n in ast.walk(test))
        if not (mentions or has_pred or has_dom or has_helper):
            return None
        # a predicate called from a constructor / operation is inlined at depth 0 (it may
        # itself call one further predicate); same-module / same-class helpers are inlined
        try:
            return self.scope.bexpr(test, glob, loc, -1)
        except Unsupported:
            if mentions or has_pred or has_dom:
                raise           # depends on the masks but is outside the grammar: fail-closed
            return None         # a helper that reads connector state / arguments: opaque condition


# --------------------------------------------------------------------------------------
# Driver
# --------------------------------------------------------------------------------------

def domain_of(cls):
    """Domain value checked by `self.device.has_domain(Domain.D)` in the constructor chain."""
    for k in cls.__mro__:
        r = own_method(k, "__init__") if "__init__" in k.__dict__ else None
        if r is None:
            continue
        _p, _s, fn = r
        glob = sys.modules[k.__module__].__dict__
        for n in ast.walk(fn):
            if isinstance(n, ast.Call) and ast.unparse(n.func) == "self.device.has_domain" and len(n.args) == 1:
                a = n.args[0]
                if isinstance(a, ast.Attribute) and isinstance(a.value, ast.Name):
                    holder = glob.get(a.value.id)
                    return int(getattr(holder, a.attr)), ast.unparse(a)
    raise Unsupported("no has_domain check found for " + cls.__name__)


_SKIP_METHODS = {"close", "format", "lock", "unlock", "join", "sniff", "wait_packet", "wait_for_message"}


def public_methods(klass):
    """names of the plain public methods defined in klass itself that can be called as a step of a
    sequence: no decorators (properties), no callbacks, no generators, no predicates"""
    _p, _s, cn = class_node(klass)
    out = []
    for m in cn.body:
        if not isinstance(m, ast.FunctionDef) or m.decorator_list or m.name.startswith("_") or m.name.startswith("on_") \
                or m.name.startswith("can_") or m.name.startswith("support_") or m.name.startswith("wait") \
                or m.name in _SKIP_METHODS or m.name in out:
            continue
        if any(isinstance(x, (ast.Yield, ast.YieldFrom, ast.While)) for x in ast.walk(m)):
            continue
        out.append(m.name)
    return out


def state_access(fn):
    """instance attributes (other than the memoisation caches of predicates) read in a condition /
    written by a method: what makes an operation depend on the connector's history"""
    reads, writes = set(), set()
    for n in ast.walk(fn):
        if isinstance(n, (ast.If, ast.IfExp, ast.Assert)):
            for a in ast.walk(n.test):
                if isinstance(a, ast.Attribute) and isinstance(a.value, ast.Name) and a.value.id == "self" \
                        and isinstance(a.ctx, ast.Load) and not isinstance(getattr(a, "_parent_call", None), ast.Call):
                    reads.add(a.attr)
        if isinstance(n, ast.Attribute) and isinstance(n.value, ast.Name) and n.value.id == "self" and isinstance(n.ctx, ast.Store):
            writes.add(n.attr)
    # attributes that are only the callee of a call (self.can_x()) are not state
    for n in ast.walk(fn):
        if isinstance(n, ast.Call) and isinstance(n.func, ast.Attribute) and isinstance(n.func.value, ast.Name) \
                and n.func.value.id == "self":
            reads.discard(n.func.attr)
    for d in ("device", "hub"):
        reads.discard(d)
    return sorted(reads), sorted(writes)


def ident(s):
    return re.sub(r"[^A-Za-z0-9_]", "_", s)


def translate(repo=None, want_ops=()):
    """want_ops: operation ids (domain.Class.method) listed in Spec.v; they are translated even
    when the method no longer contains any guard (so that a dropped guard is seen)."""
    repo = repo or os.environ.get("VERIF_REPO") or None
    out = {"preds": [], "ctors": [], "ops": [], "enums": {}, "domains": {}}
    scopes = {}
    # --- predicates
    for dk, (modname, cname) in BASES.items():
        mod = importlib.import_module(modname)
        cls = getattr(mod, cname)
        dval, dname = domain_of(cls)
        out["domains"][dk] = {"value": dval, "name": dname}
        out["enums"][dk] = {k: int(v) for k, v in vars(mod.Commands).items()
                            if not k.startswith("_") and isinstance(v, int)}
        sc = scopes[dk] = Scope(cls, dval)
        path, src, cn = class_node(cls)
        names = []
        for m in cn.body:
            if isinstance(m, ast.FunctionDef) and (m.name.startswith("can_") or m.name.startswith("support_")) \
                    and m.name not in names:
                names.append(m.name)
        for name in names:
            item = {"id": "%s.%s" % (dk, name), "coq_name": "gen_%s_%s" % (dk, name), "domain": dk, "method": name,
                    "class": cname, "module": modname}
            try:
                k, p, s, fn = resolve_method(cls, name)
                item["tie"] = src_tie(p, fn, repo)
                tree = sc.pred(name, 0)
                item["coq"] = b_coq(tree)
                item["supp"] = b_supp(tree)
            except Unsupported as e:
                item["error"] = str(e)
            out["preds"].append(item)
        # a memoisation attribute must belong to ONE predicate (else one predicate's cache feeds another)
        owners = {}
        for pn, attr in sc.cache_attr.items():
            owners.setdefault(attr, []).append(pn)
        for attr, pns in owners.items():
            if len(pns) > 1:
                for it in out["preds"]:
                    if it["domain"] == dk and it["method"] in pns and "error" not in it:
                        it["error"] = "memoisation attribute %s is shared by predicates %s" % (attr, sorted(pns))
                        it.pop("coq", None)
    cap = importlib.import_module("whad.hub.discovery").Capability
    out["enums"]["Capability"] = {k: int(v) for k, v in vars(cap).items() if not k.startswith("_") and isinstance(v, int)}
    # --- constructors
    for rid, modname, cname, dk in ROLES:
        item = {"id": rid, "coq_name": "ctor_" + ident(rid), "domain": dk, "class": cname, "module": modname}
        try:
            mod = importlib.import_module(modname)
            cls = getattr(mod, cname)
            dval, _ = domain_of(cls)
            sc = Scope(cls, dval)
            k, p, s, fn = resolve_method(cls, "__init__")
            item["tie"] = src_tie(p, fn, repo)
            tr = GuardTr(sc, True)
            g = tr.seq(strip_doc(fn.body), ("done", "ROk"), lambda kind: ("done", "ROk"), k,
                       sys.modules[k.__module__].__dict__, {})
            if g_size(g) > 20000:
                raise Unsupported("guard program too large (%d nodes)" % g_size(g))
            item["coq"] = g_coq(g)
            item["supp"] = g_supp(g)
            item["size"] = g_size(g)
            item["transmitting_calls"] = sorted(set(tr.unsafe_seen))
            a = fn.args
            pos = a.args[1:]
            # steps of operation sequences on this role connector: start/stop and the role's own
            # argument-less public methods that consult a capability predicate
            steps = [n for n in ("start", "stop") if hasattr(cls, n)]
            try:
                _p2, _s2, rcn = class_node(cls)
                for m in rcn.body:
                    if isinstance(m, ast.FunctionDef) and m.name in public_methods(cls) and m.name not in steps \
                            and len(m.args.args) - len(m.args.defaults) == 1 \
                            and any(Scope.pred_call(x) for x in ast.walk(m) if isinstance(x, ast.Call)):
                        steps.append(m.name)
            except Unsupported:
                pass
            item["seq_methods"] = steps
            item["opt_params"] = [x.arg for x in pos[len(pos) - len(a.defaults):]] + \
                [x.arg for x, d in zip(a.kwonlyargs, a.kw_defaults) if d is not None]
        except Unsupported as e:
            item["error"] = str(e)
        except Exception as e:  # import errors etc. are translation failures too
            item["error"] = "%s: %s" % (type(e).__name__, e)
        out["ctors"].append(item)
    # --- operations
    for dk, modname, cname in OP_CLASSES:
        mod = importlib.import_module(modname)
        cls = getattr(mod, cname)
        dval, _ = domain_of(cls)
        path, src, cn = class_node(cls)
        out.setdefault("prefix_methods", {})["%s.%s" % (dk, cname)] = public_methods(cls)
        seen = set()
        wanted = {w.split(".")[2] for w in want_ops if w.split(".")[:2] == [dk, cname]}
        for m in cn.body:
            if not isinstance(m, ast.FunctionDef) or m.name == "__init__" or m.name.startswith("can_") \
                    or m.name.startswith("support_") or m.name in seen:
                continue
            preds = sorted({Scope.pred_call(x) for x in ast.walk(m) if isinstance(x, ast.Call) and Scope.pred_call(x)})
            raises = [x for x in ast.walk(m) if isinstance(x, ast.Raise) and x.exc is not None and "Unsupported" in ast.unparse(x.exc)]
            rawcmds = "get_domain_commands" in ast.unparse(m)
            if not (preds or raises or rawcmds or m.name in wanted):
                continue
            seen.add(m.name)
            k, p, s, fn = resolve_method(cls, m.name)   # last definition wins
            item = {"id": "%s.%s.%s" % (dk, cname, m.name), "coq_name": "op_%s_%s_%s" % (dk, cname, m.name),
                    "domain": dk, "class": cname, "module": modname, "method": m.name, "preds_called": preds,
                    "tie": src_tie(p, fn, repo)}
            item["state_reads"], item["state_writes"] = state_access(fn)
            try:
                sc = Scope(cls, dval)
                tr = GuardTr(sc, False)
                g = tr.seq(strip_doc(fn.body), ("done", "RFalse"), lambda kind: ("done", kind), k,
                           sys.modules[k.__module__].__dict__, {})
                item["coq"] = g_coq(g)
                item["supp"] = g_supp(g)
                item["size"] = g_size(g)
            except Unsupported as e:
                item["error"] = str(e)
            out["ops"].append(item)
    return out


if __name__ == "__main__":
    import json
    r = translate()
    for sec in ("preds", "ctors", "ops"):
        for it in r[sec]:
            print(sec, it["id"], it.get("error") or it["coq"][:150], it.get("supp"))
