"""C02 translator: whad hub schema -> Coq (C02Schema.v) + JSON.

Run under the repository interpreter with PYTHONPATH=<tree under verification>:
    /venv/bin/python -B C02_schema.py  <  {"out_v": path}      ->  last line "RESULT {json}"

By import-time introspection and Python `ast` of the sources it emits
  * the protobuf descriptor tree of whad_pb2.Message,
  * every class reachable from ProtocolHub.VERSIONS (registry chain, name, version) with its kind:
      wrapper (declared PbFields path/kind/optional as bound by PbMessageWrapper.__init__, and the
      sub-messages present after construction with no argument), fixed-content HubMessage,
      domain registry (parse = WhichOneof + bound), oneof switch, value switch; anything else opaque,
  * every Registry VERSIONS table,
  * every create_* factory of the 7 domain accessors of ProtocolHub in a small grammar
    (see `Fac`); a factory outside the grammar is emitted as opaque and counted,
  * three flags read off the AST of ProtocolHub.parse.
Fail-closed: whatever is not recognised becomes COpaque / an opaque factory / an entry in
`errors`; nothing is skipped silently.  Every item carries file, line range and sha256 of its source.
"""
import ast, copy, hashlib, inspect, json, os, sys, textwrap, logging

logging.disable(logging.CRITICAL)

from google.protobuf.descriptor import FieldDescriptor as FD
from whad.protocol.whad_pb2 import Message
from whad.hub import ProtocolHub
from whad.hub.registry import Registry
from whad.hub.message import PbMessageWrapper, HubMessage, PbField, PbFieldInt, PbFieldBytes, \
    PbFieldBool, PbFieldArray, PbFieldMsg

REPO = os.environ.get("VERIF_REPO") or os.path.dirname(os.path.dirname(os.path.dirname(inspect.getsourcefile(ProtocolHub))))
errors = []
ties = []


def tie(obj, what):
    try:
        lines, start = inspect.getsourcelines(obj)
        fn = os.path.relpath(inspect.getsourcefile(obj), REPO)
        src = "".join(lines)
        t = {"what": what, "file": fn, "lines": [start, start + len(lines) - 1],
             "sha256": hashlib.sha256(src.encode()).hexdigest()}
    except Exception as e:  # noqa
        t = {"what": what, "error": repr(e)}
    ties.append(t)
    return t


def cid_of(cls):
    return cls.__module__ + "." + cls.__qualname__


# ---------------------------------------------------------------------------------------------
# 1. protobuf descriptor
# ---------------------------------------------------------------------------------------------
SCALAR = {FD.TYPE_UINT32: "KU32", FD.TYPE_UINT64: "KU64", FD.TYPE_INT32: "KS32", FD.TYPE_INT64: "KS64",
          FD.TYPE_BOOL: "KBool", FD.TYPE_BYTES: "KBytes", FD.TYPE_ENUM: "KEnum"}
messages = {}   # full_name -> list of field dicts
msg_order = []


def walk_desc(d):
    if d.full_name in messages:
        return
    messages[d.full_name] = fl = []
    msg_order.append(d.full_name)
    for f in d.fields:
        if f.type == FD.TYPE_MESSAGE:
            ty = {"msg": f.message_type.full_name}
        elif f.type in SCALAR:
            ty = {"scalar": SCALAR[f.type]}
        else:
            errors.append("descriptor: unsupported field type %d at %s" % (f.type, f.full_name))
            ty = {"scalar": "KUnsupported"}
        fl.append({"name": f.name, "num": f.number, "ty": ty, "pres": bool(f.has_presence),
                   "rep": bool(f.is_repeated), "oneof": f.containing_oneof.name if f.containing_oneof else None})
        if f.type == FD.TYPE_MESSAGE:
            walk_desc(f.message_type)


walk_desc(Message.DESCRIPTOR)
ROOT = Message.DESCRIPTOR.full_name


def resolve(path):
    """field dict at dotted path below the root message, or None"""
    mn, fd = ROOT, None
    for i, node in enumerate(path):
        if mn is None:
            return None
        fd = next((f for f in messages[mn] if f["name"] == node), None)
        if fd is None:
            return None
        mn = fd["ty"].get("msg") if not fd["rep"] else None
    return fd


def abstract(msg, pre=()):
    """protobuf message -> (vals, pres) of the abstract model"""
    vals, pres = [], []
    for f, v in msg.ListFields():
        p = list(pre) + [f.name]
        if f.is_repeated:
            if f.type == FD.TYPE_MESSAGE:
                vals.append([p, {"recs": [[[sf.name, sval(sf, getattr(e, sf.name))] for sf in f.message_type.fields] for e in v]}])
            else:
                vals.append([p, {"list": [sval(f, e) for e in v]}])
        elif f.type == FD.TYPE_MESSAGE:
            pres.append(p)
            v2, p2 = abstract(v, p)
            vals += v2
            pres += p2
        else:
            vals.append([p, {"s": sval(f, v)}])
    return vals, pres


def sval(f, v):
    if f.type == FD.TYPE_BOOL:
        return {"b": bool(v)}
    if f.type == FD.TYPE_BYTES:
        return {"x": bytes(v).hex()}
    return {"i": int(v)}


# ---------------------------------------------------------------------------------------------
# 2. registries and classes
# ---------------------------------------------------------------------------------------------
hub = ProtocolHub(ProtocolHub.LAST_VERSION)
for o in Message.DESCRIPTOR.oneofs_by_name["msg"].fields:
    try:
        hub.load(o.name)
    except Exception as e:  # noqa
        errors.append("hub.load(%r) raised %r" % (o.name, e))
DOMAIN_PROPS = [n for n, v in vars(ProtocolHub).items() if isinstance(v, property) and n != "version"]
for n in DOMAIN_PROPS:
    try:
        getattr(hub, n)
    except Exception as e:  # noqa
        errors.append("hub.%s raised %r" % (n, e))

classes = {}     # cid -> dict(kind=..., ...)
class_objs = {}
regs = []        # dict(reg=cid of registry, name, ver, cls=cid)
seen_tables = {}


def fn_ast(fn):
    src = textwrap.dedent(inspect.getsource(fn))
    tree = ast.parse(src)
    node = tree.body[0]
    body = list(node.body)
    if body and isinstance(body[0], ast.Expr) and isinstance(getattr(body[0], "value", None), ast.Constant) \
            and isinstance(body[0].value.value, str):
        body = body[1:]
    return node, body


def attr_chain(node):
    """Name/Attribute chain -> list of identifiers, else None"""
    out = []
    while isinstance(node, ast.Attribute):
        out.append(node.attr)
        node = node.value
    if isinstance(node, ast.Name):
        out.append(node.id)
        return out[::-1]
    return None


def eval_const(node, glob):
    """Evaluate an expression that mentions no local name; raises on failure."""
    code = compile(ast.Expression(body=node), "<c02>", "eval")
    return eval(code, dict(glob), {})


class NotInlinable(Exception):
    pass


class _Subst(ast.NodeTransformer):
    def __init__(self, mapping):
        self.m = mapping

    def visit_Name(self, n):
        if isinstance(n.ctx, ast.Load) and n.id in self.m:
            return copy.deepcopy(self.m[n.id])
        return n


def _subst(node, mapping):
    return _Subst(mapping).visit(copy.deepcopy(node))


def _terminates(stmts):
    if not stmts:
        return False
    last = stmts[-1]
    if isinstance(last, ast.Return):
        return True
    if isinstance(last, ast.If):
        return _terminates(last.body) and _terminates(last.orelse)
    return False


def _stmts_to_expr(stmts):
    """body of an expression function (local lets, if/else, early returns) -> one expression"""
    if not stmts:
        return ast.Constant(value=None)
    s0, rest = stmts[0], stmts[1:]
    if isinstance(s0, ast.Return):
        return s0.value if s0.value is not None else ast.Constant(value=None)
    if isinstance(s0, ast.If):
        tb = s0.body if _terminates(s0.body) else s0.body + rest
        eb = s0.orelse if (s0.orelse and _terminates(s0.orelse)) else s0.orelse + rest
        return ast.IfExp(test=s0.test, body=_stmts_to_expr(tb), orelse=_stmts_to_expr(eb))
    if isinstance(s0, ast.Assign) and len(s0.targets) == 1 and isinstance(s0.targets[0], ast.Name):
        name = s0.targets[0].id
        if any(isinstance(n, ast.Name) and n.id == name and isinstance(n.ctx, ast.Store) for st in rest for n in ast.walk(st)):
            raise NotInlinable("local rebound")
        return _stmts_to_expr([_subst(st, {name: s0.value}) for st in rest])
    raise NotInlinable("statement " + type(s0).__name__)


def _bind_call(call, names):
    """positional + keyword arguments of a call against parameter names -> {name: expr} or None"""
    if any(isinstance(x, ast.Starred) for x in call.args) or any(k.arg is None for k in call.keywords) or len(call.args) > len(names):
        return None
    m = dict(zip(names, call.args))
    for k in call.keywords:
        if k.arg not in names or k.arg in m:
            return None
        m[k.arg] = k.value
    return m


def analyse_registry_parse(cls):
    """-> CDomain path group reg | COneofSwitch path group cases | COpaque.
    The body is first reduced to ONE expression (`_stmts_to_expr`: single-assignment locals substituted, if/else and
    early returns -> conditional expression, falling off the end -> None), so temporaries inlined or introduced,
    renamed locals and early-return forms give the same result; then matched:
      domain : R.bound(<message>.<path>.WhichOneof(G), <version>).parse(<version>, <message>)
      switch : A.parse(<version>, <message>) if <message>.<path>.WhichOneof(G) == 'a' else (... else None)"""
    fn = inspect.getattr_static(cls, "parse", None)
    for k in cls.__mro__:
        if "parse" in k.__dict__:
            fn = k.__dict__["parse"]
            break
    if fn is None:
        return {"kind": "COpaque", "why": "registry without parse"}
    if not isinstance(fn, staticmethod):
        return {"kind": "COpaque", "why": "registry parse is not a staticmethod"}
    f = fn.__func__
    tie(f, "parse of " + cid_of(cls))
    node, body = fn_ast(f)
    argn = [a.arg for a in node.args.args]
    if len(argn) != 2 or node.args.vararg or node.args.kwarg or node.args.kwonlyargs:
        return {"kind": "COpaque", "why": "parse arity"}
    vname, mname = argn
    glob = f.__globals__
    try:
        e = _stmts_to_expr(copy.deepcopy(body))
    except NotInlinable as ex:
        return {"kind": "COpaque", "why": "registry parse outside the grammar (%s)" % ex}

    def is_name(x, n):
        return isinstance(x, ast.Name) and x.id == n

    def which_oneof(x):
        """<message>.<path>.WhichOneof('g') -> (path, g)"""
        if isinstance(x, ast.Call) and isinstance(x.func, ast.Attribute) and x.func.attr == "WhichOneof" and not x.keywords \
                and len(x.args) == 1 and isinstance(x.args[0], ast.Constant) and isinstance(x.args[0].value, str):
            chain = attr_chain(x.func.value)
            if chain and chain[0] == mname:
                return chain[1:], x.args[0].value
        return None

    def parse_call(x):
        """T.parse(<version>, <message>) (positional: the callee is only known at run time) -> T expression"""
        if isinstance(x, ast.Call) and isinstance(x.func, ast.Attribute) and x.func.attr == "parse" and not x.keywords \
                and len(x.args) == 2 and is_name(x.args[0], vname) and is_name(x.args[1], mname):
            return x.func.value
        return None

    # domain dispatch
    t = parse_call(e)
    if t is not None and isinstance(t, ast.Call) and isinstance(t.func, ast.Attribute) and t.func.attr == "bound":
        m = _bind_call(t, ["name", "version"])
        wo = which_oneof(m["name"]) if m and "name" in m and "version" in m else None
        if wo and is_name(m["version"], vname):
            try:
                regcls = eval_const(t.func.value, glob)
            except Exception:  # noqa
                regcls = None
            if inspect.isclass(regcls) and issubclass(regcls, Registry):
                return {"kind": "CDomain", "path": wo[0], "group": wo[1], "reg": cid_of(regcls)}
        return {"kind": "COpaque", "why": "registry parse outside the grammar"}
    # oneof switch
    cases, wo0, cur = [], None, e
    try:
        while True:
            if isinstance(cur, ast.Constant) and cur.value is None:
                break
            assert isinstance(cur, ast.IfExp) and isinstance(cur.test, ast.Compare) and len(cur.test.ops) == 1 \
                and isinstance(cur.test.ops[0], ast.Eq)
            l, r = cur.test.left, cur.test.comparators[0]
            if isinstance(l, ast.Constant):
                l, r = r, l
            wo = which_oneof(l)
            assert wo and isinstance(r, ast.Constant) and isinstance(r.value, str) and wo0 in (None, wo)
            wo0 = wo
            tgt = parse_call(cur.body)
            assert tgt is not None
            target = eval_const(tgt, glob)
            assert inspect.isclass(target)
            cases.append([r.value, cid_of(target)])
            note_class(target)
            cur = cur.orelse
        assert cases and len({c[0] for c in cases}) == len(cases)
        return {"kind": "COneofSwitch", "path": wo0[0], "group": wo0[1], "cases": cases}
    except Exception:  # noqa
        pass
    return {"kind": "COpaque", "why": "registry parse outside the grammar"}


def analyse_value_switch(cls, f):
    """CommandResult.parse: R.bound('n', version)(message=msg) if msg.<p> == C else (... else None), after reduction of
    the body to one expression (if/elif chain, early returns, temporaries)"""
    node, body = fn_ast(f)
    argn = [a.arg for a in node.args.args]
    if len(argn) != 2:
        return {"kind": "COpaque", "why": "parse arity"}
    vname, mname = argn
    glob = f.__globals__
    try:
        cur = _stmts_to_expr(copy.deepcopy(body))
        cases, path = [], None
        while not (isinstance(cur, ast.Constant) and cur.value is None):
            assert isinstance(cur, ast.IfExp) and isinstance(cur.test, ast.Compare) and len(cur.test.ops) == 1 \
                and isinstance(cur.test.ops[0], ast.Eq)
            chain = attr_chain(cur.test.left)
            assert chain and chain[0] == mname and path in (None, chain[1:])
            path = chain[1:]
            const = int(eval_const(cur.test.comparators[0], glob))
            r = cur.body
            assert isinstance(r, ast.Call) and isinstance(r.func, ast.Call) and isinstance(r.func.func, ast.Attribute) and r.func.func.attr == "bound"
            m = _bind_call(r, ["message"])
            assert m and isinstance(m.get("message"), ast.Name) and m["message"].id == mname
            b = _bind_call(r.func, ["name", "version"])
            assert b and isinstance(b.get("name"), ast.Constant) and isinstance(b["name"].value, str) \
                and isinstance(b.get("version"), ast.Name) and b["version"].id == vname
            regcls = eval_const(r.func.func.value, glob)
            assert inspect.isclass(regcls)
            cases.append([const, cid_of(regcls), b["name"].value])
            cur = cur.orelse
        assert cases and len({c[0] for c in cases}) == len(cases)
        fd = resolve(path)
        assert fd is not None and "scalar" in fd["ty"] and not fd["rep"]
        return {"kind": "CValueSwitch", "path": path, "cases": cases}
    except Exception:  # noqa
        return {"kind": "COpaque", "why": "value-switch parse outside the grammar"}


PBK = [(PbFieldMsg, "PMsg"), (PbFieldArray, "PArray"), (PbFieldBool, "PBool"), (PbFieldBytes, "PBytes"), (PbFieldInt, "PInt")]


def analyse_wrapper(cls):
    for meth in ("serialize", "__getattribute__", "__setattr__", "set_field_value", "get_field_value", "message"):
        for k in cls.__mro__:
            if k in (PbMessageWrapper, HubMessage, object):
                break
            if meth in k.__dict__:
                return {"kind": "COpaque", "why": "wrapper overrides " + meth}
    pf = inspect.getattr_static(cls, "parse")
    if not (isinstance(pf, classmethod) and pf.__func__ is PbMessageWrapper.__dict__["parse"].__func__):
        return {"kind": "COpaque", "why": "wrapper overrides parse"}
    try:
        obj = cls()
    except Exception as e:  # noqa
        return {"kind": "COpaque", "why": "constructor with no argument raised " + type(e).__name__}
    fields = object.__getattribute__(obj, "_PbMessageWrapper__pb_fields")
    attrs = []
    for name in sorted(fields):
        f = fields[name]
        kind = next((k for c, k in PBK if isinstance(f, c)), None)
        if kind is None:
            kind = {int: "PInt", bytes: "PBytes", bool: "PBool", list: "PArray"}.get(f.type, "POther")
        attrs.append({"name": name, "path": f.path.split("."), "kind": kind, "opt": bool(f.is_optional())})
    vals, pres = abstract(obj.message)
    if vals:
        return {"kind": "COpaque", "why": "constructor with no argument sets values"}
    init_mro = [k for k in cls.__mro__ if "__init__" in k.__dict__][0]
    if init_mro is not PbMessageWrapper:
        tie(init_mro.__dict__["__init__"], "__init__ of " + cid_of(cls))
    return {"kind": "CWrap", "attrs": attrs, "selects": pres}


def analyse_hubmessage(cls):
    """non-wrapper HubMessage subclass: fixed content (what cls().serialize() holds) or value switch"""
    if "parse" in cls.__dict__ and isinstance(cls.__dict__["parse"], staticmethod):
        tie(cls.__dict__["parse"].__func__, "parse of " + cid_of(cls))
        return analyse_value_switch(cls, cls.__dict__["parse"].__func__)
    try:
        obj = cls()
        m = Message()
        m.ParseFromString(obj.serialize())
        vals, pres = abstract(m)
        vals2, pres2 = abstract(Message.FromString(cls().serialize()))
        assert (vals, pres) == (vals2, pres2)
    except Exception as e:  # noqa
        return {"kind": "COpaque", "why": "fixed-content probe raised " + type(e).__name__}
    # content written at serialize time may be a default (dropped on the wire): probe the live message too
    lvals, lpres = abstract(obj.message)
    tie(cls, "class " + cid_of(cls))
    return {"kind": "CFixed", "vals": lvals, "pres": lpres}


def note_class(cls):
    cid = cid_of(cls)
    if cid in classes:
        return cid
    classes[cid] = {"kind": "pending"}
    class_objs[cid] = cls
    if issubclass(cls, Registry):
        info = analyse_registry_parse(cls)
    elif issubclass(cls, PbMessageWrapper):
        info = analyse_wrapper(cls)
    elif issubclass(cls, HubMessage):
        info = analyse_hubmessage(cls)
    else:
        info = {"kind": "COpaque", "why": "neither Registry nor HubMessage"}
    info["cid"] = cid
    classes[cid] = info
    if issubclass(cls, Registry):
        walk_registry(cls)
    return cid


def walk_registry(reg):
    rid = cid_of(reg)
    tbl = reg.VERSIONS
    if id(tbl) in seen_tables:
        if seen_tables[id(tbl)] != rid and tbl:
            errors.append("registries %s and %s share one VERSIONS table" % (seen_tables[id(tbl)], rid))
        return
    seen_tables[id(tbl)] = rid
    for ver in sorted(tbl):
        if not isinstance(ver, int) or ver < 0:
            errors.append("registry %s: version key %r" % (rid, ver))
            continue
        for name, cls in tbl[ver].items():
            regs.append({"reg": rid, "name": str(name), "ver": ver, "cls": note_class(cls)})


HUB_ID = note_class(ProtocolHub) if False else cid_of(ProtocolHub)
class_objs[HUB_ID] = ProtocolHub
walk_registry(ProtocolHub)

# ---------------------------------------------------------------------------------------------
# 3. ProtocolHub.parse flags
# ---------------------------------------------------------------------------------------------
# ProtocolHub.parse is executed SYMBOLICALLY, path by path (same-module helpers are entered, single-assignment locals
# are just bindings, `logger.x(...)` and cache bookkeeping are skipped): every place where DecodeError
# (ParseFromString) or UnsupportedVersionException (bound / .parse) can be raised is followed to the handler that
# catches it, and every path is followed to its return value.  The three flags are statements about those paths,
# and the no-exception path must return  HUB.bound(<decoded>.WhichOneof('msg'), V).parse(V, <decoded>).
flags = {"decode_caught": False, "none_guard": False, "unsupported_caught": False}


class _HubParseError(Exception):
    pass


def analyse_hub_parse(fn):
    glob = fn.__globals__
    node, body = fn_ast(fn)
    pn = [a.arg for a in node.args.args]
    if len(pn) != 2:
        raise _HubParseError("signature")
    outcomes = []      # dicts: kind return/raise, value, raised: [(exc, site)], assume: {wo: None/NotNone}, events: [...]
    budget = [4000]

    def is_none_sym(v):
        return v == ("const", None)

    def nonnull(v):
        return v[0] in ("new", "decoded", "bound", "parse") or (v[0] == "const" and v[1] is not None)

    def raise_exc(exc, st, handlers):
        """control goes to the innermost handler catching `exc` (list of (names, body, env_at_try, k_after, outer))"""
        for i in range(len(handlers) - 1, -1, -1):
            names, hbody, k_after, ret = handlers[i]
            if exc in names or "Exception" in names or "BaseException" in names or None in names:
                st2 = dict(st, raised=st["raised"] + [exc])
                return block(hbody, st2, handlers[:i], k_after, ret)
        outcomes.append(dict(st, kind="raise", value=exc, raised=st["raised"] + [exc]))

    def ev(e, st, handlers, k):
        """evaluate expression e; k(value, st)"""
        budget[0] -= 1
        if budget[0] < 0:
            raise _HubParseError("too many paths")
        env = st["env"]
        if isinstance(e, ast.Constant):
            return k(("const", e.value), st)
        if isinstance(e, ast.Name):
            return k(env.get(e.id, ("glob", e.id)), st)
        if isinstance(e, ast.Attribute):
            return ev(e.value, st, handlers, lambda b, s2: k(("attr", b, e.attr), s2))
        if isinstance(e, ast.Call):
            f = e.func
            def with_args(args_done, rest, s2, kk):
                if not rest:
                    return kk(args_done, s2)
                return ev(rest[0], s2, handlers, lambda v, s3: with_args(args_done + [v], rest[1:], s3, kk))
            if e.keywords:
                kwn = [kw.arg for kw in e.keywords]
            else:
                kwn = []
            argexprs = list(e.args) + [kw.value for kw in e.keywords]
            if isinstance(f, ast.Attribute) and f.attr in ("WhichOneof", "bound", "parse", "ParseFromString"):
                def on_base(bv, s2):
                    def on_args(av, s3):
                        if kwn and f.attr != "bound":
                            raise _HubParseError("keyword arguments of ." + f.attr)
                        if f.attr == "WhichOneof":
                            return k(("wo", bv, tuple(av)), s3)
                        if f.attr == "ParseFromString":
                            raise _HubParseError("ParseFromString used as a value")
                        if f.attr == "bound":
                            m = dict(zip(["name", "version"], av[:len(e.args)]))
                            m.update(zip(kwn, av[len(e.args):]))
                            val = ("bound", bv, m.get("name"), m.get("version"))
                        else:
                            val = ("parse", bv, tuple(av))
                        s4 = dict(s3, events=s3["events"] + [f.attr])
                        raise_exc("UnsupportedVersionException", s4, handlers)      # the path where it raises
                        return k(val, s4)                                              # and the one where it does not
                    return with_args([], argexprs, s2, on_args)
                return ev(f.value, st, handlers, on_base)
            if isinstance(f, ast.Name):
                tgt = glob.get(f.id)
                if f.id not in env and tgt is Message and not argexprs:
                    return k(("new", "Message"), st)
                if f.id not in env and inspect.isfunction(tgt) and tgt.__globals__ is glob and not kwn:
                    hnode, hbody = fn_ast(tgt)
                    hp = [a.arg for a in hnode.args.args]
                    if len(hp) != len(argexprs) or hnode.args.vararg or hnode.args.kwarg:
                        raise _HubParseError("helper arity " + f.id)
                    tie(tgt, "helper %s entered from ProtocolHub.parse" % f.id)
                    def enter(av, s2):
                        inner = dict(s2, env=dict(zip(hp, av)))
                        return block(hbody, inner, handlers, lambda s3: k(("const", None), dict(s3, env=s2["env"])),
                                     lambda v, s3: k(v, dict(s3, env=s2["env"])))
                    return with_args([], argexprs, st, enter)
            return with_args([], argexprs, st, lambda av, s2: k(("call", ast.unparse(f), tuple(av)), s2))
        if isinstance(e, ast.Compare) and len(e.ops) == 1:
            return ev(e.left, st, handlers, lambda l, s2: ev(e.comparators[0], s2, handlers,
                      lambda r, s3: k(("cmp", type(e.ops[0]).__name__, l, r), s3)))
        if isinstance(e, ast.UnaryOp) and isinstance(e.op, ast.Not):
            return ev(e.operand, st, handlers, lambda v, s2: k(("not", v), s2))
        return k(("opaque", ast.unparse(e)), st)

    def truth(v, st):
        """-> [(bool, st')] possible truth values of a test"""
        if v[0] == "not":
            return [(not b, s2) for b, s2 in truth(v[1], st)]
        if v[0] == "call" and v[1] == "isinstance" and len(v[2]) == 2:
            if v[2][0] == ("param", pn[1]):
                return [(v[2][1] == ("glob", "bytes"), st)]        # the property is about byte strings
        if v[0] == "cmp" and v[1] in ("Is", "IsNot") and is_none_sym(v[3]):
            x = v[2]
            if is_none_sym(x):
                return [(v[1] == "Is", st)]
            if nonnull(x):
                return [(v[1] != "Is", st)]
            if x[0] == "wo":
                known = st["assume"].get(x)
                opts = [known] if known else ["none", "some"]
                return [(((o == "none") == (v[1] == "Is")), dict(st, assume={**st["assume"], x: o})) for o in opts]
        return [(True, st), (False, st)]

    def block(stmts, st, handlers, k, ret):
        """execute statements; k(st) at the end, ret(value, st) on return"""
        if not stmts:
            return k(st)
        s0, rest = stmts[0], stmts[1:]
        nxt = lambda s2: block(rest, s2, handlers, k, ret)
        if isinstance(s0, ast.Return):
            if s0.value is None:
                return ret(("const", None), st)
            return ev(s0.value, st, handlers, ret)
        if isinstance(s0, ast.Assign) and len(s0.targets) == 1 and isinstance(s0.targets[0], ast.Name):
            name = s0.targets[0].id
            return ev(s0.value, st, handlers, lambda v, s2: nxt(dict(s2, env={**s2["env"], name: v})))
        if isinstance(s0, ast.Expr) and isinstance(s0.value, ast.Call) and isinstance(s0.value.func, ast.Attribute) \
                and s0.value.func.attr == "ParseFromString" and isinstance(s0.value.func.value, ast.Name) and len(s0.value.args) == 1:
            recv = s0.value.func.value.id
            if st["env"].get(recv) != ("new", "Message"):
                raise _HubParseError("ParseFromString on something that is not a fresh Message()")
            def after(av, s2):
                s3 = dict(s2, events=s2["events"] + ["ParseFromString"])
                raise_exc("DecodeError", s3, handlers)
                return nxt(dict(s3, env={**s3["env"], recv: ("decoded", av)}))
            return ev(s0.value.args[0], st, handlers, after)
        if isinstance(s0, ast.If):
            def on_test(v, s2):
                for b, s3 in truth(v, s2):
                    block((s0.body if b else s0.orelse) + rest, s3, handlers, k, ret)
            return ev(s0.test, st, handlers, on_test)
        if isinstance(s0, ast.Try) and not s0.finalbody and not s0.orelse:
            hs = list(handlers)
            for h in reversed(s0.handlers):
                t = h.type
                names = [None] if t is None else [(attr_chain(x) or [None])[-1] for x in (t.elts if isinstance(t, ast.Tuple) else [t])]
                hs.append((names, h.body, nxt, ret))
            # handlers of one try are alternatives: innermost-first search finds the first matching one
            return block(s0.body, st, hs, nxt, ret)
        if isinstance(s0, ast.Raise):
            outcomes.append(dict(st, kind="raise", value=(st["raised"] or ["?"])[-1] if s0.exc is None else ast.unparse(s0.exc)))
            return None
        # anything else (logging, cache bookkeeping) must not touch the dispatch
        for n in ast.walk(s0):
            if isinstance(n, ast.Attribute) and n.attr in ("bound", "parse", "ParseFromString", "WhichOneof"):
                raise _HubParseError("dispatch call in an unrecognised statement: " + ast.unparse(s0)[:80])
            if isinstance(n, (ast.Return, ast.Raise)):
                raise _HubParseError("control flow in an unrecognised statement")
        return nxt(st)

    st0 = {"env": {pn[0]: ("param", pn[0]), pn[1]: ("param", pn[1])}, "raised": [], "assume": {}, "events": []}
    block(body, st0, [], lambda st: outcomes.append(dict(st, kind="return", value=("const", None))),
          lambda v, st: outcomes.append(dict(st, kind="return", value=v)))
    returns_none = lambda o: o["kind"] == "return" and o["value"] == ("const", None)
    dec = [o for o in outcomes if "DecodeError" in o["raised"]]
    uns = [o for o in outcomes if "UnsupportedVersionException" in o["raised"]]
    wnone = [o for o in outcomes if "none" in o["assume"].values() and not o["raised"]]
    res = {"decode_caught": bool(dec) and all(returns_none(o) for o in dec),
           "unsupported_caught": bool(uns) and all(returns_none(o) for o in uns),
           "none_guard": bool(wnone) and all(returns_none(o) and "bound" not in o["events"] for o in wnone)}
    # the normal path
    ok = [o for o in outcomes if not o["raised"] and "none" not in o["assume"].values() and o["kind"] == "return" and "parse" in o["events"]]
    if not ok:
        raise _HubParseError("no path reaches the dispatch")
    for o in ok:
        v = o["value"]
        good = False
        if v[0] == "parse" and v[1][0] == "bound" and len(v[2]) == 2:
            _b, reg, name, ver = v[1]
            msg = v[2][1]
            good = (reg == ("glob", ProtocolHub.__name__) and glob.get(ProtocolHub.__name__) is ProtocolHub
                    and msg[0] == "decoded" and msg[1] in (("param", pn[1]), ("call", "bytes", (("param", pn[1]),)))
                    and name == ("wo", msg, (("const", "msg"),)) and ver == v[2][0]
                    and ver is not None and ver[0] == "attr" and ver[1] == ("param", pn[0]) and "version" in ver[2])
        if not good:
            raise _HubParseError("the dispatch is not HUB.bound(<decoded>.WhichOneof('msg'), V).parse(V, <decoded>): %r" % (v,))
    return res


try:
    tie(ProtocolHub.parse, "ProtocolHub.parse")
    tie(Registry.bound.__func__, "Registry.bound")
    tie(PbMessageWrapper.__init__, "PbMessageWrapper.__init__")
    tie(HubMessage.set_field_value, "HubMessage.set_field_value")
    tie(HubMessage.get_field_value, "HubMessage.get_field_value")
    tie(PbMessageWrapper.__setattr__, "PbMessageWrapper.__setattr__")
    tie(PbMessageWrapper.__getattribute__, "PbMessageWrapper.__getattribute__")
    flags.update(analyse_hub_parse(ProtocolHub.parse))
except _HubParseError as e:
    errors.append("ProtocolHub.parse outside the grammar: %s" % (e,))
except Exception as e:  # noqa
    errors.append("ProtocolHub.parse analysis failed: %r" % (e,))

# ---------------------------------------------------------------------------------------------
# 4. factories
# ---------------------------------------------------------------------------------------------
# Grammar (Fac):
#   body    := pre* ( return CALL | local = CALL ; post* ; return local )
#   pre     := if P is not None: t = P  else: t = CONST            (alias with default)
#   CALL    := R.bound('name', self.proto_version)(kw=EXPR, ...)
#   post    := local.attr = EXPR | if P is not None: post+ | if P: local.a = C1 else: local.a = C2
#            | for x in P: local.attr.append(x) | for x[, y] in P: local.meth(x[, y])   (meth: r = <recv>.add(); r.f = x ...)
#   EXPR    := P | CONST | P.attr | P.meth() | f(P) with f in bytes,int,bool,list | K(P).attr (helper constructor)
#            | C1 if P[.meth()] else C2 | t.attr (alias)
# A parameter value is seen by the model only through the projections used ("": itself, ".a", ".m()", "f()", "K().a").
#
# Before recognition the body is NORMALISED (`normalise_factory`), so that harmless refactorings give the same factory:
#   * calls of module-level functions of the factory's own module and of private (_x / __x) methods of its class are
#     inlined, transitively (depth <= 4), when the callee is an "expression function" (if/else and early returns only:
#     becomes a conditional expression) or, for `[return] self._h(msg, ...)`, a "statement helper" whose body acts on
#     its first parameter and returns it;
#   * `if C: t = A else: t = B` becomes `t = A if C else B`; a local bound once to an expression is substituted into its
#     uses (the message local, bound to the bound(...)(...) call, is kept);
#   * `if C: return msg` followed by statements becomes `if not C: statements` (early return vs if/else);
#   * a bare module-level name used as a constant must be assigned exactly once in its module.
#   * `for <targets> in <literal tuple/list [of literal tuples]>` (also a local bound once to it, or a module-level
#     constant tuple assigned once) is unrolled, the targets substituted per element; `setattr(x, "lit", v)` is
#     `x.lit = v` and `getattr(x, "lit")` is `x.lit`.
# Nothing is guessed: whatever does not normalise stays as it is and then fails recognition (opaque factory).
class Opaque(Exception):
    pass


# (annotation of the parameter, projection read by the factory) -> (operator of C02/Model.v, key of the raw argument data)
CONVERSIONS = {("ChannelMap", ".value"): ("chanmap_bytes", "channels"),
               ("<list>", "ChannelMap().value"): ("chanmap_bytes", ""),
               ("BDAddress", ".value"): ("bdaddr_bytes", "display"),
               ("<list>", "bytes()"): ("bytes_of_ints", "")}


def jval(v):
    """python constant -> json value of the model"""
    if isinstance(v, bool):
        return {"s": {"b": v}}
    if isinstance(v, int):
        return {"s": {"i": int(v)}}
    if isinstance(v, (bytes, bytearray)):
        return {"s": {"x": bytes(v).hex()}}
    if isinstance(v, (list, tuple)) and all(isinstance(e, int) and not isinstance(e, bool) for e in v):
        return {"list": [{"i": int(e)} for e in v]}
    raise Opaque("constant %r" % (v,))


def names_in(node):
    return {n.id for n in ast.walk(node) if isinstance(n, ast.Name)}


def _resolve_callee(call, glob, regcls):
    """function object called, if it is a module-level function of the factory's module or a private method of its class"""
    f = call.func
    if isinstance(f, ast.Name):
        obj = glob.get(f.id)
        if inspect.isfunction(obj) and obj.__globals__ is glob and not f.id.startswith("create_"):
            return obj, False
    if isinstance(f, ast.Attribute) and isinstance(f.value, ast.Name) and f.value.id == "self" and f.attr.startswith("_") \
            and not f.attr.endswith("__"):
        for k in regcls.__mro__:
            for nm in (f.attr, "_%s%s" % (k.__name__.lstrip("_"), f.attr)):
                obj = k.__dict__.get(nm)
                if inspect.isfunction(obj) and obj.__globals__ is glob:
                    return obj, True
    return None, False


def _bind_args(callee, is_method, call):
    node, body = fn_ast(callee)
    a = node.args
    if a.vararg or a.kwarg or a.kwonlyargs or a.posonlyargs or any(isinstance(x, ast.Starred) for x in call.args) \
            or any(k.arg is None for k in call.keywords):
        raise NotInlinable("signature")
    names = [x.arg for x in a.args][1 if is_method else 0:]
    if len(call.args) > len(names):
        raise NotInlinable("arity")
    m = dict(zip(names, call.args))
    for k in call.keywords:
        if k.arg not in names or k.arg in m:
            raise NotInlinable("keyword")
        m[k.arg] = k.value
    defaults = dict(zip([x.arg for x in a.args][len(a.args) - len(a.defaults):], a.defaults))
    for n in names:
        if n not in m:
            if n not in defaults:
                raise NotInlinable("missing argument")
            m[n] = defaults[n]
    stored = {n.id for st in body for n in ast.walk(st) if isinstance(n, ast.Name) and isinstance(n.ctx, ast.Store)}
    if stored & set(names):
        raise NotInlinable("parameter rebound")
    return names, m, body, stored


class _InlineExprCalls(ast.NodeTransformer):
    """replace calls of expression functions by their (substituted) body, transitively"""
    def __init__(self, glob, regcls, used, depth=0):
        self.glob, self.regcls, self.used, self.depth = glob, regcls, used, depth

    def visit_Call(self, call):
        self.generic_visit(call)
        callee, is_method = _resolve_callee(call, self.glob, self.regcls)
        if callee is None or self.depth >= 4:
            return call
        try:
            names, m, body, _stored = _bind_args(callee, is_method, call)
            e = _stmts_to_expr(copy.deepcopy(body))
        except NotInlinable:
            return call
        e = _subst(e, m)
        self.used.append(callee)
        return _InlineExprCalls(self.glob, self.regcls, self.used, self.depth + 1).visit(e)


def _negate(test):
    if isinstance(test, ast.Compare) and len(test.ops) == 1 and isinstance(test.ops[0], (ast.Is, ast.IsNot)):
        return ast.Compare(left=test.left, ops=[ast.IsNot() if isinstance(test.ops[0], ast.Is) else ast.Is()], comparators=test.comparators)
    if isinstance(test, ast.UnaryOp) and isinstance(test.op, ast.Not):
        return test.operand
    return ast.UnaryOp(op=ast.Not(), operand=test)


def _is_bound_call(c):
    return isinstance(c, ast.Call) and isinstance(c.func, ast.Call) and isinstance(c.func.func, ast.Attribute) and c.func.func.attr == "bound"


def normalise_factory(body, glob, regcls, pnames, used):
    body = copy.deepcopy(body)
    # (1) statement helpers:  [return] self._h(msg, ...)  /  msg = self._h(msg, ...)
    for _round in range(4):
        out, changed = [], False
        for st in body:
            call, ret = None, False
            if isinstance(st, ast.Return) and isinstance(st.value, ast.Call):
                call, ret = st.value, True
            elif isinstance(st, ast.Expr) and isinstance(st.value, ast.Call):
                call = st.value
            elif isinstance(st, ast.Assign) and len(st.targets) == 1 and isinstance(st.targets[0], ast.Name) and isinstance(st.value, ast.Call) \
                    and st.value.args and isinstance(st.value.args[0], ast.Name) and st.value.args[0].id == st.targets[0].id:
                call = st.value
            callee = None
            if call is not None and not _is_bound_call(call) and call.args and isinstance(call.args[0], ast.Name) and call.args[0].id not in pnames:
                callee, is_method = _resolve_callee(call, glob, regcls)
            if callee is not None:
                try:
                    names, m, hbody, stored = _bind_args(callee, is_method, call)
                    try:
                        _stmts_to_expr(copy.deepcopy(hbody))
                        is_expr = True
                    except NotInlinable:
                        is_expr = False
                    hb = list(hbody)
                    if hb and isinstance(hb[-1], ast.Return):
                        if not (isinstance(hb[-1].value, ast.Name) and hb[-1].value.id == names[0]):
                            raise NotInlinable("helper does not return its first parameter")
                        hb = hb[:-1]
                    elif ret:
                        raise NotInlinable("helper returns nothing")
                    if is_expr or any(isinstance(n, ast.Return) for s_ in hb for n in ast.walk(s_)) or (stored & (set(pnames) | {call.args[0].id})):
                        raise NotInlinable("not a statement helper")
                    out += [_subst(s_, m) for s_ in hb]
                    if ret:
                        out.append(ast.Return(value=ast.Name(id=call.args[0].id, ctx=ast.Load())))
                    used.append(callee)
                    changed = True
                    continue
                except NotInlinable:
                    pass
            out.append(st)
        body = out
        if not changed:
            break
    # (2) expression helpers, everywhere
    tr = _InlineExprCalls(glob, regcls, used)
    body = [tr.visit(st) for st in body]
    # (3) if C: t = A else: t = B   ->   t = A if C else B
    out = []
    for st in body:
        if isinstance(st, ast.If) and len(st.body) == 1 and len(st.orelse) == 1 and all(
                isinstance(x, ast.Assign) and len(x.targets) == 1 and isinstance(x.targets[0], ast.Name) for x in (st.body[0], st.orelse[0])) \
                and st.body[0].targets[0].id == st.orelse[0].targets[0].id:
            out.append(ast.Assign(targets=[ast.Name(id=st.body[0].targets[0].id, ctx=ast.Store())],
                                  value=ast.IfExp(test=st.test, body=st.body[0].value, orelse=st.orelse[0].value)))
        else:
            out.append(st)
    body = out
    # (4) if C: return msg ; rest...   ->   if not C: rest (without its final return) ; return msg
    for _round in range(6):
        for i, st in enumerate(body):
            if isinstance(st, ast.If) and not st.orelse and len(st.body) == 1 and isinstance(st.body[0], ast.Return) \
                    and isinstance(st.body[0].value, ast.Name) and i + 1 < len(body) and isinstance(body[-1], ast.Return) \
                    and isinstance(body[-1].value, ast.Name) and body[-1].value.id == st.body[0].value.id:
                inner = body[i + 1:-1]
                body = body[:i] + ([ast.If(test=_negate(st.test), body=inner, orelse=[])] if inner else []) + [body[-1]]
                break
        else:
            break
    # (5) a local bound once to an expression (not the message) is substituted into its uses
    out, lets = [], {}
    for i, st in enumerate(body):
        st = _subst(st, lets) if lets else st
        if isinstance(st, ast.Assign) and len(st.targets) == 1 and isinstance(st.targets[0], ast.Name) and not _is_bound_call(st.value) \
                and st.targets[0].id not in pnames:
            name = st.targets[0].id
            later = [n for s2 in body[i + 1:] for n in ast.walk(s2) if isinstance(n, ast.Name) and n.id == name and isinstance(n.ctx, ast.Store)]
            if not later and name not in lets:
                lets[name] = st.value
                continue
        out.append(st)
    # (6) for <targets> in <literal tuple/list [of literal tuples]>  ->  the body once per element, targets substituted;
    #     the sequence may be a local bound once (substituted above) or a module-level constant assigned once;
    #     setattr(x, "lit", v) == x.lit = v ; getattr(x, "lit") == x.lit
    out = _DynAttr().visit_list(_unroll(out, glob, set(pnames)))
    for st in out:
        ast.fix_missing_locations(st)
    return out


class _DynAttr(ast.NodeTransformer):
    def visit_list(self, stmts):
        return [self.visit(st) for st in stmts]

    def visit_Expr(self, node):
        self.generic_visit(node)
        c = node.value
        if isinstance(c, ast.Call) and isinstance(c.func, ast.Name) and c.func.id == "setattr" and len(c.args) == 3 and not c.keywords \
                and isinstance(c.args[1], ast.Constant) and isinstance(c.args[1].value, str) and c.args[1].value.isidentifier():
            return ast.Assign(targets=[ast.Attribute(value=c.args[0], attr=c.args[1].value, ctx=ast.Store())], value=c.args[2])
        return node

    def visit_Call(self, c):
        self.generic_visit(c)
        if isinstance(c.func, ast.Name) and c.func.id == "getattr" and len(c.args) == 2 and not c.keywords \
                and isinstance(c.args[1], ast.Constant) and isinstance(c.args[1].value, str) and c.args[1].value.isidentifier():
            return ast.Attribute(value=c.args[0], attr=c.args[1].value, ctx=ast.Load())
        return c


def _literal_sequence(it, glob, local_names):
    """elements (AST) of a literal tuple/list, or of a module-level constant tuple/list assigned once; else None"""
    if isinstance(it, (ast.Tuple, ast.List)):
        return list(it.elts)
    if isinstance(it, ast.Name) and it.id not in local_names and it.id in glob and isinstance(glob[it.id], (tuple, list)):
        try:
            check_module_constants(it, glob, local_names)
            lit = ast.parse(repr(glob[it.id]), mode="eval").body
            ast.literal_eval(lit)
        except Exception:  # noqa
            return None
        return list(lit.elts)
    return None


def _unroll(stmts, glob, local_names):
    out = []
    for st in stmts:
        if isinstance(st, ast.If):
            st = ast.If(test=st.test, body=_unroll(st.body, glob, local_names), orelse=_unroll(st.orelse, glob, local_names))
        if isinstance(st, ast.For) and not st.orelse:
            elts = _literal_sequence(st.iter, glob, local_names)
            tg = [st.target.id] if isinstance(st.target, ast.Name) else \
                [e.id for e in st.target.elts] if isinstance(st.target, ast.Tuple) and all(isinstance(e, ast.Name) for e in st.target.elts) else None
            stored = {n.id for b in st.body for n in ast.walk(b) if isinstance(n, ast.Name) and isinstance(n.ctx, ast.Store)}
            if elts is not None and tg is not None and len(elts) <= 64 and not (stored & set(tg)) \
                    and not any(isinstance(n, (ast.Break, ast.Continue, ast.Return)) for b in st.body for n in ast.walk(b)):
                ok, unrolled = True, []
                for el in elts:
                    if isinstance(st.target, ast.Name):
                        m = {tg[0]: el}
                    elif isinstance(el, (ast.Tuple, ast.List)) and len(el.elts) == len(tg):
                        m = dict(zip(tg, el.elts))
                    else:
                        ok = False
                        break
                    unrolled += _unroll([_subst(b, m) for b in st.body], glob, local_names)
                if ok:
                    out += unrolled
                    continue
        out.append(st)
    return out


_ONCE = {}


def check_module_constants(node, glob, local_names):
    """a bare module-level name used as a constant must be assigned exactly once in its module"""
    for n in ast.walk(node):
        if not (isinstance(n, ast.Name) and isinstance(n.ctx, ast.Load)) or n.id in local_names or n.id not in glob:
            continue
        v = glob[n.id]
        if inspect.isclass(v) or inspect.isroutine(v) or inspect.ismodule(v):
            continue
        key = (glob.get("__name__"), n.id)
        if key not in _ONCE:
            try:
                tree = ast.parse(inspect.getsource(sys.modules[glob["__name__"]]))
                cnt = 0
                for t in ast.walk(tree):
                    if isinstance(t, (ast.Assign, ast.AnnAssign, ast.AugAssign)):
                        tg = t.targets if isinstance(t, ast.Assign) else [t.target]
                        cnt += sum(1 for x in tg for y in ast.walk(x) if isinstance(y, ast.Name) and y.id == n.id)
                    elif isinstance(t, ast.Global) and n.id in t.names:
                        cnt += 2
                    elif isinstance(t, (ast.Import, ast.ImportFrom)) and any((a.asname or a.name) == n.id for a in t.names):
                        cnt = 1 if cnt == 0 else cnt + 1
                _ONCE[key] = (cnt == 1)
            except Exception:  # noqa
                _ONCE[key] = False
        if not _ONCE[key]:
            raise Opaque("module-level name %s is not assigned exactly once" % n.id)


def factory_params(fn):
    node, body = fn_ast(fn)
    glob = fn.__globals__
    a = node.args
    if a.vararg or a.kwarg or a.kwonlyargs or a.posonlyargs:
        raise Opaque("signature")
    pnames = [x.arg for x in a.args][1:]
    ndef = len(a.defaults)
    params = []
    for i, p in enumerate(pnames):
        di = i - (len(pnames) - ndef)
        if di >= 0:
            try:
                dv = eval_const(a.defaults[di], glob)
            except Exception:  # noqa
                raise Opaque("default of " + p)
            params.append({"name": p, "has_default": True, "default_none": dv is None,
                           "default": None if dv is None else jval(dv)})
        else:
            params.append({"name": p, "has_default": False, "default_none": False, "default": None})
    for i, p in enumerate(pnames):
        ann = a.args[i + 1].annotation
        params[i]["ann"] = ast.unparse(ann) if ann is not None else None
    return params


def analyse_factory(domname, regcls, fname, fn):
    t = tie(fn, "factory %s.%s" % (domname, fname))
    node, body = fn_ast(fn)
    glob = fn.__globals__
    params = factory_params(fn)
    pnames = [p["name"] for p in params]
    pset = set(pnames)
    used_helpers = []
    body = normalise_factory(body, glob, regcls, pnames, used_helpers)
    for h in used_helpers:
        tie(h, "helper %s inlined in factory %s.%s" % (h.__qualname__, domname, fname))

    def fconst(node):
        """value of an expression that mentions no parameter"""
        check_module_constants(node, glob, pset | {"self"})
        return eval_const(node, glob)

    def is_none(test):
        if isinstance(test, ast.Compare) and len(test.ops) == 1 and isinstance(test.ops[0], ast.Is) \
                and isinstance(test.left, ast.Name) and test.left.id in pset \
                and isinstance(test.comparators[0], ast.Constant) and test.comparators[0].value is None:
            return test.left.id
        return None

    def alias(e):
        """`P if P is not None else CONST` (either orientation) -> (P, CONST expression)"""
        if isinstance(e, ast.IfExp):
            p = is_not_none(e.test)
            if p and isinstance(e.body, ast.Name) and e.body.id == p and not (names_in(e.orelse) & pset):
                return p, e.orelse
            p = is_none(e.test)
            if p and isinstance(e.orelse, ast.Name) and e.orelse.id == p and not (names_in(e.body) & pset):
                return p, e.body
        return None

    def proj(e):
        """expression over exactly one parameter -> (param, key, default or None)"""
        if isinstance(e, ast.Name):
            if e.id in pset:
                return e.id, "", None
            raise Opaque("name " + e.id)
        if isinstance(e, ast.Attribute) and isinstance(e.value, ast.Name):
            if e.value.id in pset:
                return e.value.id, "." + e.attr, None
            raise Opaque("attribute of " + e.value.id)
        if isinstance(e, ast.Attribute) and alias(e.value):
            p, cexpr = alias(e.value)
            try:
                cobj = fconst(cexpr)
            except Opaque:
                raise
            except Exception:  # noqa
                raise Opaque("alias default")
            return p, "." + e.attr, jval(getattr(cobj, e.attr))
        if alias(e):
            p, cexpr = alias(e)
            try:
                return p, "", jval(fconst(cexpr))
            except Opaque:
                raise
            except Exception:  # noqa
                raise Opaque("alias default")
        if isinstance(e, ast.Call) and not e.keywords:
            if isinstance(e.func, ast.Attribute) and not e.args and isinstance(e.func.value, ast.Name) and e.func.value.id in pset:
                return e.func.value.id, "." + e.func.attr + "()", None
            if isinstance(e.func, ast.Name) and e.func.id in ("bytes", "int", "bool", "list") and len(e.args) == 1 \
                    and isinstance(e.args[0], ast.Name) and e.args[0].id in pset:
                return e.args[0].id, e.func.id + "()", None
        if isinstance(e, ast.Attribute) and isinstance(e.value, ast.Call) and isinstance(e.value.func, ast.Name) \
                and len(e.value.args) == 1 and not e.value.keywords and isinstance(e.value.args[0], ast.Name) \
                and e.value.args[0].id in pset and e.value.func.id in glob and inspect.isclass(glob[e.value.func.id]):
            return e.value.args[0].id, e.value.func.id + "()." + e.attr, None
        raise Opaque("expression " + ast.unparse(e))

    def expr(e):
        used = names_in(e) & pset
        if not used and not (names_in(e) & {"self"}):
            try:
                return {"const": jval(fconst(e))}
            except Opaque:
                raise
            except Exception:  # noqa
                raise Opaque("constant " + ast.unparse(e))
        if isinstance(e, ast.IfExp) and not alias(e):
            p, key, d = proj(e.test)
            if d is not None:
                raise Opaque("conditional on alias")
            try:
                c1, c2 = jval(fconst(e.body)), jval(fconst(e.orelse))
            except Exception:  # noqa
                raise Opaque("conditional branches are not constants")
            return {"cond": [p, key if key else "bool()", c1, c2]}
        p, key, d = proj(e)
        # a conversion performed by a helper class becomes an explicit operator over the RAW argument data
        ann = next((q.get("ann") or "" for q in params if q["name"] == p), "").replace(" ", "")
        cv = CONVERSIONS.get((ann, key)) or (CONVERSIONS.get(("<list>", key)) if ann.lower().startswith("list") else None)
        if cv is not None:
            return {"conv": [cv[0], p, cv[1], d, key]}
        if d is not None:
            return {"projdef": [p, key, d]}
        return {"proj": [p, key]}

    def is_not_none(test):
        if isinstance(test, ast.Compare) and len(test.ops) == 1 and isinstance(test.ops[0], ast.IsNot) \
                and isinstance(test.left, ast.Name) and test.left.id in pset \
                and isinstance(test.comparators[0], ast.Constant) and test.comparators[0].value is None:
            return test.left.id
        return None

    def bound_call(c):
        if not (isinstance(c, ast.Call) and isinstance(c.func, ast.Call) and isinstance(c.func.func, ast.Attribute)
                and c.func.func.attr == "bound" and not c.args and not c.func.keywords and len(c.func.args) == 2):
            raise Opaque("not a bound(...)(...) call")
        n, v = c.func.args
        if not (isinstance(n, ast.Constant) and isinstance(n.value, str)):
            raise Opaque("bound name")
        if attr_chain(v) != ["self", "proto_version"]:
            raise Opaque("bound version")
        try:
            reg = eval_const(c.func.func.value, glob)
        except Exception:  # noqa
            raise Opaque("bound registry")
        if not inspect.isclass(reg):
            raise Opaque("bound registry")
        ops = []
        for kw in c.keywords:
            if kw.arg is None:
                raise Opaque("**kwargs")
            ops.append({"op": "set", "attr": kw.arg, "e": expr(kw.value), "guard": None})
        return cid_of(reg), n.value, ops

    def method_records(local_cls_ids, meth, nargs):
        """method `meth` of every class the factory may bind: r = <recv>.add(); r.f = arg ... -> (attr path, [(field, argindex)])"""
        res = None
        for cid in local_cls_ids:
            cls = class_objs[cid]
            m = getattr(cls, meth, None)
            if m is None or not inspect.isfunction(m):
                raise Opaque("method " + meth)
            tie(m, "method %s.%s" % (cid, meth))
            mnode, mbody = fn_ast(m)
            margs = [x.arg for x in mnode.args.args]
            if len(margs) != nargs + 1 or not mbody or not isinstance(mbody[0], ast.Assign):
                raise Opaque("method shape " + meth)
            r = mbody[0].targets[0].id
            call = mbody[0].value
            if not (isinstance(call, ast.Call) and isinstance(call.func, ast.Attribute) and call.func.attr == "add" and not call.args):
                raise Opaque("method shape " + meth)
            ch = attr_chain(call.func.value)
            if ch and ch[:2] == ["self", "message"]:
                recv = ("path", ch[2:])
            elif ch and len(ch) == 2 and ch[0] == "self":
                recv = ("attr", ch[1])
            else:
                raise Opaque("method receiver " + meth)
            fields = []
            for st in mbody[1:]:
                if not (isinstance(st, ast.Assign) and isinstance(st.targets[0], ast.Attribute)
                        and isinstance(st.targets[0].value, ast.Name) and st.targets[0].value.id == r):
                    raise Opaque("method body " + meth)
                v = st.value
                if isinstance(v, ast.Call) and isinstance(v.func, ast.Name) and v.func.id == "bytes" and len(v.args) == 1:
                    v = v.args[0]
                if not (isinstance(v, ast.Name) and v.id in margs[1:]):
                    raise Opaque("method value " + meth)
                fields.append([st.targets[0].attr, margs.index(v.id) - 1])
            cur = (recv, fields)
            if res is not None and res != cur:
                raise Opaque("method differs between versions " + meth)
            res = cur
        return res

    def post(st, local, guard, target):
        out = []
        if isinstance(st, ast.Assign) and len(st.targets) == 1 and isinstance(st.targets[0], ast.Attribute) \
                and isinstance(st.targets[0].value, ast.Name) and st.targets[0].value.id == local:
            return [{"op": "set", "attr": st.targets[0].attr, "e": expr(st.value), "guard": guard}]
        if isinstance(st, ast.If):
            p = is_not_none(st.test)
            if p is not None and not st.orelse:
                if guard is not None and guard != p:
                    raise Opaque("nested guards")
                for s in st.body:
                    out += post(s, local, p, target)
                # the guarded parameter must be the one the guarded expressions read
                for o in out:
                    ps = expr_params(o["e"])
                    if ps - {p}:
                        raise Opaque("guard on %s protects expression over %s" % (p, sorted(ps)))
                return out
            if isinstance(st.test, ast.Name) and st.test.id in pset and len(st.body) == 1 and len(st.orelse) == 1:
                a1, a2 = post(st.body[0], local, guard, target), post(st.orelse[0], local, guard, target)
                if len(a1) == 1 and len(a2) == 1 and a1[0]["attr"] == a2[0]["attr"] and "const" in a1[0]["e"] and "const" in a2[0]["e"] \
                        and a1[0]["op"] == a2[0]["op"] == "set":
                    return [{"op": "set", "attr": a1[0]["attr"], "guard": guard,
                             "e": {"cond": [st.test.id, "bool()", a1[0]["e"]["const"], a2[0]["e"]["const"]]}}]
            raise Opaque("if statement " + ast.unparse(st.test))
        if isinstance(st, ast.For) and not st.orelse and isinstance(st.iter, ast.Name) and st.iter.id in pset and len(st.body) == 1 \
                and isinstance(st.body[0], ast.Expr) and isinstance(st.body[0].value, ast.Call):
            p = st.iter.id
            if guard is not None and guard != p:
                raise Opaque("loop under foreign guard")
            call = st.body[0].value
            tv = [st.target.id] if isinstance(st.target, ast.Name) else [e.id for e in st.target.elts] if isinstance(st.target, ast.Tuple) else None
            if tv is None or call.keywords or [getattr(x, "id", None) for x in call.args] != tv:
                raise Opaque("loop body")
            ch = attr_chain(call.func)
            if ch and len(ch) == 3 and ch[0] == local and ch[2] == "append" and len(tv) == 1:
                return [{"op": "append", "attr": ch[1], "e": {"proj": [p, ""]}, "guard": guard}]
            if ch and len(ch) == 2 and ch[0] == local:
                recv, fields = method_records(target_classes(target), ch[1], len(tv))
                return [{"op": "append", "recv": list(recv), "e": {"proj": [p, "records(" + ",".join("%s=%d" % (f, i) for f, i in fields) + ")"]},
                         "guard": guard, "attr": None}]
            raise Opaque("loop call")
        raise Opaque("statement " + type(st).__name__)

    def expr_params(e):
        for k in ("proj", "projdef", "cond"):
            if k in e:
                return {e[k][0]}
        if "conv" in e:
            return {e["conv"][1]}
        return set()

    def target_classes(target):
        reg, name = target
        return sorted({r["cls"] for r in regs if r["reg"] == reg and r["name"] == name})

    rest = body
    if len(rest) == 1 and isinstance(rest[0], ast.Return):
        reg, name, ops = bound_call(rest[0].value)
    else:
        first = rest[0] if rest else None
        if isinstance(first, ast.AnnAssign) and isinstance(first.target, ast.Name) and first.value is not None:
            local, call = first.target.id, first.value
        elif isinstance(first, ast.Assign) and len(first.targets) == 1 and isinstance(first.targets[0], ast.Name):
            local, call = first.targets[0].id, first.value
        else:
            raise Opaque("body shape")
        reg, name, ops = bound_call(call)
        last = rest[-1]
        if not (isinstance(last, ast.Return) and isinstance(last.value, ast.Name) and last.value.id == local):
            raise Opaque("return shape")
        for st in rest[1:-1]:
            ops += post(st, local, None, (reg, name))
    # resolve method receivers to attributes of the bound classes
    for o in ops:
        if o.get("attr") is None:
            kind, ref = o.pop("recv")
            if kind == "attr":
                o["attr"] = ref
            else:
                names = set()
                for cid in target_classes((reg, name)):
                    names |= {a_["name"] for a_ in classes[cid].get("attrs", []) if a_["path"] == ref}
                if len(names) != 1:
                    raise Opaque("method receiver path is not a declared field")
                o["attr"] = names.pop()
        else:
            o.pop("recv", None)
    return {"dom": domname, "name": fname, "params": params, "reg": reg, "target": name, "ops": ops, "tie": t}


factories, opaque_factories = [], []
for dom in DOMAIN_PROPS:
    try:
        inst = getattr(hub, dom)
    except Exception:  # noqa
        continue
    regcls = type(inst)
    for fname in sorted(n for n in dir(regcls) if n.startswith("create_")):
        fn = inspect.getattr_static(regcls, fname)
        if not inspect.isfunction(fn):
            opaque_factories.append({"dom": dom, "name": fname, "why": "not a plain method"})
            continue
        try:
            factories.append(analyse_factory(dom, regcls, fname, fn))
        except Opaque as e:
            sig = inspect.signature(fn)
            try:
                pinfo = factory_params(fn)
            except Exception:  # noqa
                pinfo = None
            opaque_factories.append({"dom": dom, "name": fname, "why": str(e), "param_info": pinfo,
                                     "params": [p for p in sig.parameters if p != "self"], "tie": tie(fn, "factory %s.%s (opaque)" % (dom, fname))})
        except Exception as e:  # noqa
            opaque_factories.append({"dom": dom, "name": fname, "why": "translator error %r" % (e,), "params": []})

# ---------------------------------------------------------------------------------------------
# 5. Coq text
# ---------------------------------------------------------------------------------------------

def q(s):
    return '"' + str(s).replace('"', '""') + '"'


def cpath(p):
    return "[" + "; ".join(q(x) for x in p) + "]"


def csval(s):
    if "b" in s:
        return "(SBool %s)" % ("true" if s["b"] else "false")
    if "x" in s:
        return "(SBytes [%s])" % ";".join("%d%%N" % b for b in bytes.fromhex(s["x"]))
    return "(SInt (%d)%%Z)" % s["i"]


def cvalue(v):
    if "s" in v:
        return "(VS %s)" % csval(v["s"])
    if "list" in v:
        return "(VL [%s])" % "; ".join(csval(e) for e in v["list"])
    return "(VR [%s])" % "; ".join("[" + "; ".join("(%s, %s)" % (q(n), csval(s)) for n, s in r) + "]" for r in v["recs"])


def cexpr(e):
    if "const" in e:
        return "(EConst %s)" % cvalue(e["const"])
    if "proj" in e:
        return "(EProj %s %s)" % (q(e["proj"][0]), q(e["proj"][1]))
    if "projdef" in e:
        return "(EProjDef %s %s %s)" % (q(e["projdef"][0]), q(e["projdef"][1]), cvalue(e["projdef"][2]))
    if "conv" in e:
        op, p, k, d = e["conv"][:4]
        return "(EConv %s %s %s %s)" % (q(op), q(p), q(k), "None" if d is None else "(Some %s)" % cvalue(d))
    p, k, c1, c2 = e["cond"]
    return "(ECond %s %s %s %s)" % (q(p), q(k), cvalue(c1), cvalue(c2))


def copt(x):
    return "None" if x is None else "(Some %s)" % q(x)


def coq_text():
    L = []
    L.append("(* GENERATED by harness/translators/C02_schema.py from %s -- do not edit. *)" % REPO)
    L.append("From Coq Require Import List NArith ZArith Bool String.")
    L.append("From Whad Require Import C02.Model.")
    L.append("Import ListNotations.\nOpen Scope string_scope.\n")
    L.append("Definition desc : list mdesc := [")
    ms = []
    for mn in msg_order:
        fs = []
        for f in messages[mn]:
            ty = "(TM %s)" % q(f["ty"]["msg"]) if "msg" in f["ty"] else "(TS %s)" % f["ty"]["scalar"]
            fs.append("mkF %s %d%%N %s %s %s %s" % (q(f["name"]), f["num"], ty, "true" if f["pres"] else "false",
                                                  "true" if f["rep"] else "false", copt(f["oneof"])))
        ms.append("  mkM %s [%s]" % (q(mn), ";\n     ".join(fs)))
    L.append(";\n".join(ms) + "].\n")
    cl = []
    for cid in sorted(classes):
        c = classes[cid]
        k = c["kind"]
        if k == "CWrap":
            at = "; ".join("mkA %s %s %s %s" % (q(a["name"]), cpath(a["path"]), a["kind"], "true" if a["opt"] else "false") for a in c["attrs"])
            body = "CWrap [%s] [%s]" % (at, "; ".join(cpath(p) for p in c["selects"]))
        elif k == "CFixed":
            body = "CFixed (mkPb [%s] [%s])" % ("; ".join("(%s, %s)" % (cpath(p), cvalue(v)) for p, v in c["vals"]),
                                                "; ".join(cpath(p) for p in c["pres"]))
        elif k == "CDomain":
            body = "CDomain %s %s %s" % (cpath(c["path"]), q(c["group"]), q(c["reg"]))
        elif k == "COneofSwitch":
            body = "COneofSwitch %s %s [%s]" % (cpath(c["path"]), q(c["group"]), "; ".join("(%s, %s)" % (q(m), q(t)) for m, t in c["cases"]))
        elif k == "CValueSwitch":
            body = "CValueSwitch %s [%s]" % (cpath(c["path"]), "; ".join("((%d)%%Z, (%s, %s))" % (z, q(r), q(n)) for z, r, n in c["cases"]))
        else:
            body = "COpaque %s" % q(c.get("why", "?"))
        cl.append("  (%s, %s)" % (q(cid), body))
    L.append("Definition classes : list (string * ckind) := [\n" + ";\n".join(cl) + "].\n")
    L.append("Definition regs : list regent := [\n" + ";\n".join(
        "  mkR %s %s %d %s" % (q(r["reg"]), q(r["name"]), r["ver"], q(r["cls"])) for r in regs) + "].\n")
    fl = []
    for f in factories:
        ops = "; ".join("%s %s %s %s" % ("FSet" if o["op"] == "set" else "FAppend", q(o["attr"]), cexpr(o["e"]), copt(o["guard"])) for o in f["ops"])
        ps = "; ".join("(%s, %s)" % (q(p["name"]), "true" if p["default_none"] else "false") for p in f["params"])
        fl.append("  mkFa %s %s [%s] %s %s [%s]" % (q(f["dom"]), q(f["name"]), ps, q(f["reg"]), q(f["target"]), ops))
    L.append("Definition factories : list factory := [\n" + ";\n".join(fl) + "].\n")
    L.append("Definition opaque_factories : list (string * string) := [%s].\n" % "; ".join("(%s, %s)" % (q(f["dom"]), q(f["name"])) for f in opaque_factories))
    L.append("Definition schema : schema := mkS desc %s classes regs %s %d factories %s %s %s." % (
        q(ROOT), q(HUB_ID), int(ProtocolHub.LAST_VERSION),
        "true" if flags["decode_caught"] else "false", "true" if flags["none_guard"] else "false",
        "true" if flags["unsupported_caught"] else "false"))
    return "\n".join(L) + "\n"


def main():
    req = json.load(sys.stdin)
    txt = coq_text()
    if req.get("out_v"):
        with open(req["out_v"], "w") as f:
            f.write(txt)
    res = {"root": ROOT, "hub": HUB_ID, "last_version": int(ProtocolHub.LAST_VERSION), "messages": messages,
           "msg_order": msg_order, "classes": classes, "regs": regs, "flags": flags, "factories": factories,
           "opaque_factories": opaque_factories, "errors": errors, "ties": ties, "domain_props": DOMAIN_PROPS,
           "coq_sha256": hashlib.sha256(txt.encode()).hexdigest()}
    print("RESULT " + json.dumps(res))


main()
