"""Fail-closed Python `ast` -> Gallina translator for PURE integer/bytes functions.

    translate(path, qualname, spec) -> gallina text      (python3 stdlib only)

The supported grammar, the typing rules and the semantic assumptions are described in
/verif/design/PYTRANS.md; the Gallina operations are in coq/theories/Lib/PyOps.v.  Any
AST node outside the grammar raises `Unsupported` (the caller reports it; nothing is ever
silently skipped).

spec = {
  "name":   "get_fragments",                      # emits gen_<name> and gen_<name>_pre
  "inputs": [[<python expr text>, <coq name>, <coq type>], ...],
            # every occurrence of the expression (compared after ast.unparse) is the
            # parameter; type in nat | N | bool | bytes.  e.g. ["self.state.remote_mtu","mtu","nat"]
  "mode":   "function" (default) | "prefix" | "expr",
  # prefix: top-level statements up to (excluding) the first one matching "stop_at"
  #         (a node class name such as "For", or "text:<prefix of ast.unparse(stmt)>");
  #         returns the tuple of locals named in "returns"
  "stop_at": "For", "returns": ["nb_chunks", "chunk_size"],
  # expr: one expression of the function body, picked by "select":
  #   {"rhs_of": "<target text>", "nth": k}          right-hand side of the k-th assignment
  #                                                  (AugAssign x op= e gives x op e)
  #   {"test_enclosing": "<target text>", "nth": k, "up": u}  test of the innermost `if`/`while`
  #                                                  around it (u levels further out)
  #   {"test": "If" | "While", "nth": k}             test of the k-th if / while statement
  #   {"test_on": "<name>", "nth": k}                test of the if / while whose test mentions the name
  #   {"arg_of": "<callee text>", "nth": k, "index": j}  j-th argument of the k-th call
  #   (without "nth" the match must be unique)
  "select": {...},
  "ignore_calls": ["logger.debug"],   # expression statements calling these are skipped
}
"""
import ast
import hashlib
import os
import re

PYOPS_IMPORT = ("From Coq Require Import List NArith Arith Bool.\n"
                "From Whad Require Import Lib.Bytes Lib.PyOps.\n"
                "Import ListNotations.\n")

RESERVED = set("""as at cofix else end exists exists2 fix for forall fun if IF in let match mod return
Set Prop SProp Type then using where with by length map seq nth firstn skipn app bytes slice le16 le32
nlen true false list nat N bool pair fst snd S O cases""".split())


class Unsupported(Exception):
    pass


def _bad(node, why):
    ln = getattr(node, "lineno", "?")
    raise Unsupported("line %s: %s: %s" % (ln, why, ast.dump(node)[:160] if isinstance(node, ast.AST) else node))


# ---------------------------------------------------------------------------
# types
# ---------------------------------------------------------------------------

class TVar:
    def __init__(self):
        self.ref = None


def resolve(t):
    while isinstance(t, TVar) and t.ref is not None:
        t = t.ref
    if isinstance(t, tuple) and t[0] == "list":
        return ("list", resolve(t[1]))
    if isinstance(t, tuple) and t[0] == "tuple":
        return ("tuple", tuple(resolve(x) for x in t[1]))
    return t


def is_int(t):
    return t in ("nat", "N") or (isinstance(t, tuple) and t[0] == "lit")


def render_type(t):
    t = resolve(t)
    if isinstance(t, TVar):
        raise Unsupported("the element type of a list is never determined")
    if t in ("nat", "N", "bool", "bytes"):
        return t
    if t[0] == "lit":
        return "nat" if t[1] < 5000 else "N"
    if t[0] == "list":
        return "list %s" % _par(render_type(t[1]))
    if t[0] == "tuple":
        return "(" + " * ".join(_par(render_type(x)) for x in t[1]) + ")"
    raise Unsupported("type %r" % (t,))


def _par(s):
    return s if re.match(r"^[A-Za-z0-9_.]+$", s) or s.startswith("(") else "(" + s + ")"


def unify(a, b, node):
    """Most specific common type of two values that must have the same type (branches of an
    if, elements of a list).  Returns the type; TVars are bound."""
    a, b = resolve(a), resolve(b)
    if isinstance(a, TVar):
        a.ref = b
        return b
    if isinstance(b, TVar):
        b.ref = a
        return a
    if a == b:
        return a
    if is_int(a) and is_int(b):
        if "N" in (a, b):
            return "N"
        if "nat" in (a, b):
            return "nat"
        return ("lit", max(a[1], b[1]))
    if a[0] == "list" and b[0] == "list":
        return ("list", unify(a[1], b[1], node))
    if a[0] == "tuple" and b[0] == "tuple" and len(a[1]) == len(b[1]):
        return ("tuple", tuple(unify(x, y, node) for x, y in zip(a[1], b[1])))
    _bad(node, "incompatible types %r / %r" % (a, b))


class V:
    """A translated expression: Coq text, type, side conditions (Coq Props, in scope here)."""
    def __init__(self, text, ty, conds=()):
        self.text, self.ty, self.conds = text, ty, list(conds)


def coerce(v, want, node):
    """Text of v at type `want` (lossless coercions only: literal -> nat/N, nat -> N, N -> nat)."""
    t, want = resolve(v.ty), resolve(want)
    if isinstance(t, tuple) and t[0] == "lit":
        n = t[1]
        if want == "nat":
            return ("%d%%nat" % n) if n < 5000 else "(N.to_nat %d%%N)" % n
        if want == "N":
            return "%d%%N" % n
        if isinstance(want, tuple) and want[0] == "lit":
            return coerce(v, "nat" if n < 5000 else "N", node)
        _bad(node, "integer literal where %r is expected" % (want,))
    if t == want:
        return v.text
    if t == "nat" and want == "N":
        return "(N.of_nat %s)" % v.text
    if t == "N" and want == "nat":
        return "(N.to_nat %s)" % v.text
    if isinstance(t, tuple) and isinstance(want, tuple) and t[0] == want[0] == "list":
        te, we = resolve(t[1]), resolve(want[1])
        if te == we or isinstance(te, TVar) or isinstance(we, TVar):
            unify(t, want, node)
            return v.text
    if isinstance(t, TVar) or isinstance(want, TVar):
        unify(t, want, node)
        return v.text
    _bad(node, "cannot use a value of type %r as %r" % (t, want))


def conj(conds):
    seen, out = set(), []
    for c in conds:
        if c != "True" and c not in seen:
            seen.add(c)
            out.append(c)
    conds = out
    if not conds:
        return "True"
    if len(conds) == 1:
        return conds[0]
    return "(" + " /\\ ".join(conds) + ")"


PACK = {"<H": 2, "<I": 4, "<L": 4, "<Q": 8, "B": 1, "<B": 1}
FIELD = {"B": 1, "H": 2, "I": 4, "L": 4, "Q": 8}


def parse_fmt(fmt):
    """struct format of unsigned fields -> ('le' | 'be', [sizes]) or None.  '<' little endian, '>' / '!'
    big endian (no padding); without a prefix (native order AND alignment) only one field, or only
    bytes, is accepted and the host is assumed little endian (recorded in design/PYTRANS.md)."""
    if not isinstance(fmt, str) or not fmt:
        return None
    order, body = "le", fmt
    if fmt[0] in "<>!=":
        if fmt[0] == "=":
            return None
        order, body = ("le" if fmt[0] == "<" else "be"), fmt[1:]
        native = False
    else:
        native = True
    if not body or any(ch not in FIELD for ch in body):
        return None
    sizes = [FIELD[ch] for ch in body]
    if native and len(sizes) > 1 and any(n != 1 for n in sizes):
        return None
    return order, sizes


# ---------------------------------------------------------------------------
# the translator of one function / fragment
# ---------------------------------------------------------------------------

class Tr:
    def __init__(self, spec):
        self.spec = spec
        self.inputs = []           # (dump key, coq name, type, set of python names mentioned, text)
        for text, cname, ty in spec["inputs"]:
            if ty not in ("nat", "N", "bool", "bytes"):
                raise Unsupported("input type %r" % ty)
            e = ast.parse(text, mode="eval").body
            names = {n.id for n in ast.walk(e) if isinstance(n, ast.Name)}
            self.inputs.append((ast.dump(e), cname, ty, names, text))
        self.ignore_calls = set(spec.get("ignore_calls", ()))
        self.tvars = []            # element types of `[]` literals, filled in at the end
        self.used = {"range"}      # builtins / struct functions the translation relied on

    # -- names -----------------------------------------------------------
    def local_name(self, pyname, node):
        for _k, cname, _t, _names, text in self.inputs:
            if cname == pyname and text != pyname:
                _bad(node, "local %r collides with the Coq name of input %r" % (pyname, text))
        return pyname + "_" if (pyname in RESERVED or pyname.startswith("gen_") or pyname.startswith("py_")) else pyname

    def assign(self, env, pyname, ty, node):
        """Bind a local; invalidate the compound inputs that mention the name."""
        env = self.kill(env, [pyname])
        cname = self.local_name(pyname, node)
        env[pyname] = (cname, ty)
        return env, cname

    def kill(self, env, pynames):
        """Copy of env in which the compound inputs mentioning one of the names are dead."""
        env = dict(env)
        dead = set(env.get("\0dead", ()))
        for k, _c, _t, names, text in self.inputs:
            if not text.isidentifier() and any(n in names for n in pynames):
                dead.add(k)
        env["\0dead"] = dead
        return env

    def unbind(self, env, pynames):
        env = self.kill(env, pynames)
        for n in pynames:
            env.pop(n, None)
        return env

    def initial_env(self):
        """Inputs that are plain python names are ordinary (re-assignable) locals from the start."""
        env = {}
        for _k, cname, ty, _names, text in self.inputs:
            if text.isidentifier():
                env[text] = (cname, ty)
        return env

    def as_input(self, node, env):
        if isinstance(node, ast.Name):
            return None
        k = ast.dump(node)
        for key, cname, ty, _names, text in self.inputs:
            if key == k:
                if key in env.get("\0dead", ()):
                    _bad(node, "input expression %r used after a name it mentions was assigned" % text)
                return V(cname, ty)
        return None

    # -- expressions -------------------------------------------------------
    def int2(self, a, b, node, force=None):
        """Bring two integer values to a common type (nat or N)."""
        ta, tb = resolve(a.ty), resolve(b.ty)
        if not (is_int(ta) and is_int(tb)):
            _bad(node, "integer operands expected, got %r / %r" % (ta, tb))
        t = force or unify(ta, tb, node)
        if isinstance(t, tuple):   # both literals
            t = "nat" if max(ta[1], tb[1]) < 5000 else "N"
        return coerce(a, t, node), coerce(b, t, node), t

    def expr(self, e, env):
        v = self.as_input(e, env)
        if v is not None:
            return v
        m = getattr(self, "e_" + type(e).__name__, None)
        if m is None:
            _bad(e, "expression outside the grammar")
        return m(e, env)

    def e_Constant(self, e, env):
        if e.value is True or e.value is False:
            return V("true" if e.value else "false", "bool")
        if isinstance(e.value, int) and e.value >= 0:
            return V(None, ("lit", e.value))
        if isinstance(e.value, bytes):
            if not e.value:
                return V("(@nil N)", "bytes")
            return V("[" + "; ".join("%d%%N" % b for b in e.value) + "]", "bytes")
        _bad(e, "constant outside the grammar")

    def e_Name(self, e, env):
        if e.id in env:
            cname, ty = env[e.id]
            return V(cname, ty)
        _bad(e, "name is neither an input nor an assigned local")

    def e_BinOp(self, e, env):
        a, b = self.expr(e.left, env), self.expr(e.right, env)
        conds = a.conds + b.conds
        ta, tb = resolve(a.ty), resolve(b.ty)
        op = type(e.op).__name__
        if op == "Add" and not (is_int(ta) and is_int(tb)):
            if ta == tb == "bytes":
                return V("(%s ++ %s)" % (a.text, b.text), "bytes", conds)
            if isinstance(ta, tuple) and isinstance(tb, tuple) and ta[0] == tb[0] == "list":
                t = unify(ta, tb, e)
                return V("(%s ++ %s)" % (a.text, b.text), t, conds)
            _bad(e, "+ on %r / %r" % (ta, tb))
        if isinstance(ta, tuple) and isinstance(tb, tuple) and ta[0] == tb[0] == "lit" and op in ("Add", "Mult", "Sub"):
            n = {"Add": ta[1] + tb[1], "Mult": ta[1] * tb[1], "Sub": ta[1] - tb[1]}[op]
            if n < 0:
                _bad(e, "negative constant")
            return V(None, ("lit", n), conds)
        if op in ("Add", "Sub", "Mult", "FloorDiv", "Mod"):
            x, y, t = self.int2(a, b, e)
            sc = "%" + t
            if op == "Add":
                return V("(%s + %s)%s" % (x, y, sc), t, conds)
            if op == "Mult":
                return V("(%s * %s)%s" % (x, y, sc), t, conds)
            if op == "Sub":
                return V("(%s - %s)%s" % (x, y, sc), t, conds + ["(%s <= %s)%s" % (y, x, sc)])
            fn = {"FloorDiv": "py_floordiv", "Mod": "py_mod"}[op] + ("_N" if t == "N" else "")
            return V("(%s %s %s)" % (fn, x, y), t, conds + ["(0 < %s)%s" % (y, sc)])
        if op in ("BitAnd", "BitOr", "BitXor", "RShift", "LShift"):
            x, y, t = self.int2(a, b, e, force="N")
            fn = {"BitAnd": "N.land", "BitOr": "N.lor", "BitXor": "N.lxor", "RShift": "N.shiftr", "LShift": "N.shiftl"}[op]
            return V("(%s %s %s)" % (fn, x, y), "N", conds)
        _bad(e, "operator outside the grammar")

    def e_Compare(self, e, env):
        if len(e.ops) != 1:
            _bad(e, "chained comparison")
        a, b = self.expr(e.left, env), self.expr(e.comparators[0], env)
        conds = a.conds + b.conds
        ta, tb = resolve(a.ty), resolve(b.ty)
        op = type(e.ops[0]).__name__
        if ta == tb == "bytes" and op in ("Eq", "NotEq"):
            s = "(bytes_eqb %s %s)" % (a.text, b.text)
            return V(s if op == "Eq" else "(negb %s)" % s, "bool", conds)
        if ta == tb == "bool" and op in ("Eq", "NotEq"):
            s = "(Bool.eqb %s %s)" % (a.text, b.text)
            return V(s if op == "Eq" else "(negb %s)" % s, "bool", conds)
        x, y, t = self.int2(a, b, e)
        sc = "%" + t
        if op == "Lt":
            s = "(%s <? %s)%s" % (x, y, sc)
        elif op == "LtE":
            s = "(%s <=? %s)%s" % (x, y, sc)
        elif op == "Gt":
            s = "(%s <? %s)%s" % (y, x, sc)
        elif op == "GtE":
            s = "(%s <=? %s)%s" % (y, x, sc)
        elif op == "Eq":
            s = "(%s =? %s)%s" % (x, y, sc)
        elif op == "NotEq":
            s = "(negb (%s =? %s)%s)" % (x, y, sc)
        else:
            _bad(e, "comparison outside the grammar")
        return V(s, "bool", conds)

    def e_BoolOp(self, e, env):
        vs = [self.expr(x, env) for x in e.values]
        for v, x in zip(vs, e.values):
            if resolve(v.ty) != "bool":
                _bad(x, "and/or on a non-boolean")
        isand = isinstance(e.op, ast.And)
        text, conds = vs[0].text, list(vs[0].conds)
        for v in vs[1:]:
            if v.conds:   # evaluated only when the left part does not short-circuit
                conds.append("(%s = %s -> %s)" % (text, "true" if isand else "false", conj(v.conds)))
            text = "(%s %s %s)" % (text, "&&" if isand else "||", v.text)
        return V(text, "bool", conds)

    def e_UnaryOp(self, e, env):
        if isinstance(e.op, ast.Not):
            v = self.expr(e.operand, env)
            if resolve(v.ty) != "bool":
                _bad(e, "not on a non-boolean")
            return V("(negb %s)" % v.text, "bool", v.conds)
        _bad(e, "unary operator outside the grammar")

    def e_IfExp(self, e, env):
        c, a, b = self.expr(e.test, env), self.expr(e.body, env), self.expr(e.orelse, env)
        if resolve(c.ty) != "bool":
            _bad(e, "condition is not a boolean")
        t = unify(a.ty, b.ty, e)
        if isinstance(t, tuple) and t[0] == "lit":
            t = "nat" if t[1] < 5000 else "N"
        conds = list(c.conds)
        if a.conds or b.conds:
            conds.append("(if %s then %s else %s)" % (c.text, conj(a.conds), conj(b.conds)))
        return V("(if %s then %s else %s)" % (c.text, coerce(a, t, e), coerce(b, t, e)), t, conds)

    def e_List(self, e, env):
        if not e.elts:
            tv = TVar()
            self.tvars.append(tv)
            return V("(@nil <<T%d>>)" % (len(self.tvars) - 1), ("list", tv))
        vs = [self.expr(x, env) for x in e.elts]
        conds = [c for v in vs for c in v.conds]
        t = vs[0].ty
        for v in vs[1:]:
            t = unify(t, v.ty, e)
        t = resolve(t)
        if is_int(t):
            t = "N"            # a list of ints is a list of N (it can only become bytes)
        return V("[" + "; ".join(coerce(v, t, e) for v in vs) + "]", ("list", t), conds)

    def e_Tuple(self, e, env):
        vs = [self.expr(x, env) for x in e.elts]
        if len(vs) < 2:
            _bad(e, "tuple of fewer than two elements")
        vs = [self.settle(v, x) for v, x in zip(vs, e.elts)]
        return V("(" + ", ".join(v.text for v in vs) + ")", ("tuple", tuple(v.ty for v in vs)),
                 [c for v in vs for c in v.conds])

    def settle(self, v, node):
        """A literal on its own becomes nat (or N when large)."""
        t = resolve(v.ty)
        if isinstance(t, tuple) and t[0] == "lit":
            t2 = "nat" if t[1] < 5000 else "N"
            return V(coerce(v, t2, node), t2, v.conds)
        return v

    def e_ListComp(self, e, env):
        if len(e.generators) != 1:
            _bad(e, "nested comprehension")
        g = e.generators[0]
        if g.ifs or g.is_async or not isinstance(g.target, ast.Name):
            _bad(e, "comprehension outside the grammar")
        n = self.range_arg(g.iter, env)
        return self.range_map(g.target.id, e.elt, n, env, e)

    def range_arg(self, it, env):
        if not (isinstance(it, ast.Call) and isinstance(it.func, ast.Name) and it.func.id == "range"
                and len(it.args) == 1 and not it.keywords and "range" not in env):
            _bad(it, "only `range(n)` can be iterated")
        n = self.expr(it.args[0], env)
        if not is_int(resolve(n.ty)):
            _bad(it, "range of a non-integer")
        return V(coerce(n, "nat", it), "nat", n.conds)

    def range_map(self, ivar, elt, n, env, node):
        env2, iname = self.assign(env, ivar, "nat", node)
        body = self.settle(self.expr(elt, env2), elt)
        conds = list(n.conds)
        if body.conds:
            conds.append("(forall %s : nat, (%s < %s)%%nat -> %s)" % (iname, iname, n.text, conj(body.conds)))
        return V("(py_range_map (fun %s : nat => %s) %s)" % (iname, body.text, n.text), ("list", body.ty), conds)

    def e_Subscript(self, e, env):
        # unpack(fmt, b)[k]
        if (isinstance(e.value, ast.Call) and self.callee(e.value) in ("unpack", "struct.unpack")
                and isinstance(e.slice, ast.Constant) and isinstance(e.slice.value, int) and not isinstance(e.slice.value, bool)):
            return self.unpack(e.value, env, e.slice.value)
        v = self.expr(e.value, env)
        t = resolve(v.ty)
        if not (t == "bytes" or (isinstance(t, tuple) and t[0] == "list")):
            _bad(e, "subscript of a non-sequence")
        if isinstance(e.slice, ast.Slice):
            if e.slice.step is not None:
                _bad(e, "slice step")
            def neg(b):
                return isinstance(b, ast.UnaryOp) and isinstance(b.op, ast.USub)
            if neg(e.slice.lower) or neg(e.slice.upper):
                # x[:-m] and x[-m:] (m a non-negative int; note x[:-0] == b"" and x[-0:] == x)
                if e.slice.lower is None and neg(e.slice.upper):
                    m, f = self.expr(e.slice.upper.operand, env), "py_slice_to_neg"
                elif e.slice.upper is None and neg(e.slice.lower):
                    m, f = self.expr(e.slice.lower.operand, env), "py_slice_from_neg"
                else:
                    _bad(e, "negative slice bound outside the grammar")
                if not is_int(resolve(m.ty)):
                    _bad(e, "slice bound is not an integer")
                return V("(%s %s %s)" % (f, coerce(m, "nat", e), v.text), t, v.conds + m.conds)
            lo = self.expr(e.slice.lower, env) if e.slice.lower is not None else None
            hi = self.expr(e.slice.upper, env) if e.slice.upper is not None else None
            conds = v.conds + (lo.conds if lo else []) + (hi.conds if hi else [])
            for x, nd in ((lo, e.slice.lower), (hi, e.slice.upper)):
                if x is not None and not is_int(resolve(x.ty)):
                    _bad(nd, "slice bound is not an integer")
            if lo is None and hi is None:
                return V(v.text, t, conds)
            if lo is None:
                return V("(py_slice 0%%nat %s %s)" % (coerce(hi, "nat", e), v.text), t, conds)
            if hi is None:
                return V("(py_slice_from %s %s)" % (coerce(lo, "nat", e), v.text), t, conds)
            return V("(py_slice %s %s %s)" % (coerce(lo, "nat", e), coerce(hi, "nat", e), v.text), t, conds)
        if t != "bytes":
            _bad(e, "indexing is supported on bytes only")
        i = self.expr(e.slice, env)
        if not is_int(resolve(i.ty)):
            _bad(e, "index is not a non-negative integer")
        it = coerce(i, "nat", e)
        return V("(py_index %s %s)" % (it, v.text), "N", v.conds + i.conds + ["(%s < py_len %s)%%nat" % (it, v.text)])

    def unpack(self, c, env, k):
        """unpack(fmt, b)[k] (k an index) or the whole tuple (k None, at least two fields)."""
        self.used.add(self.callee(c))
        pf = parse_fmt(c.args[0].value) if (len(c.args) == 2 and not c.keywords and isinstance(c.args[0], ast.Constant)) else None
        if pf is None:
            _bad(c, "unpack format outside the grammar")
        order, sizes = pf
        b = self.expr(c.args[1], env)
        if resolve(b.ty) != "bytes":
            _bad(c, "unpack of a non-bytes value")
        conds = b.conds + ["(py_len %s = %d)%%nat" % (b.text, sum(sizes))]
        def field(j):
            if len(sizes) == 1:
                piece = b.text
            else:
                off = sum(sizes[:j])
                piece = "(py_slice %d%%nat %d%%nat %s)" % (off, off + sizes[j], b.text)
            return "(py_unpack_%s %s)" % (order, piece)
        if k is not None:
            if not 0 <= k < len(sizes):
                _bad(c, "unpack index out of range")
            return V(field(k), "N", conds)
        if len(sizes) < 2:
            _bad(c, "a one-field unpack is only supported as unpack(fmt, b)[0]")
        return V("(" + ", ".join(field(j) for j in range(len(sizes))) + ")", ("tuple", tuple("N" for _ in sizes)), conds)

    @staticmethod
    def callee(c):
        try:
            return ast.unparse(c.func)
        except Exception:
            return None

    def e_Call(self, e, env):
        fn = self.callee(e)
        self.used.add(fn)
        if e.keywords:
            _bad(e, "keyword arguments")
        if fn in ("len", "int", "bytes", "min", "max", "pack", "bytearray") and fn in env:
            _bad(e, "builtin %s is shadowed by a local" % fn)
        if fn == "len" and len(e.args) == 1:
            v = self.expr(e.args[0], env)
            t = resolve(v.ty)
            if not (t == "bytes" or (isinstance(t, tuple) and t[0] == "list")):
                _bad(e, "len of a non-sequence")
            return V("(py_len %s)" % v.text, "nat", v.conds)
        if fn == "int" and len(e.args) == 1:
            a = e.args[0]
            if isinstance(a, ast.BinOp) and isinstance(a.op, ast.Div):
                x, y = self.expr(a.left, env), self.expr(a.right, env)
                xs, ys, t = self.int2(x, y, e)
                f = "py_int_truediv" + ("_N" if t == "N" else "")
                xn = xs if t == "N" else "(N.of_nat %s)" % xs
                yn = ys if t == "N" else "(N.of_nat %s)" % ys
                return V("(%s %s %s)" % (f, xs, ys), t, x.conds + y.conds + ["(py_truediv_ok %s %s)" % (xn, yn)])
            v = self.expr(a, env)
            if is_int(resolve(v.ty)):
                return v
            _bad(e, "int() of a non-integer")
        if fn in ("bytes", "bytearray") and len(e.args) == 1:
            v = self.expr(e.args[0], env)
            t = resolve(v.ty)
            if t == "bytes":
                return V("(py_bytes %s)" % v.text, "bytes", v.conds)
            if isinstance(t, tuple) and t[0] == "list":
                unify(t[1], "N", e)
                return V("(py_bytes %s)" % v.text, "bytes", v.conds + ["(all_bytes %s)" % v.text])
            _bad(e, "bytes() of %r" % (t,))
        if fn in ("min", "max") and len(e.args) == 2:
            x, y = self.expr(e.args[0], env), self.expr(e.args[1], env)
            xs, ys, t = self.int2(x, y, e)
            return V("(%s.%s %s %s)" % ("N" if t == "N" else "Nat", fn, xs, ys), t, x.conds + y.conds)
        if fn in ("pack", "struct.pack") and len(e.args) >= 2:
            f = e.args[0]
            pf = parse_fmt(f.value) if isinstance(f, ast.Constant) else None
            if pf is None or len(pf[1]) != len(e.args) - 1:
                _bad(e, "pack format outside the grammar")
            order, sizes = pf
            parts, conds = [], []
            for n, a in zip(sizes, e.args[1:]):
                v = self.expr(a, env)
                if not is_int(resolve(v.ty)):
                    _bad(e, "pack of a non-integer")
                vt = coerce(v, "N", e)
                parts.append("(py_pack_%s %d%%nat %s)" % (order, n, vt))
                conds += v.conds + ["(%s < %d)%%N" % (vt, 256 ** n)]
            text = parts[0]
            for q in parts[1:]:
                text = "(%s ++ %s)" % (text, q)
            return V(text, "bytes", conds)
        if fn in ("unpack", "struct.unpack") and len(e.args) == 2:
            return self.unpack(e, env, None)
        _bad(e, "call outside the grammar")

    # -- statements ----------------------------------------------------------
    @staticmethod
    def has_return(stmts):
        return any(isinstance(n, ast.Return) for s in stmts for n in ast.walk(s))

    @staticmethod
    def assigned(stmts):
        """Names (re)bound by a block, in first-assignment order."""
        out = []
        def add(n):
            if n not in out:
                out.append(n)
        for s in stmts:
            for n in ast.walk(s):
                if isinstance(n, (ast.Assign, ast.AugAssign, ast.AnnAssign)):
                    for t in (n.targets if isinstance(n, ast.Assign) else [n.target]):
                        if isinstance(t, ast.Name):
                            add(t.id)
                elif isinstance(n, ast.For) and isinstance(n.target, ast.Name):
                    add(n.target.id)
                elif (isinstance(n, ast.Expr) and isinstance(n.value, ast.Call) and isinstance(n.value.func, ast.Attribute)
                      and n.value.func.attr == "append" and isinstance(n.value.func.value, ast.Name)):
                    add(n.value.func.value.id)
        return out

    def block(self, stmts, env, final):
        """Translate statements followed by `final(env) -> (def_text, type, pre_text)` (used when the
        block falls through).  Returns (def_text, type, pre_text)."""
        if not stmts:
            return final(env)
        s, rest = stmts[0], stmts[1:]
        if isinstance(s, ast.Expr):
            if isinstance(s.value, ast.Constant) and isinstance(s.value.value, str):
                return self.block(rest, env, final)                      # docstring
            if isinstance(s.value, ast.Call) and self.callee(s.value) in self.ignore_calls:
                return self.block(rest, env, final)                      # declared side-effect-free logging
            _bad(s, "expression statement outside the grammar")
        if isinstance(s, ast.Pass):
            return self.block(rest, env, final)
        if isinstance(s, ast.Return):
            if s.value is None:
                _bad(s, "return without a value")
            # statements after a return are unreachable (this is also how the continuation that
            # `if` duplicates into a returning branch is cut off)
            v = self.settle(self.expr(s.value, env), s)
            return v.text, v.ty, conj(v.conds)
        if (isinstance(s, ast.Assign) and len(s.targets) == 1 and isinstance(s.targets[0], ast.Tuple)
                and all(isinstance(x, ast.Name) for x in s.targets[0].elts)):
            # a, b = <tuple>
            v = self.expr(s.value, env)
            t = resolve(v.ty)
            names = [x.id for x in s.targets[0].elts]
            if not (isinstance(t, tuple) and t[0] == "tuple" and len(t[1]) == len(names)) or len(set(names)) != len(names):
                _bad(s, "tuple assignment of a value that is not a tuple of that size")
            env2, cn = env, []
            for n, ty in zip(names, t[1]):
                env2, c1 = self.assign(env2, n, ty, s)
                cn.append(c1)
            d, ty, p = self.block(rest, env2, final)
            pat = "'(" + ", ".join(cn) + ")"
            pre = conj(v.conds + (["(let %s := %s in %s)" % (pat, v.text, p)] if p != "True" else []))
            return "let %s := %s in\n%s" % (pat, v.text, d), ty, pre
        if isinstance(s, (ast.Assign, ast.AugAssign)):
            if isinstance(s, ast.Assign):
                if len(s.targets) != 1 or not isinstance(s.targets[0], ast.Name):
                    _bad(s, "assignment target must be a single local name")
                name, val = s.targets[0].id, s.value
            else:
                if not isinstance(s.target, ast.Name):
                    _bad(s, "assignment target must be a single local name")
                name = s.target.id
                val = ast.BinOp(left=ast.Name(id=name, ctx=ast.Load()), op=s.op, right=s.value)
                ast.copy_location(val, s)
                ast.fix_missing_locations(val)
            v = self.settle(self.expr(val, env), s)
            env2, cname = self.assign(env, name, v.ty, s)
            d, t, p = self.block(rest, env2, final)
            pre = conj(v.conds + (["(let %s := %s in %s)" % (cname, v.text, p)] if p != "True" else []))
            return "let %s := %s in\n%s" % (cname, v.text, d), t, pre
        if isinstance(s, ast.For):
            # for i in range(n): acc.append(e)
            if s.orelse or not isinstance(s.target, ast.Name) or len(s.body) != 1:
                _bad(s, "for loop outside the grammar")
            b = s.body[0]
            if isinstance(b, ast.AugAssign) and isinstance(b.op, ast.Add) and isinstance(b.target, ast.Name):
                # for i in range(n): acc += e     (acc a bytes / list value)
                acc = b.target.id
                if acc not in env or any(isinstance(n, ast.Name) and n.id == acc for n in ast.walk(b.value)):
                    _bad(s, "accumulator must be an existing sequence not mentioned in the added expression")
                aname, aty = env[acc]
                aty = resolve(aty)
                if not (aty == "bytes" or (isinstance(aty, tuple) and aty[0] == "list")):
                    _bad(s, "`acc += e` in a loop is supported for bytes / lists only")
                n = self.range_arg(s.iter, env)
                m = self.range_map(s.target.id, b.value, n, env, s)
                et = resolve(m.ty)[1]
                t = unify(aty, et, s)
                env2, cname = self.assign(self.unbind(env, [s.target.id]), acc, t, s)
                d, ty, p = self.block(rest, env2, final)
                text = "(%s ++ (py_concat %s))" % (aname, m.text)
                pre = conj(m.conds + (["(let %s := %s in %s)" % (cname, text, p)] if p != "True" else []))
                return "let %s := %s in\n%s" % (cname, text, d), ty, pre
            if not (isinstance(b, ast.Expr) and isinstance(b.value, ast.Call) and isinstance(b.value.func, ast.Attribute)
                    and b.value.func.attr == "append" and isinstance(b.value.func.value, ast.Name)
                    and len(b.value.args) == 1 and not b.value.keywords):
                _bad(s, "for body must be a single `acc.append(expr)`")
            acc = b.value.func.value.id
            if acc not in env or any(isinstance(n, ast.Name) and n.id == acc for n in ast.walk(b.value.args[0])):
                _bad(s, "accumulator must be an existing list not mentioned in the appended expression")
            aname, aty = env[acc]
            aty = resolve(aty)
            if not (isinstance(aty, tuple) and aty[0] == "list"):
                _bad(s, "accumulator is not a list")
            n = self.range_arg(s.iter, env)
            m = self.range_map(s.target.id, b.value.args[0], n, env, s)
            t = unify(aty, m.ty, s)
            env2, cname = self.assign(self.unbind(env, [s.target.id]), acc, t, s)
            d, ty, p = self.block(rest, env2, final)
            text = "(%s ++ %s)" % (aname, m.text)
            pre = conj(m.conds + (["(let %s := %s in %s)" % (cname, text, p)] if p != "True" else []))
            return "let %s := %s in\n%s" % (cname, text, d), ty, pre
        if isinstance(s, ast.If):
            c = self.expr(s.test, env)
            if resolve(c.ty) != "bool":
                _bad(s, "condition is not a boolean")
            if self.has_return(s.body) or self.has_return(s.orelse):
                # a branch may leave the function: the continuation is duplicated into both branches
                d1, t1, p1 = self.block(list(s.body) + rest, env, final)
                d2, t2, p2 = self.block(list(s.orelse) + rest, env, final)
                t = unify(t1, t2, s)
                pre = conj(c.conds + (["(if %s then %s else %s)" % (c.text, p1, p2)] if (p1, p2) != ("True", "True") else []))
                return "if %s then\n%s\nelse\n%s" % (c.text, _ind(d1), _ind(d2)), t, pre
            # no return inside: the branches only (re)bind locals -> tuple of the live ones
            a1, a2 = self.assigned(s.body), self.assigned(s.orelse)
            live = [n for n in a1 + [x for x in a2 if x not in a1]
                    if n in env or (n in a1 and n in a2)]
            gone = [n for n in a1 + a2 if n not in live]
            if not live:
                _bad(s, "if statement without effect on any local that is defined afterwards")
            types = {}
            def fin(e2, key):
                vs = []
                for n in live:
                    cname, ty = e2[n]
                    types.setdefault(n, []).append(ty)
                    vs.append(cname)
                return (vs[0] if len(vs) == 1 else "(" + ", ".join(vs) + ")"), None, "True"
            d1, _t, p1 = self.block(list(s.body), env, lambda e2: fin(e2, 1))
            d2, _t, p2 = self.block(list(s.orelse), env, lambda e2: fin(e2, 2))
            env2 = self.unbind(self.kill(env, a1 + a2), gone)
            names = []
            for n in live:
                ta, tb = types[n]
                t = unify(ta, tb, s)
                if isinstance(resolve(t), tuple) and resolve(t)[0] == "lit":
                    _bad(s, "internal: unsettled literal")
                if resolve(ta) != resolve(tb):
                    _bad(s, "local %r has different types in the two branches (%r / %r)" % (n, resolve(ta), resolve(tb)))
                env2, cname = self.assign(env2, n, t, s)
                names.append(cname)
            pat = names[0] if len(names) == 1 else "'(" + ", ".join(names) + ")"
            ifx = "if %s then\n%s\nelse\n%s" % (c.text, _ind(d1), _ind(d2))
            d, ty, p = self.block(rest, env2, final)
            pre_parts = list(c.conds)
            if (p1, p2) != ("True", "True"):
                pre_parts.append("(if %s then %s else %s)" % (c.text, p1, p2))
            if p != "True":
                pre_parts.append("(let %s :=\n%s in %s)" % (pat, _ind(ifx), p))
            return "let %s :=\n%s in\n%s" % (pat, _ind(ifx), d), ty, conj(pre_parts)
        _bad(s, "statement outside the grammar")


def _ind(s):
    return "\n".join("  " + l for l in s.splitlines())


# ---------------------------------------------------------------------------
# locating source
# ---------------------------------------------------------------------------

def find_function(tree, qualname):
    node = tree
    for part in qualname.split("."):
        nxt = [n for n in getattr(node, "body", []) if isinstance(n, (ast.FunctionDef, ast.ClassDef)) and n.name == part]
        if len(nxt) != 1:
            raise Unsupported("%s: %d definitions of %r" % (qualname, len(nxt), part))
        node = nxt[0]
    if not isinstance(node, ast.FunctionDef):
        raise Unsupported("%s is not a function" % qualname)
    return node


def _unp(n):
    return ast.unparse(n)


def _assignments(fn, target):
    out = []
    for n in ast.walk(fn):
        if isinstance(n, ast.Assign) and len(n.targets) == 1 and _unp(n.targets[0]) == target:
            out.append(n)
        elif isinstance(n, ast.AugAssign) and _unp(n.target) == target:
            out.append(n)
    out.sort(key=lambda n: (n.lineno, n.col_offset))
    return out


def _pick(cands, sel, what):
    if "nth" in sel:
        if sel["nth"] >= len(cands):
            raise Unsupported("selector %r: only %d matches for %s" % (sel, len(cands), what))
        return cands[sel["nth"]]
    if len(cands) != 1:
        raise Unsupported("selector %r: %d matches for %s (must be unique)" % (sel, len(cands), what))
    return cands[0]


def select_expr(fn, sel):
    """The expression node named by an expr-mode selector (fail closed)."""
    if "rhs_of" in sel:
        n = _pick(_assignments(fn, sel["rhs_of"]), sel, "assignment to " + sel["rhs_of"])
        if isinstance(n, ast.AugAssign):
            e = ast.BinOp(left=ast.parse(_unp(n.target), mode="eval").body, op=n.op, right=n.value)
            ast.copy_location(e, n)
            ast.fix_missing_locations(e)
            return e, n
        return n.value, n
    if "test_enclosing" in sel:
        a = _pick(_assignments(fn, sel["test_enclosing"]), sel, "assignment to " + sel["test_enclosing"])
        parents = {}
        for p in ast.walk(fn):
            for c in ast.iter_child_nodes(p):
                parents[c] = p
        cur, up = a, sel.get("up", 0)
        while cur in parents:
            par = parents[cur]
            if isinstance(par, (ast.If, ast.While)) and cur is not par.test:
                if up == 0:
                    return par.test, par.test
                up -= 1
            cur = par
        raise Unsupported("selector %r: no enclosing if" % (sel,))
    if "test" in sel:
        # the test of the nth `if` / `while` statement of the function, in source order
        kind = {"If": ast.If, "While": ast.While}.get(sel["test"])
        if kind is None:
            raise Unsupported("selector %r: test of what?" % (sel,))
        nodes = sorted((n for n in ast.walk(fn) if isinstance(n, kind)), key=lambda n: (n.lineno, n.col_offset))
        n = _pick(nodes, sel, sel["test"] + " statements")
        return n.test, n.test
    if "test_on" in sel:
        # the test of the `if` / `while` statement(s) whose test mentions the given name
        nodes = sorted((n for n in ast.walk(fn) if isinstance(n, (ast.If, ast.While))
                        and any(isinstance(x, ast.Name) and x.id == sel["test_on"] for x in ast.walk(n.test))),
                       key=lambda n: (n.lineno, n.col_offset))
        n = _pick(nodes, sel, "tests mentioning " + sel["test_on"])
        return n.test, n.test
    if "arg_of" in sel:
        calls = [n for n in ast.walk(fn) if isinstance(n, ast.Call) and _unp(n.func) == sel["arg_of"]]
        calls.sort(key=lambda n: (n.lineno, n.col_offset))
        c = _pick(calls, sel, "call of " + sel["arg_of"])
        j = sel.get("index", 0)
        if j >= len(c.args):
            raise Unsupported("selector %r: call has %d positional arguments" % (sel, len(c.args)))
        return c.args[j], c.args[j]
    raise Unsupported("unknown selector %r" % (sel,))


def prefix_stmts(fn, spec):
    """Top-level statements from the first one matching spec["start_at"] (default: the first) up to,
    excluding, the first later one matching spec["stop_at"]."""
    def hit(s, pat):
        return _unp(s).startswith(pat[5:]) if pat.startswith("text:") else type(s).__name__ == pat
    stop, start = spec["stop_at"], spec.get("start_at")
    out, started = [], start is None
    for s in fn.body:
        if not started:
            if hit(s, start):
                started = True
            else:
                continue
        elif hit(s, stop):
            return out, s
        out.append(s)
    raise Unsupported("prefix mode: no top-level statements match start_at=%r / stop_at=%r" % (start, stop))


def check_globals(tree, fn, used, qualname):
    """The names the translation read as builtins / struct functions must mean that in this module:
    not rebound at module level, in an enclosing class, or as a parameter of the function."""
    bound, from_struct, import_struct = set(), set(), False
    for n in tree.body:
        if isinstance(n, ast.ImportFrom):
            for a in n.names:
                nm = a.asname or a.name
                if n.module == "struct" and a.asname is None:
                    from_struct.add(nm)
                else:
                    bound.add(nm)
        elif isinstance(n, ast.Import):
            for a in n.names:
                if a.name == "struct" and a.asname is None:
                    import_struct = True
                else:
                    bound.add((a.asname or a.name).split(".")[0])
        elif isinstance(n, (ast.FunctionDef, ast.ClassDef, ast.AsyncFunctionDef)):
            bound.add(n.name)
        elif isinstance(n, (ast.Assign, ast.AnnAssign, ast.AugAssign)):
            for t in (n.targets if isinstance(n, ast.Assign) else [n.target]):
                for x in ast.walk(t):
                    if isinstance(x, ast.Name):
                        bound.add(x.id)
    params = {a.arg for a in fn.args.args + fn.args.posonlyargs + fn.args.kwonlyargs}
    for u in sorted(x for x in used if x):
        if u in ("pack", "unpack"):
            if u not in from_struct or u in bound or u in params:
                raise Unsupported("%s: `%s` is not (only) `from struct import %s` in this module" % (qualname, u, u))
        elif u in ("struct.pack", "struct.unpack"):
            if not import_struct or "struct" in bound or "struct" in params:
                raise Unsupported("%s: `struct` is not (only) `import struct` in this module" % qualname)
        elif u in bound or u in params:
            raise Unsupported("%s: builtin `%s` is rebound in this module / by a parameter" % (qualname, u))


def locate(path, qualname, spec):
    """-> (mode, function node, payload, (first line, last line), source bytes)."""
    src = open(path, "rb").read()
    tree = ast.parse(src, filename=path)
    fn = find_function(tree, qualname)
    fn._module_tree = tree
    mode = spec.get("mode", "function")
    if mode == "function":
        return mode, fn, fn.body, (fn.lineno, fn.end_lineno), src
    if mode == "prefix":
        stmts, stop = prefix_stmts(fn, spec)
        first = stmts[0].lineno if (spec.get("start_at") and stmts) else fn.lineno
        return mode, fn, stmts, (first, stop.lineno - 1), src
    if mode == "expr":
        e, where = select_expr(fn, spec["select"])
        return mode, fn, e, (where.lineno, where.end_lineno), src
    raise Unsupported("unknown mode %r" % mode)


# ---------------------------------------------------------------------------
# entry points
# ---------------------------------------------------------------------------

def translate_info(path, qualname, spec, relpath=None):
    """-> (gallina text, info dict)."""
    mode, fn, payload, (l0, l1), src = locate(path, qualname, spec)
    tr = Tr(spec)
    env = tr.initial_env()      # every other name must be assigned before use
    if mode == "function":
        if fn.args.vararg or fn.args.kwarg or fn.args.kwonlyargs or fn.decorator_list:
            raise Unsupported("%s: *args/**kwargs/keyword-only parameters/decorators" % qualname)
        def final(_env):
            raise Unsupported("%s: a path reaches the end of the function without `return`" % qualname)
        d, ty, pre = tr.block(list(payload), env, final)
    elif mode == "prefix":
        rets = spec["returns"]
        def final(e2):
            vs = []
            for n in rets:
                if n not in e2:
                    raise Unsupported("%s: returned local %r is not defined at the cut" % (qualname, n))
                vs.append(e2[n])
            if len(vs) == 1:
                return vs[0][0], vs[0][1], "True"
            return "(" + ", ".join(v[0] for v in vs) + ")", ("tuple", tuple(v[1] for v in vs)), "True"
        if Tr.has_return(payload):
            raise Unsupported("%s: return inside the translated prefix" % qualname)
        d, ty, pre = tr.block(list(payload), env, final)
    else:
        v = tr.settle(tr.expr(payload, env), payload)
        d, ty, pre = v.text, v.ty, conj(v.conds)
    check_globals(fn._module_tree, fn, tr.used, qualname)
    for tv in tr.tvars:
        if isinstance(resolve(tv), TVar):
            resolve(tv).ref = "N"   # a `[]` whose elements are never constrained (dead value): any type will do
    def fill(text):
        return re.sub(r"<<T(\d+)>>", lambda m: _par(render_type(tr.tvars[int(m.group(1))])), text)
    d, pre = fill(d), fill(pre)
    params = " ".join("(%s : %s)" % (c, t) for _k, c, t, _n, _x in tr.inputs)
    name = "gen_" + spec["name"]
    rty = render_type(ty)
    if "ret" in spec and spec["ret"] != rty:
        raise Unsupported("%s: inferred result type %s, expected %s" % (qualname, rty, spec["ret"]))
    lines = src.splitlines(keepends=True)
    seg = b"".join(lines[l0 - 1:l1])
    rel = relpath or path
    sha = hashlib.sha256(seg).hexdigest()
    head = "(* source: %s lines %d-%d sha256 %s ; %s %s%s *)\n" % (
        rel, l0, l1, sha, mode, qualname,
        (" " + repr(spec.get("select") or spec.get("stop_at"))) if mode != "function" else "")
    text = (head + "Definition %s %s : %s :=\n%s.\n\n" % (name, params, rty, _ind(d))
            + "(* domain on which the Gallina operations above agree with Python (PyOps.v) *)\n"
            + "Definition %s_pre %s : Prop :=\n%s.\n" % (name, params, _ind(pre)))
    info = {"name": name, "qualname": qualname, "file": rel, "lines": [l0, l1], "sha256": sha, "mode": mode,
            "params": [[c, t] for _k, c, t, _n, _x in tr.inputs], "ret": rty}
    return text, info


def translate(path, qualname, spec):
    return translate_info(path, qualname, spec)[0]


def module_text(title, parts):
    return ("(** %s\n    Generated by harness/translators/pyfun.py from the Python source named above each\n"
            "    definition — do not edit; regenerated and compared on every run. *)\n" % title
            + PYOPS_IMPORT + "\n" + "\n".join(parts))


def strip_headers(text):
    """The text without the `(* source: ... *)` lines (line numbers and hashes move when unrelated
    code changes) — this is what is compared with the committed snapshot."""
    return "\n".join(l for l in text.splitlines() if not l.startswith("(* source: ")).strip() + "\n"
