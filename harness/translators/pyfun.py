"""Fail-closed Python `ast` -> Gallina translator for PURE integer/bytes functions.

    translate(path, qualname, spec) -> gallina text      (python3 stdlib only)

The supported grammar, the typing rules and the semantic assumptions are described in
/verif/design/PYTRANS.md; the Gallina operations are in coq/theories/Lib/PyOps.v.  Any
AST node outside the grammar raises `Unsupported` (the caller reports it; nothing is ever
silently skipped).

spec = {
  "name":   "get_fragments",                      # emits gen_<name> and gen_<name>_pre
  "inputs": [[<python expr text>, <coq name>, <coq type>], ...],
            # every occurrence of the expression (compared after ast.unparse) is the
            # parameter; type in nat | N | bool | bytes.  e.g. ["self.state.remote_mtu","mtu","nat"]
  "mode":   "function" (default) | "prefix" | "expr",
  # prefix: top-level statements up to (excluding) the first one matching "stop_at"
  #         (a node class name such as "For", or "text:<prefix of ast.unparse(stmt)>");
  #         returns the tuple of locals named in "returns"
  "stop_at": "For", "returns": ["nb_chunks", "chunk_size"],
  # expr: one expression of the function body, picked by "select":
  #   {"rhs_of": "<target text>", "nth": k}          right-hand side of the k-th assignment
  #                                                  (AugAssign x op= e gives x op e)
  #   {"test_enclosing": "<target text>", "nth": k, "up": u}  test of the innermost `if`/`while`
  #                                                  around it (u levels further out)
  #   {"test": "If" | "While", "nth": k}             test of the k-th if / while statement
  #   {"test_on": "<name>", "nth": k}                test of the if / while whose test mentions the name
  #   {"arg_of": "<callee text>", "nth": k, "index": j}  j-th argument of the k-th call
  #   (without "nth" the match must be unique)
  "select": {...},
  "ignore_calls": ["logger.debug"],   # expression statements calling these are skipped
  "bind": ["$v = $v - 1", ...],       # patterns with metavariables naming locals by their ROLE (exactly one match in the
                                      # function or, failing that, its callees); $v may be used in selectors / inputs
}
prefix bounds (start_at / stop_at): a node class name, "text:<prefix>", or "assign:<name>" (the statement binding it).

Before selection / translation the function is PREPARED (see design/PYTRANS.md, "Robustness against
behaviour-preserving refactorings"): same-module / same-class helpers are inlined, module / class constants
are resolved, guard clauses, loop/comprehension shapes and test polarity are brought to normal forms, and
single-assignment locals bound outside an addressed fragment are replaced by their definitions.  The
prepared AST is also what the live side of the differential validation runs.
"""
import ast
import copy
import hashlib
import os
import re

PYOPS_IMPORT = ("From Coq Require Import List NArith Arith Bool.\n"
                "From Whad Require Import Lib.Bytes Lib.PyOps.\n"
                "Import ListNotations.\n")

RESERVED = set("""as at cofix else end exists exists2 fix for forall fun if IF in let match mod return
Set Prop SProp Type then using where with by length map seq nth firstn skipn app bytes slice le16 le32
nlen true false list nat N bool pair fst snd S O cases""".split())


class Unsupported(Exception):
    pass


def _bad(node, why):
    ln = getattr(node, "lineno", "?")
    raise Unsupported("line %s: %s: %s" % (ln, why, ast.dump(node)[:160] if isinstance(node, ast.AST) else node))


# ---------------------------------------------------------------------------
# types
# ---------------------------------------------------------------------------

class TVar:
    def __init__(self):
        self.ref = None


def resolve(t):
    while isinstance(t, TVar) and t.ref is not None:
        t = t.ref
    if isinstance(t, tuple) and t[0] == "list":
        return ("list", resolve(t[1]))
    if isinstance(t, tuple) and t[0] == "tuple":
        return ("tuple", tuple(resolve(x) for x in t[1]))
    return t


def is_int(t):
    return t in ("nat", "N") or (isinstance(t, tuple) and t[0] == "lit")


def render_type(t):
    t = resolve(t)
    if isinstance(t, TVar):
        raise Unsupported("the element type of a list is never determined")
    if t in ("nat", "N", "bool", "bytes"):
        return t
    if t[0] == "lit":
        return "nat" if t[1] < 5000 else "N"
    if t[0] == "list":
        return "list %s" % _par(render_type(t[1]))
    if t[0] == "tuple":
        return "(" + " * ".join(_par(render_type(x)) for x in t[1]) + ")"
    raise Unsupported("type %r" % (t,))


def _par(s):
    return s if re.match(r"^[A-Za-z0-9_.]+$", s) or s.startswith("(") else "(" + s + ")"


def unify(a, b, node):
    """Most specific common type of two values that must have the same type (branches of an
    if, elements of a list).  Returns the type; TVars are bound."""
    a, b = resolve(a), resolve(b)
    if isinstance(a, TVar):
        a.ref = b
        return b
    if isinstance(b, TVar):
        b.ref = a
        return a
    if a == b:
        return a
    if is_int(a) and is_int(b):
        if "N" in (a, b):
            return "N"
        if "nat" in (a, b):
            return "nat"
        return ("lit", max(a[1], b[1]))
    if a[0] == "list" and b[0] == "list":
        return ("list", unify(a[1], b[1], node))
    if a[0] == "tuple" and b[0] == "tuple" and len(a[1]) == len(b[1]):
        return ("tuple", tuple(unify(x, y, node) for x, y in zip(a[1], b[1])))
    _bad(node, "incompatible types %r / %r" % (a, b))


class V:
    """A translated expression: Coq text, type, side conditions (Coq Props, in scope here)."""
    def __init__(self, text, ty, conds=()):
        self.text, self.ty, self.conds = text, ty, list(conds)


def coerce(v, want, node):
    """Text of v at type `want` (lossless coercions only: literal -> nat/N, nat -> N, N -> nat)."""
    t, want = resolve(v.ty), resolve(want)
    if isinstance(t, tuple) and t[0] == "lit":
        n = t[1]
        if want == "nat":
            return ("%d%%nat" % n) if n < 5000 else "(N.to_nat %d%%N)" % n
        if want == "N":
            return "%d%%N" % n
        if isinstance(want, tuple) and want[0] == "lit":
            return coerce(v, "nat" if n < 5000 else "N", node)
        _bad(node, "integer literal where %r is expected" % (want,))
    if t == want:
        return v.text
    if t == "nat" and want == "N":
        return "(N.of_nat %s)" % v.text
    if t == "N" and want == "nat":
        return "(N.to_nat %s)" % v.text
    if isinstance(t, tuple) and isinstance(want, tuple) and t[0] == want[0] == "list":
        te, we = resolve(t[1]), resolve(want[1])
        if te == we or isinstance(te, TVar) or isinstance(we, TVar):
            unify(t, want, node)
            return v.text
    if isinstance(t, TVar) or isinstance(want, TVar):
        unify(t, want, node)
        return v.text
    _bad(node, "cannot use a value of type %r as %r" % (t, want))


def conj(conds):
    seen, out = set(), []
    for c in conds:
        if c != "True" and c not in seen:
            seen.add(c)
            out.append(c)
    conds = out
    if not conds:
        return "True"
    if len(conds) == 1:
        return conds[0]
    return "(" + " /\\ ".join(conds) + ")"


PACK = {"<H": 2, "<I": 4, "<L": 4, "<Q": 8, "B": 1, "<B": 1}
FIELD = {"B": 1, "H": 2, "I": 4, "L": 4, "Q": 8}


def parse_fmt(fmt):
    """struct format of unsigned fields -> ('le' | 'be', [sizes]) or None.  '<' little endian, '>' / '!'
    big endian (no padding); without a prefix (native order AND alignment) only one field, or only
    bytes, is accepted and the host is assumed little endian (recorded in design/PYTRANS.md)."""
    if not isinstance(fmt, str) or not fmt:
        return None
    order, body = "le", fmt
    if fmt[0] in "<>!=":
        if fmt[0] == "=":
            return None
        order, body = ("le" if fmt[0] == "<" else "be"), fmt[1:]
        native = False
    else:
        native = True
    if not body or any(ch not in FIELD for ch in body):
        return None
    sizes = [FIELD[ch] for ch in body]
    if native and len(sizes) > 1 and any(n != 1 for n in sizes):
        return None
    return order, sizes


# ---------------------------------------------------------------------------
# the translator of one function / fragment
# ---------------------------------------------------------------------------

class Tr:
    def __init__(self, spec, fn=None):
        self.spec = spec
        self.fn = fn
        self.mi = getattr(fn, "_mi", None)
        self.cls = getattr(fn, "_cls", None)
        self.locals = set()
        if fn is not None:
            self.locals = fn_locals(fn) | {x for c in getattr(fn, "_callees", ()) for x in fn_locals(c)}
        self.consts_used = {}      # module / class constants that were inlined: name -> source text
        self.inlined = set(getattr(fn, "_inlined", ()))   # helpers inlined (AST level, and while translating)
        self.const_stack = []
        self.inline_stack = []
        self.substituted = set()   # single-assignment locals replaced by their (untranslatable) definition
        self._single = {}
        self.inputs = []           # (dump key, coq name, type, set of python names mentioned, text)
        for text, cname, ty in spec["inputs"]:
            if ty not in ("nat", "N", "bool", "bytes"):
                raise Unsupported("input type %r" % ty)
            e = ast.parse(text, mode="eval").body
            names = {n.id for n in ast.walk(e) if isinstance(n, ast.Name)}
            self.inputs.append((ast.dump(e), cname, ty, names, text))
        self.ignore_calls = set(spec.get("ignore_calls", ()))
        self.tvars = []            # element types of `[]` literals, filled in at the end
        self.used = {"range"}      # builtins / struct functions the translation relied on

    # -- names -----------------------------------------------------------
    def local_name(self, pyname, node):
        for _k, cname, _t, _names, text in self.inputs:
            if cname == pyname and text != pyname:
                _bad(node, "local %r collides with the Coq name of input %r" % (pyname, text))
        return pyname + "_" if (pyname in RESERVED or pyname.startswith("gen_") or pyname.startswith("py_")) else pyname

    def assign(self, env, pyname, ty, node):
        """Bind a local; invalidate the compound inputs that mention the name."""
        env = self.kill(env, [pyname])
        cname = self.local_name(pyname, node)
        env[pyname] = (cname, ty)
        return env, cname

    def kill(self, env, pynames):
        """Copy of env in which the compound inputs mentioning one of the names are dead."""
        env = dict(env)
        dead = set(env.get("\0dead", ()))
        for k, _c, _t, names, text in self.inputs:
            if not text.isidentifier() and any(n in names for n in pynames):
                dead.add(k)
        env["\0dead"] = dead
        return env

    def unbind(self, env, pynames):
        env = self.kill(env, pynames)
        for n in pynames:
            env.pop(n, None)
        return env

    def initial_env(self):
        """Inputs that are plain python names are ordinary (re-assignable) locals from the start."""
        env = {}
        for _k, cname, ty, _names, text in self.inputs:
            if text.isidentifier():
                env[text] = (cname, ty)
        return env

    def as_input(self, node, env):
        if isinstance(node, ast.Name):
            return None
        k = ast.dump(node)
        for key, cname, ty, _names, text in self.inputs:
            if key == k:
                if key in env.get("\0dead", ()):
                    _bad(node, "input expression %r used after a name it mentions was assigned" % text)
                return V(cname, ty)
        return None

    # -- expressions -------------------------------------------------------
    def int2(self, a, b, node, force=None):
        """Bring two integer values to a common type (nat or N)."""
        ta, tb = resolve(a.ty), resolve(b.ty)
        if not (is_int(ta) and is_int(tb)):
            _bad(node, "integer operands expected, got %r / %r" % (ta, tb))
        t = force or unify(ta, tb, node)
        if isinstance(t, tuple):   # both literals
            t = "nat" if max(ta[1], tb[1]) < 5000 else "N"
        return coerce(a, t, node), coerce(b, t, node), t

    def expr(self, e, env):
        v = self.as_input(e, env)
        if v is not None:
            return v
        if isinstance(e, ast.Attribute):
            v = self.class_const(e, env)
            if v is not None:
                return v
        m = getattr(self, "e_" + type(e).__name__, None)
        if m is None:
            _bad(e, "expression outside the grammar")
        return m(e, env)

    def e_Constant(self, e, env):
        if e.value is True or e.value is False:
            return V("true" if e.value else "false", "bool")
        if isinstance(e.value, int) and e.value >= 0:
            return V(None, ("lit", e.value))
        if isinstance(e.value, bytes):
            if not e.value:
                return V("(@nil N)", "bytes")
            return V("[" + "; ".join("%d%%N" % b for b in e.value) + "]", "bytes")
        _bad(e, "constant outside the grammar")

    def e_Name(self, e, env):
        if e.id in env:
            cname, ty = env[e.id]
            return V(cname, ty)
        v = self.module_const(e, env)
        if v is not None:
            return v
        _bad(e, "name is neither an input, an assigned local nor a module constant")

    def single_defs(self):
        f = self.inline_stack[-1] if self.inline_stack else self.fn
        if f is None:
            return {}
        if id(f) not in self._single:
            self._single[id(f)] = single_assigned(f, {t for _k, _c, _ty, _n, t in self.inputs if t.isidentifier()})
        return self._single[id(f)]

    # -- constants --------------------------------------------------------------
    @staticmethod
    def is_const_expr(n):
        """Literal ints / bytes, bytes([...]) of them, arithmetic and other constant names."""
        if isinstance(n, ast.Constant):
            return (isinstance(n.value, int) and not isinstance(n.value, bool) and n.value >= 0) or isinstance(n.value, bytes)
        if isinstance(n, ast.Name):
            return True                    # checked when it is resolved in turn
        if isinstance(n, ast.BinOp):
            return Tr.is_const_expr(n.left) and Tr.is_const_expr(n.right)
        if isinstance(n, (ast.List, ast.Tuple)):
            return all(Tr.is_const_expr(x) for x in n.elts)
        if isinstance(n, ast.Call) and isinstance(n.func, ast.Name) and n.func.id == "bytes" and len(n.args) == 1 and not n.keywords:
            return isinstance(n.args[0], ast.List) and Tr.is_const_expr(n.args[0])
        return False

    def const_value(self, key, value, node):
        if not self.is_const_expr(value):
            _bad(node, "%s is bound once at top level but not to a constant expression (%s)" % (key, _unp(value)[:60]))
        if key in self.const_stack:
            _bad(node, "cyclic constant %s" % key)
        self.const_stack.append(key)
        try:
            v = self.expr(value, {})       # constants only see other constants
        finally:
            self.const_stack.pop()
        self.consts_used[key] = _unp(value)
        return v

    def module_const(self, e, env):
        """A name bound exactly once at module level, by `NAME = <constant expression>`, and not local to
        the function (nor to the helpers it calls): inlined as its value."""
        if self.mi is None or e.id in self.locals or e.id not in self.mi.consts:
            return None
        return self.const_value(e.id, self.mi.consts[e.id], e)

    def class_const(self, e, env):
        """self.NAME / cls.NAME / Class.NAME where NAME is bound exactly once in the class body to a constant
        expression and never assigned through an attribute anywhere in the module."""
        if self.mi is None or not isinstance(e.value, ast.Name):
            return None
        base = e.value.id
        owner = None
        if base in ("self", "cls") and self.cls is not None and base not in (self.locals - {"self", "cls"}) and base not in env:
            owner = self.cls
        elif base in self.mi.classes and base not in self.locals and base not in env:
            owner = self.mi.classes[base]
        if owner is None:
            return None
        consts = self.mi.class_consts(owner)
        if e.attr not in consts:
            return None
        for n in ast.walk(self.mi.tree):
            if isinstance(n, ast.Attribute) and n.attr == e.attr and isinstance(n.ctx, (ast.Store, ast.Del)):
                _bad(e, "attribute %s is assigned somewhere in the module: not a constant" % e.attr)
        return self.const_value("%s.%s" % (owner.name, e.attr), consts[e.attr], e)

    def e_BinOp(self, e, env):
        a, b = self.expr(e.left, env), self.expr(e.right, env)
        conds = a.conds + b.conds
        ta, tb = resolve(a.ty), resolve(b.ty)
        op = type(e.op).__name__
        if op == "Add" and not (is_int(ta) and is_int(tb)):
            if ta == tb == "bytes":
                return V("(%s ++ %s)" % (a.text, b.text), "bytes", conds)
            if isinstance(ta, tuple) and isinstance(tb, tuple) and ta[0] == tb[0] == "list":
                t = unify(ta, tb, e)
                return V("(%s ++ %s)" % (a.text, b.text), t, conds)
            _bad(e, "+ on %r / %r" % (ta, tb))
        if isinstance(ta, tuple) and isinstance(tb, tuple) and ta[0] == tb[0] == "lit" and op in ("Add", "Mult", "Sub"):
            n = {"Add": ta[1] + tb[1], "Mult": ta[1] * tb[1], "Sub": ta[1] - tb[1]}[op]
            if n < 0:
                _bad(e, "negative constant")
            return V(None, ("lit", n), conds)
        if op in ("Add", "Sub", "Mult", "FloorDiv", "Mod"):
            x, y, t = self.int2(a, b, e)
            sc = "%" + t
            if op == "Add":
                return V("(%s + %s)%s" % (x, y, sc), t, conds)
            if op == "Mult":
                return V("(%s * %s)%s" % (x, y, sc), t, conds)
            if op == "Sub":
                return V("(%s - %s)%s" % (x, y, sc), t, conds + ["(%s <= %s)%s" % (y, x, sc)])
            fn = {"FloorDiv": "py_floordiv", "Mod": "py_mod"}[op] + ("_N" if t == "N" else "")
            return V("(%s %s %s)" % (fn, x, y), t, conds + ["(0 < %s)%s" % (y, sc)])
        if op in ("BitAnd", "BitOr", "BitXor", "RShift", "LShift"):
            x, y, t = self.int2(a, b, e, force="N")
            fn = {"BitAnd": "N.land", "BitOr": "N.lor", "BitXor": "N.lxor", "RShift": "N.shiftr", "LShift": "N.shiftl"}[op]
            return V("(%s %s %s)" % (fn, x, y), "N", conds)
        _bad(e, "operator outside the grammar")

    def e_Compare(self, e, env):
        if len(e.ops) != 1:
            _bad(e, "chained comparison")
        if isinstance(e.ops[0], (ast.In, ast.NotIn)) and isinstance(e.comparators[0], (ast.Tuple, ast.List, ast.Set)) and e.comparators[0].elts:
            # a in (x, y)  ==  a == x or a == y
            alts = [ast.copy_location(ast.Compare(left=e.left, ops=[ast.Eq()], comparators=[x]), e) for x in e.comparators[0].elts]
            d = alts[0] if len(alts) == 1 else ast.copy_location(ast.BoolOp(op=ast.Or(), values=alts), e)
            v = self.expr(d, env)
            return v if isinstance(e.ops[0], ast.In) else V("(negb %s)" % v.text, "bool", v.conds)
        a, b = self.expr(e.left, env), self.expr(e.comparators[0], env)
        conds = a.conds + b.conds
        ta, tb = resolve(a.ty), resolve(b.ty)
        op = type(e.ops[0]).__name__
        if ta == tb == "bytes" and op in ("Eq", "NotEq"):
            s = "(bytes_eqb %s %s)" % (a.text, b.text)
            return V(s if op == "Eq" else "(negb %s)" % s, "bool", conds)
        if ta == tb == "bool" and op in ("Eq", "NotEq"):
            s = "(Bool.eqb %s %s)" % (a.text, b.text)
            return V(s if op == "Eq" else "(negb %s)" % s, "bool", conds)
        x, y, t = self.int2(a, b, e)
        sc = "%" + t
        if op == "Lt":
            s = "(%s <? %s)%s" % (x, y, sc)
        elif op == "LtE":
            s = "(%s <=? %s)%s" % (x, y, sc)
        elif op == "Gt":
            s = "(%s <? %s)%s" % (y, x, sc)
        elif op == "GtE":
            s = "(%s <=? %s)%s" % (y, x, sc)
        elif op == "Eq":
            s = "(%s =? %s)%s" % (x, y, sc)
        elif op == "NotEq":
            s = "(negb (%s =? %s)%s)" % (x, y, sc)
        else:
            _bad(e, "comparison outside the grammar")
        return V(s, "bool", conds)

    def e_BoolOp(self, e, env):
        vs = [self.expr(x, env) for x in e.values]
        for v, x in zip(vs, e.values):
            if resolve(v.ty) != "bool":
                _bad(x, "and/or on a non-boolean")
        isand = isinstance(e.op, ast.And)
        text, conds = vs[0].text, list(vs[0].conds)
        for v in vs[1:]:
            if v.conds:   # evaluated only when the left part does not short-circuit
                conds.append("(%s = %s -> %s)" % (text, "true" if isand else "false", conj(v.conds)))
            text = "(%s %s %s)" % (text, "&&" if isand else "||", v.text)
        return V(text, "bool", conds)

    def e_UnaryOp(self, e, env):
        if isinstance(e.op, ast.Not):
            v = self.expr(e.operand, env)
            if resolve(v.ty) != "bool":
                _bad(e, "not on a non-boolean")
            return V("(negb %s)" % v.text, "bool", v.conds)
        _bad(e, "unary operator outside the grammar")

    def e_IfExp(self, e, env):
        c, a, b = self.expr(e.test, env), self.expr(e.body, env), self.expr(e.orelse, env)
        if resolve(c.ty) != "bool":
            _bad(e, "condition is not a boolean")
        t = unify(a.ty, b.ty, e)
        if isinstance(t, tuple) and t[0] == "lit":
            t = "nat" if t[1] < 5000 else "N"
        conds = list(c.conds)
        if a.conds or b.conds:
            conds.append("(if %s then %s else %s)" % (c.text, conj(a.conds), conj(b.conds)))
        return V("(if %s then %s else %s)" % (c.text, coerce(a, t, e), coerce(b, t, e)), t, conds)

    def e_List(self, e, env):
        if not e.elts:
            tv = TVar()
            self.tvars.append(tv)
            return V("(@nil <<T%d>>)" % (len(self.tvars) - 1), ("list", tv))
        vs = [self.expr(x, env) for x in e.elts]
        conds = [c for v in vs for c in v.conds]
        t = vs[0].ty
        for v in vs[1:]:
            t = unify(t, v.ty, e)
        t = resolve(t)
        if is_int(t):
            t = "N"            # a list of ints is a list of N (it can only become bytes)
        return V("[" + "; ".join(coerce(v, t, e) for v in vs) + "]", ("list", t), conds)

    def e_Tuple(self, e, env):
        vs = [self.expr(x, env) for x in e.elts]
        if len(vs) < 2:
            _bad(e, "tuple of fewer than two elements")
        vs = [self.settle(v, x) for v, x in zip(vs, e.elts)]
        return V("(" + ", ".join(v.text for v in vs) + ")", ("tuple", tuple(v.ty for v in vs)),
                 [c for v in vs for c in v.conds])

    def settle(self, v, node):
        """A literal on its own becomes nat (or N when large)."""
        t = resolve(v.ty)
        if isinstance(t, tuple) and t[0] == "lit":
            t2 = "nat" if t[1] < 5000 else "N"
            return V(coerce(v, t2, node), t2, v.conds)
        return v

    def e_ListComp(self, e, env):
        if len(e.generators) != 1:
            _bad(e, "nested comprehension")
        g = e.generators[0]
        if g.ifs or g.is_async or not isinstance(g.target, ast.Name):
            _bad(e, "comprehension outside the grammar")
        n = self.range_arg(g.iter, env)
        return self.range_map(g.target.id, e.elt, n, env, e)

    def range_arg(self, it, env):
        if not (isinstance(it, ast.Call) and isinstance(it.func, ast.Name) and it.func.id == "range"
                and len(it.args) == 1 and not it.keywords and "range" not in env):
            _bad(it, "only `range(n)` can be iterated")
        n = self.expr(it.args[0], env)
        if not is_int(resolve(n.ty)):
            _bad(it, "range of a non-integer")
        return V(coerce(n, "nat", it), "nat", n.conds)

    def range_map(self, ivar, elt, n, env, node):
        env2, iname = self.assign(env, ivar, "nat", node)
        body = self.settle(self.expr(elt, env2), elt)
        conds = list(n.conds)
        if body.conds:
            conds.append("(forall %s : nat, (%s < %s)%%nat -> %s)" % (iname, iname, n.text, conj(body.conds)))
        return V("(py_range_map (fun %s : nat => %s) %s)" % (iname, body.text, n.text), ("list", body.ty), conds)

    def e_Subscript(self, e, env):
        # unpack(fmt, b)[k]
        if (isinstance(e.value, ast.Call) and self.callee(e.value) in ("unpack", "struct.unpack")
                and isinstance(e.slice, ast.Constant) and isinstance(e.slice.value, int) and not isinstance(e.slice.value, bool)):
            return self.unpack(e.value, env, e.slice.value)
        v = self.expr(e.value, env)
        t = resolve(v.ty)
        if not (t == "bytes" or (isinstance(t, tuple) and t[0] == "list")):
            _bad(e, "subscript of a non-sequence")
        if isinstance(e.slice, ast.Slice):
            if e.slice.step is not None:
                _bad(e, "slice step")
            def neg(b):
                return isinstance(b, ast.UnaryOp) and isinstance(b.op, ast.USub)
            if neg(e.slice.lower) or neg(e.slice.upper):
                # x[:-m] and x[-m:] (m a non-negative int; note x[:-0] == b"" and x[-0:] == x)
                if e.slice.lower is None and neg(e.slice.upper):
                    m, f = self.expr(e.slice.upper.operand, env), "py_slice_to_neg"
                elif e.slice.upper is None and neg(e.slice.lower):
                    m, f = self.expr(e.slice.lower.operand, env), "py_slice_from_neg"
                else:
                    _bad(e, "negative slice bound outside the grammar")
                if not is_int(resolve(m.ty)):
                    _bad(e, "slice bound is not an integer")
                return V("(%s %s %s)" % (f, coerce(m, "nat", e), v.text), t, v.conds + m.conds)
            lo = self.expr(e.slice.lower, env) if e.slice.lower is not None else None
            hi = self.expr(e.slice.upper, env) if e.slice.upper is not None else None
            conds = v.conds + (lo.conds if lo else []) + (hi.conds if hi else [])
            for x, nd in ((lo, e.slice.lower), (hi, e.slice.upper)):
                if x is not None and not is_int(resolve(x.ty)):
                    _bad(nd, "slice bound is not an integer")
            if lo is None and hi is None:
                return V(v.text, t, conds)
            if lo is None:
                return V("(py_slice 0%%nat %s %s)" % (coerce(hi, "nat", e), v.text), t, conds)
            if hi is None:
                return V("(py_slice_from %s %s)" % (coerce(lo, "nat", e), v.text), t, conds)
            return V("(py_slice %s %s %s)" % (coerce(lo, "nat", e), coerce(hi, "nat", e), v.text), t, conds)
        if t != "bytes":
            _bad(e, "indexing is supported on bytes only")
        i = self.expr(e.slice, env)
        if not is_int(resolve(i.ty)):
            _bad(e, "index is not a non-negative integer")
        it = coerce(i, "nat", e)
        return V("(py_index %s %s)" % (it, v.text), "N", v.conds + i.conds + ["(%s < py_len %s)%%nat" % (it, v.text)])

    def unpack(self, c, env, k):
        """unpack(fmt, b)[k] (k an index) or the whole tuple (k None, at least two fields)."""
        self.used.add(self.callee(c))
        pf = parse_fmt(c.args[0].value) if (len(c.args) == 2 and not c.keywords and isinstance(c.args[0], ast.Constant)) else None
        if pf is None:
            _bad(c, "unpack format outside the grammar")
        order, sizes = pf
        b = self.expr(c.args[1], env)
        if resolve(b.ty) != "bytes":
            _bad(c, "unpack of a non-bytes value")
        conds = b.conds + ["(py_len %s = %d)%%nat" % (b.text, sum(sizes))]
        def field(j):
            if len(sizes) == 1:
                piece = b.text
            else:
                off = sum(sizes[:j])
                piece = "(py_slice %d%%nat %d%%nat %s)" % (off, off + sizes[j], b.text)
            return "(py_unpack_%s %s)" % (order, piece)
        if k is not None:
            if not 0 <= k < len(sizes):
                _bad(c, "unpack index out of range")
            return V(field(k), "N", conds)
        if len(sizes) < 2:
            _bad(c, "a one-field unpack is only supported as unpack(fmt, b)[0]")
        return V("(" + ", ".join(field(j) for j in range(len(sizes))) + ")", ("tuple", tuple("N" for _ in sizes)), conds)

    @staticmethod
    def callee(c):
        try:
            return ast.unparse(c.func)
        except Exception:
            return None

    def e_Call(self, e, env):
        fn = self.callee(e)
        v = self.method_call(e, env)
        if v is not None:
            return v
        v = self.inline_call(e, env)
        if v is not None:
            return v
        self.used.add(fn)
        if e.keywords:
            _bad(e, "keyword arguments")
        if fn in ("len", "int", "bytes", "min", "max", "pack", "bytearray") and fn in env:
            _bad(e, "builtin %s is shadowed by a local" % fn)
        if fn == "len" and len(e.args) == 1:
            v = self.expr(e.args[0], env)
            t = resolve(v.ty)
            if not (t == "bytes" or (isinstance(t, tuple) and t[0] == "list")):
                _bad(e, "len of a non-sequence")
            return V("(py_len %s)" % v.text, "nat", v.conds)
        if fn == "int" and len(e.args) == 1:
            a = e.args[0]
            if isinstance(a, ast.BinOp) and isinstance(a.op, ast.Div):
                x, y = self.expr(a.left, env), self.expr(a.right, env)
                xs, ys, t = self.int2(x, y, e)
                f = "py_int_truediv" + ("_N" if t == "N" else "")
                xn = xs if t == "N" else "(N.of_nat %s)" % xs
                yn = ys if t == "N" else "(N.of_nat %s)" % ys
                return V("(%s %s %s)" % (f, xs, ys), t, x.conds + y.conds + ["(py_truediv_ok %s %s)" % (xn, yn)])
            v = self.expr(a, env)
            if is_int(resolve(v.ty)):
                return v
            _bad(e, "int() of a non-integer")
        if fn in ("bytes", "bytearray") and len(e.args) == 1:
            v = self.expr(e.args[0], env)
            t = resolve(v.ty)
            if t == "bytes":
                return V("(py_bytes %s)" % v.text, "bytes", v.conds)
            if isinstance(t, tuple) and t[0] == "list":
                unify(t[1], "N", e)
                return V("(py_bytes %s)" % v.text, "bytes", v.conds + ["(all_bytes %s)" % v.text])
            _bad(e, "bytes() of %r" % (t,))
        if fn in ("min", "max") and len(e.args) == 2:
            x, y = self.expr(e.args[0], env), self.expr(e.args[1], env)
            xs, ys, t = self.int2(x, y, e)
            return V("(%s.%s %s %s)" % ("N" if t == "N" else "Nat", fn, xs, ys), t, x.conds + y.conds)
        if fn in ("pack", "struct.pack") and len(e.args) >= 2:
            f = e.args[0]
            pf = parse_fmt(f.value) if isinstance(f, ast.Constant) else None
            if pf is None or len(pf[1]) != len(e.args) - 1:
                _bad(e, "pack format outside the grammar")
            order, sizes = pf
            parts, conds = [], []
            for n, a in zip(sizes, e.args[1:]):
                v = self.expr(a, env)
                if not is_int(resolve(v.ty)):
                    _bad(e, "pack of a non-integer")
                vt = coerce(v, "N", e)
                parts.append("(py_pack_%s %d%%nat %s)" % (order, n, vt))
                conds += v.conds + ["(%s < %d)%%N" % (vt, 256 ** n)]
            text = parts[0]
            for q in parts[1:]:
                text = "(%s ++ %s)" % (text, q)
            return V(text, "bytes", conds)
        if fn in ("unpack", "struct.unpack") and len(e.args) == 2:
            return self.unpack(e, env, None)
        _bad(e, "call outside the grammar")

    def method_call(self, e, env):
        """x.to_bytes(n, 'little' | 'big')  and  b''.join(list of bytes)"""
        f = e.func
        if not isinstance(f, ast.Attribute):
            return None
        if f.attr == "to_bytes":
            args = list(e.args)
            kw = {k.arg: k.value for k in e.keywords}
            if len(args) == 1 and set(kw) == {"byteorder"}:
                args.append(kw["byteorder"])
            elif kw or len(args) != 2:
                return None
            n, order = args
            if not isinstance(n, ast.Constant) and self.is_const_expr(n):
                nt = resolve(self.expr(n, {k: v for k, v in env.items() if k == "\0none"}).ty)   # a named constant
                if isinstance(nt, tuple) and nt[0] == "lit":
                    n = ast.copy_location(ast.Constant(value=nt[1]), n)
            if not (isinstance(n, ast.Constant) and isinstance(n.value, int) and 1 <= n.value <= 8
                    and isinstance(order, ast.Constant) and order.value in ("little", "big")):
                _bad(e, "to_bytes(length, byteorder) with a constant length 1..8 and 'little' / 'big' only")
            v = self.expr(f.value, env)
            if not is_int(resolve(v.ty)):
                return None
            vt = coerce(v, "N", e)
            return V("(py_pack_%s %d%%nat %s)" % ("le" if order.value == "little" else "be", n.value, vt), "bytes",
                     v.conds + ["(%s < %d)%%N" % (vt, 256 ** n.value)])
        if f.attr == "join" and isinstance(f.value, ast.Constant) and f.value.value == b"" and len(e.args) == 1 and not e.keywords:
            v = self.expr(e.args[0], env)
            t = resolve(v.ty)
            if not (isinstance(t, tuple) and t[0] == "list"):
                _bad(e, "b''.join of a non-list")
            unify(t[1], "bytes", e)
            return V("(py_concat %s)" % v.text, "bytes", v.conds)
        return None

    def inline_call(self, e, env):
        """A call of a same-module function / same-class method whose body is in the translatable subset
        (assignments, if/else, final return): translated in place, the parameters standing for the
        (pure) argument values."""
        if self.mi is None:
            return None
        r = resolve_callee(e, self.mi, self.cls, self.locals if not self.inline_stack else fn_locals(self.inline_stack[-1]))
        if r is None:
            return None
        helper, params = r
        if helper.name in [h.name for h in self.inline_stack] or len(self.inline_stack) > 4:
            _bad(e, "recursive helper %s" % helper.name)
        m = bind_args(e, helper, params)
        if m is None:
            _bad(e, "call of helper %s does not fit its parameters" % helper.name)
        hp = prepare(helper, self.mi, self.cls)
        hl = fn_locals(helper)
        env2 = {"\0dead": set(env.get("\0dead", ()))}
        conds = []
        ast_sub = {}
        for p in params:
            try:
                v = self.expr(m[p], env)
            except Unsupported:
                ast_sub[p] = m[p]      # not a value by itself (e.g. an object): its uses may be inputs
                continue
            conds += v.conds
            env2[p] = (v.text if v.text is None or v.text.startswith("(") or re.match(r"^[A-Za-z0-9_.%']+$", v.text) else "(%s)" % v.text, v.ty)
        if ast_sub:
            if _stores(ast.Module(body=hp.body, type_ignores=[])) & set(ast_sub):
                _bad(e, "helper %s re-binds a parameter whose argument is not a value" % helper.name)
            # names of the caller inside the substituted arguments must keep their meaning in the helper
            if any(isinstance(x, ast.Name) and x.id in hl for a in ast_sub.values() for x in ast.walk(a)):
                _bad(e, "argument of helper %s mentions a name that is local to the helper" % helper.name)
            hp.body = [_Subst(ast_sub).visit(x) for x in hp.body]
            ast.fix_missing_locations(hp)
            for k2, v2 in env.items():          # the caller's locals the arguments mention stay visible
                if k2 != "\0dead" and any(isinstance(x, ast.Name) and x.id == k2 for a in ast_sub.values() for x in ast.walk(a)):
                    env2.setdefault(k2, v2)
        env2 = self.kill(env2, hl - set(ast_sub))
        def final(_env):
            _bad(e, "helper %s: a path reaches its end without `return`" % helper.name)
        self.inline_stack.append(helper)
        try:
            d, ty, pre = self.block(_body_wo_doc(hp), env2, final)
        finally:
            self.inline_stack.pop()
        self.inlined.add(helper.name)
        return V("(%s)" % d, ty, conds + ([pre] if pre != "True" else []))

    # -- statements ----------------------------------------------------------
    @staticmethod
    def has_return(stmts):
        return any(isinstance(n, ast.Return) for s in stmts for n in ast.walk(s))

    @staticmethod
    def assigned(stmts):
        """Names (re)bound by a block, in first-assignment order."""
        out = []
        def add(n):
            if n not in out:
                out.append(n)
        for s in stmts:
            for n in ast.walk(s):
                if isinstance(n, (ast.Assign, ast.AugAssign, ast.AnnAssign)):
                    for t in (n.targets if isinstance(n, ast.Assign) else [n.target]):
                        if isinstance(t, ast.Name):
                            add(t.id)
                elif isinstance(n, ast.For) and isinstance(n.target, ast.Name):
                    add(n.target.id)
                elif (isinstance(n, ast.Expr) and isinstance(n.value, ast.Call) and isinstance(n.value.func, ast.Attribute)
                      and n.value.func.attr == "append" and isinstance(n.value.func.value, ast.Name)):
                    add(n.value.func.value.id)
        return out

    def block(self, stmts, env, final):
        """Translate statements followed by `final(env) -> (def_text, type, pre_text)` (used when the
        block falls through).  Returns (def_text, type, pre_text)."""
        if not stmts:
            return final(env)
        s, rest = stmts[0], stmts[1:]
        if isinstance(s, ast.Expr):
            if isinstance(s.value, ast.Constant) and isinstance(s.value.value, str):
                return self.block(rest, env, final)                      # docstring
            if isinstance(s.value, ast.Call) and self.callee(s.value) in self.ignore_calls:
                return self.block(rest, env, final)                      # declared side-effect-free logging
            _bad(s, "expression statement outside the grammar")
        if isinstance(s, ast.Pass):
            return self.block(rest, env, final)
        if isinstance(s, ast.Return):
            if s.value is None:
                _bad(s, "return without a value")
            # statements after a return are unreachable (this is also how the continuation that
            # `if` duplicates into a returning branch is cut off)
            v = self.settle(self.expr(s.value, env), s)
            return v.text, v.ty, conj(v.conds)
        if (isinstance(s, ast.Assign) and len(s.targets) == 1 and isinstance(s.targets[0], ast.Tuple)
                and all(isinstance(x, ast.Name) for x in s.targets[0].elts)):
            # a, b = <tuple>
            v = self.expr(s.value, env)
            t = resolve(v.ty)
            names = [x.id for x in s.targets[0].elts]
            if not (isinstance(t, tuple) and t[0] == "tuple" and len(t[1]) == len(names)) or len(set(names)) != len(names):
                _bad(s, "tuple assignment of a value that is not a tuple of that size")
            env2, cn = env, []
            for n, ty in zip(names, t[1]):
                env2, c1 = self.assign(env2, n, ty, s)
                cn.append(c1)
            d, ty, p = self.block(rest, env2, final)
            pat = "'(" + ", ".join(cn) + ")"
            pre = conj(v.conds + (["(let %s := %s in %s)" % (pat, v.text, p)] if p != "True" else []))
            return "let %s := %s in\n%s" % (pat, v.text, d), ty, pre
        if isinstance(s, (ast.Assign, ast.AugAssign)):
            if isinstance(s, ast.Assign):
                if len(s.targets) != 1 or not isinstance(s.targets[0], ast.Name):
                    _bad(s, "assignment target must be a single local name")
                name, val = s.targets[0].id, s.value
            else:
                if not isinstance(s.target, ast.Name):
                    _bad(s, "assignment target must be a single local name")
                name = s.target.id
                val = ast.BinOp(left=ast.Name(id=name, ctx=ast.Load()), op=s.op, right=s.value)
                ast.copy_location(val, s)
                ast.fix_missing_locations(val)
            try:
                v = self.settle(self.expr(val, env), s)
            except Unsupported:
                # e.g. `header = packet[ZigbeeSecurityHeader]`: not a value of the grammar by itself, but its
                # uses (`header.fc`, `raw(header)`) may be inputs once the definition is substituted
                defs = self.single_defs()
                if not (isinstance(s, ast.Assign) and name in defs) or not rest:
                    raise
                self.substituted.add(name)
                rest2 = [subst_locals(copy.deepcopy(x), {name: s.value}) for x in rest]
                for x in rest2:
                    ast.fix_missing_locations(x)
                return self.block(rest2, env, final)
            env2, cname = self.assign(env, name, v.ty, s)
            d, t, p = self.block(rest, env2, final)
            pre = conj(v.conds + (["(let %s := %s in %s)" % (cname, v.text, p)] if p != "True" else []))
            return "let %s := %s in\n%s" % (cname, v.text, d), t, pre
        if isinstance(s, ast.For):
            # for i in range(n): acc.append(e)
            if s.orelse or not isinstance(s.target, ast.Name) or len(s.body) != 1:
                _bad(s, "for loop outside the grammar")
            b = s.body[0]
            if isinstance(b, ast.AugAssign) and isinstance(b.op, ast.Add) and isinstance(b.target, ast.Name):
                # for i in range(n): acc += e     (acc a bytes / list value)
                acc = b.target.id
                if acc not in env or any(isinstance(n, ast.Name) and n.id == acc for n in ast.walk(b.value)):
                    _bad(s, "accumulator must be an existing sequence not mentioned in the added expression")
                aname, aty = env[acc]
                aty = resolve(aty)
                if not (aty == "bytes" or (isinstance(aty, tuple) and aty[0] == "list")):
                    _bad(s, "`acc += e` in a loop is supported for bytes / lists only")
                n = self.range_arg(s.iter, env)
                m = self.range_map(s.target.id, b.value, n, env, s)
                et = resolve(m.ty)[1]
                t = unify(aty, et, s)
                env2, cname = self.assign(self.unbind(env, [s.target.id]), acc, t, s)
                d, ty, p = self.block(rest, env2, final)
                text = "(%s ++ (py_concat %s))" % (aname, m.text)
                pre = conj(m.conds + (["(let %s := %s in %s)" % (cname, text, p)] if p != "True" else []))
                return "let %s := %s in\n%s" % (cname, text, d), ty, pre
            if not (isinstance(b, ast.Expr) and isinstance(b.value, ast.Call) and isinstance(b.value.func, ast.Attribute)
                    and b.value.func.attr == "append" and isinstance(b.value.func.value, ast.Name)
                    and len(b.value.args) == 1 and not b.value.keywords):
                _bad(s, "for body must be a single `acc.append(expr)`")
            acc = b.value.func.value.id
            if acc not in env or any(isinstance(n, ast.Name) and n.id == acc for n in ast.walk(b.value.args[0])):
                _bad(s, "accumulator must be an existing list not mentioned in the appended expression")
            aname, aty = env[acc]
            aty = resolve(aty)
            if not (isinstance(aty, tuple) and aty[0] == "list"):
                _bad(s, "accumulator is not a list")
            n = self.range_arg(s.iter, env)
            m = self.range_map(s.target.id, b.value.args[0], n, env, s)
            t = unify(aty, m.ty, s)
            env2, cname = self.assign(self.unbind(env, [s.target.id]), acc, t, s)
            d, ty, p = self.block(rest, env2, final)
            text = "(%s ++ %s)" % (aname, m.text)
            pre = conj(m.conds + (["(let %s := %s in %s)" % (cname, text, p)] if p != "True" else []))
            return "let %s := %s in\n%s" % (cname, text, d), ty, pre
        if isinstance(s, ast.If):
            c = self.expr(s.test, env)
            if resolve(c.ty) != "bool":
                _bad(s, "condition is not a boolean")
            if self.has_return(s.body) or self.has_return(s.orelse):
                # a branch may leave the function: the continuation is duplicated into both branches
                d1, t1, p1 = self.block(list(s.body) + rest, env, final)
                d2, t2, p2 = self.block(list(s.orelse) + rest, env, final)
                t = unify(t1, t2, s)
                pre = conj(c.conds + (["(if %s then %s else %s)" % (c.text, p1, p2)] if (p1, p2) != ("True", "True") else []))
                return "if %s then\n%s\nelse\n%s" % (c.text, _ind(d1), _ind(d2)), t, pre
            # no return inside: the branches only (re)bind locals -> tuple of the live ones
            a1, a2 = self.assigned(s.body), self.assigned(s.orelse)
            live = [n for n in a1 + [x for x in a2 if x not in a1]
                    if n in env or (n in a1 and n in a2)]
            gone = [n for n in a1 + a2 if n not in live]
            if not live:
                _bad(s, "if statement without effect on any local that is defined afterwards")
            types = {}
            def fin(e2, key):
                vs = []
                for n in live:
                    cname, ty = e2[n]
                    types.setdefault(n, []).append(ty)
                    vs.append(cname)
                return (vs[0] if len(vs) == 1 else "(" + ", ".join(vs) + ")"), None, "True"
            d1, _t, p1 = self.block(list(s.body), env, lambda e2: fin(e2, 1))
            d2, _t, p2 = self.block(list(s.orelse), env, lambda e2: fin(e2, 2))
            env2 = self.unbind(self.kill(env, a1 + a2), gone)
            names = []
            for n in live:
                ta, tb = types[n]
                t = unify(ta, tb, s)
                if isinstance(resolve(t), tuple) and resolve(t)[0] == "lit":
                    _bad(s, "internal: unsettled literal")
                if resolve(ta) != resolve(tb):
                    _bad(s, "local %r has different types in the two branches (%r / %r)" % (n, resolve(ta), resolve(tb)))
                env2, cname = self.assign(env2, n, t, s)
                names.append(cname)
            pat = names[0] if len(names) == 1 else "'(" + ", ".join(names) + ")"
            ifx = "if %s then\n%s\nelse\n%s" % (c.text, _ind(d1), _ind(d2))
            d, ty, p = self.block(rest, env2, final)
            pre_parts = list(c.conds)
            if (p1, p2) != ("True", "True"):
                pre_parts.append("(if %s then %s else %s)" % (c.text, p1, p2))
            if p != "True":
                pre_parts.append("(let %s :=\n%s in %s)" % (pat, _ind(ifx), p))
            return "let %s :=\n%s in\n%s" % (pat, _ind(ifx), d), ty, conj(pre_parts)
        _bad(s, "statement outside the grammar")


def _ind(s):
    return "\n".join("  " + l for l in s.splitlines())


# ---------------------------------------------------------------------------
# locating source
# ---------------------------------------------------------------------------

def _unp(n):
    return ast.unparse(n)


# ---------------------------------------------------------------------------
# source preparation: module facts, helper inlining, normal forms
# (all behaviour preserving; the prepared AST is what selectors address, what is translated and what
#  the live side of the differential validation compiles and runs)
# ---------------------------------------------------------------------------

def _dfs(node):
    """Pre-order walk (source order for unmodified code; stable for inlined copies)."""
    yield node
    for c in ast.iter_child_nodes(node):
        yield from _dfs(c)


def _stores(node):
    out = set()
    for n in ast.walk(node):
        if isinstance(n, ast.Name) and isinstance(n.ctx, (ast.Store, ast.Del)):
            out.add(n.id)
        elif isinstance(n, (ast.FunctionDef, ast.ClassDef, ast.AsyncFunctionDef)) and n is not node:
            out.add(n.name)
        elif isinstance(n, (ast.Import, ast.ImportFrom)):
            for a in n.names:
                out.add((a.asname or a.name).split(".")[0])
        elif isinstance(n, ast.ExceptHandler) and n.name:
            out.add(n.name)
    return out


def fn_locals(fn):
    a = fn.args
    params = {x.arg for x in a.args + a.posonlyargs + a.kwonlyargs}
    if a.vararg:
        params.add(a.vararg.arg)
    if a.kwarg:
        params.add(a.kwarg.arg)
    body = ast.Module(body=fn.body, type_ignores=[])
    return params | _stores(body)


class ModInfo:
    """Facts about the module a translated function lives in."""
    def __init__(self, tree):
        self.tree = tree
        self.globals_declared = {x for n in ast.walk(tree) if isinstance(n, (ast.Global, ast.Nonlocal)) for x in n.names}
        self.funcs = self._defs(tree.body)
        self.classes = {n.name: n for n in tree.body if isinstance(n, ast.ClassDef)}
        self.consts = self._consts(tree.body)

    @staticmethod
    def _bind_counts(body):
        cnt = {}
        def add(n):
            cnt[n] = cnt.get(n, 0) + 1
        for s in body:
            if isinstance(s, (ast.FunctionDef, ast.ClassDef, ast.AsyncFunctionDef)):
                add(s.name)
            else:
                for n in _stores(s):
                    add(n)
                    if not (isinstance(s, ast.Assign) and len(s.targets) == 1 and isinstance(s.targets[0], ast.Name)):
                        add(n)          # bound by anything but a plain `NAME = value`: never a constant
        return cnt

    def _defs(self, body):
        cnt = self._bind_counts(body)
        return {s.name: s for s in body if isinstance(s, ast.FunctionDef) and cnt.get(s.name) == 1}

    def _consts(self, body):
        """NAME = <expr> bound exactly once at this level (the value is checked when it is used)."""
        cnt = self._bind_counts(body)
        out = {}
        for s in body:
            if isinstance(s, ast.Assign) and len(s.targets) == 1 and isinstance(s.targets[0], ast.Name):
                n = s.targets[0].id
                if cnt.get(n) == 1 and n not in self.globals_declared:
                    out[n] = s.value
        return out

    def methods(self, cls):
        return self._defs(cls.body) if cls is not None else {}

    def class_consts(self, cls):
        return self._consts(cls.body) if cls is not None else {}

    def method_defined_elsewhere(self, cls, name):
        """Another class of the module defines a method of that name (a subclass could override it)."""
        for c in self.classes.values():
            if c is not cls and any(isinstance(s, (ast.FunctionDef, ast.AsyncFunctionDef)) and s.name == name for s in c.body):
                return True
        return False


def find_function(tree, qualname):
    """-> (function node, enclosing class node or None)"""
    node, cls = tree, None
    for part in qualname.split("."):
        nxt = [n for n in getattr(node, "body", []) if isinstance(n, (ast.FunctionDef, ast.ClassDef)) and n.name == part]
        if len(nxt) != 1:
            raise Unsupported("%s: %d definitions of %r" % (qualname, len(nxt), part))
        if isinstance(node, ast.ClassDef):
            cls = node
        node = nxt[0]
    if not isinstance(node, ast.FunctionDef):
        raise Unsupported("%s is not a function" % qualname)
    return node, cls


def resolve_callee(call, mi, cls, caller_locals):
    """The same-module function / same-class method a call statically refers to, or None.
    -> (helper FunctionDef, its parameter names without self/cls)"""
    f = call.func
    helper, drop = None, 0
    if isinstance(f, ast.Name):
        if f.id in caller_locals or f.id not in mi.funcs:
            return None
        helper = mi.funcs[f.id]
        if helper.decorator_list:
            return None
    elif isinstance(f, ast.Attribute) and isinstance(f.value, ast.Name):
        owner = None
        if f.value.id in ("self", "cls") and cls is not None and f.value.id not in (caller_locals - {"self", "cls"}):
            owner = cls
        elif f.value.id in mi.classes and f.value.id not in caller_locals:
            owner = mi.classes[f.value.id]
        if owner is None:
            return None
        helper = mi.methods(owner).get(f.attr)
        if helper is None or mi.method_defined_elsewhere(owner, f.attr):
            return None
        decos = [_unp(d) for d in helper.decorator_list]
        if decos == []:
            if f.value.id not in ("self",):
                return None           # plain method reached through the class: the receiver is an explicit argument
            drop = 1
        elif decos == ["staticmethod"]:
            drop = 0
        elif decos == ["classmethod"]:
            drop = 1
        else:
            return None
    else:
        return None
    a = helper.args
    if a.vararg or a.kwarg or a.kwonlyargs or a.posonlyargs:
        return None
    if any(isinstance(n, (ast.Yield, ast.YieldFrom, ast.Await, ast.Global, ast.Nonlocal, ast.Lambda, ast.FunctionDef)) for s in helper.body for n in ast.walk(s)):
        return None
    return helper, [x.arg for x in a.args][drop:]


def bind_args(call, helper, params):
    """parameter name -> argument AST (defaults filled in), or None when the call does not fit."""
    if len(call.args) > len(params) or any(isinstance(x, ast.Starred) for x in call.args):
        return None
    m = dict(zip(params, call.args))
    for kw in call.keywords:
        if kw.arg is None or kw.arg not in params or kw.arg in m:
            return None
        m[kw.arg] = kw.value
    defaults = dict(zip([x.arg for x in helper.args.args][len(helper.args.args) - len(helper.args.defaults):], helper.args.defaults))
    for p in params:
        if p not in m:
            if p not in defaults or not isinstance(defaults[p], ast.Constant):
                return None
            m[p] = defaults[p]
    return m


class _Subst(ast.NodeTransformer):
    def __init__(self, m):
        self.m = m

    def visit_Name(self, n):
        if isinstance(n.ctx, ast.Load) and n.id in self.m:
            return copy.deepcopy(self.m[n.id])
        return n


def _body_wo_doc(fn):
    b = list(fn.body)
    if b and isinstance(b[0], ast.Expr) and isinstance(b[0].value, ast.Constant) and isinstance(b[0].value.value, str):
        b = b[1:]
    return b


def ret_expr(stmts):
    """The value a (normalised) statement list returns, as ONE expression: `return e` is e, an if/else whose
    branches both return is a conditional expression; None for any other shape."""
    if len(stmts) != 1:
        return None
    s = stmts[0]
    if isinstance(s, ast.Return) and s.value is not None:
        return s.value
    if isinstance(s, ast.If) and s.orelse:
        a, b = ret_expr(s.body), ret_expr(s.orelse)
        if a is not None and b is not None:
            return ast.copy_location(ast.IfExp(test=s.test, body=a, orelse=b), s)
    return None


def single_assigned(fn, keep=()):
    """Locals of `fn` that can be replaced by their definition wherever they are read:
    bound exactly once in the function, by a plain `x = <expr>` that is not inside a loop and whose
    statement list dominates every read; the definition reads no name that is (re)bound elsewhere in the
    function (other such locals excepted) and no attribute / item that the function stores to.
    -> {name: rhs AST}"""
    a = fn.args
    params = {x.arg for x in a.args + a.posonlyargs + a.kwonlyargs} | ({a.vararg.arg} if a.vararg else set()) | ({a.kwarg.arg} if a.kwarg else set())
    parents, order = {}, {}
    for i, n in enumerate(_dfs(fn)):
        order[id(n)] = i
        for c in ast.iter_child_nodes(n):
            parents[id(c)] = n
    stores, loads = {}, {}
    for n in _dfs(fn):
        if isinstance(n, ast.Name):
            (loads if isinstance(n.ctx, ast.Load) else stores).setdefault(n.id, []).append(n)
        elif isinstance(n, (ast.FunctionDef, ast.ClassDef)) and n is not fn:
            stores.setdefault(n.name, []).append(n)
        elif isinstance(n, ast.ExceptHandler) and n.name:
            stores.setdefault(n.name, []).append(n)
        elif isinstance(n, (ast.Import, ast.ImportFrom)):
            for al in n.names:
                stores.setdefault((al.asname or al.name).split(".")[0], []).append(n)
    stored_paths = [_unp(n) for n in _dfs(fn) if isinstance(n, (ast.Attribute, ast.Subscript)) and isinstance(n.ctx, (ast.Store, ast.Del))]
    cand = {}
    for name, ss in stores.items():
        if len(ss) != 1 or name in params or name in keep or not isinstance(ss[0], ast.Name):
            continue
        st = parents.get(id(ss[0]))
        if not (isinstance(st, ast.Assign) and len(st.targets) == 1 and st.targets[0] is ss[0]):
            continue
        # not inside a loop / nested function; find the statement list holding the assignment
        p, inloop = st, False
        while id(p) in parents:
            p = parents[id(p)]
            if isinstance(p, (ast.For, ast.While, ast.AsyncFor, ast.FunctionDef, ast.Lambda, ast.ListComp)) and p is not fn:
                inloop = True
        if inloop:
            continue
        holder = parents[id(st)]
        lst = next((getattr(holder, f) for f in ("body", "orelse", "finalbody") if isinstance(getattr(holder, f, None), list) and st in getattr(holder, f)), None)
        if lst is None:
            continue
        idx = lst.index(st)
        ok = True
        for u in loads.get(name, []):
            q = u
            while id(q) in parents and not (q in lst):
                q = parents[id(q)]
            if q not in lst or lst.index(q) <= idx:
                ok = False
                break
        if not ok:
            continue
        rhs = st.value
        if any(isinstance(x, (ast.Yield, ast.YieldFrom, ast.Await, ast.NamedExpr, ast.Lambda)) for x in ast.walk(rhs)):
            continue
        paths = [_unp(x) for x in ast.walk(rhs) if isinstance(x, (ast.Attribute, ast.Subscript))]
        if any(pp == sp or pp.startswith(sp + ".") or pp.startswith(sp + "[") or sp.startswith(pp + ".") or sp.startswith(pp + "[")
               for pp in paths for sp in stored_paths):
            continue
        cand[name] = rhs
    # the definition may only read stable names
    changed = True
    while changed:
        changed = False
        for name, rhs in list(cand.items()):
            for x in ast.walk(rhs):
                if isinstance(x, ast.Name) and isinstance(x.ctx, ast.Load) and x.id != name:
                    if x.id in stores and x.id not in cand:
                        del cand[name]
                        changed = True
                        break
                elif isinstance(x, ast.Name) and x.id == name:
                    del cand[name]
                    changed = True
                    break
    return cand


def subst_locals(node, defs, depth=0):
    """Replace reads of single-assignment locals by their definitions (transitively)."""
    if not defs or depth > 8:
        return node
    class S(ast.NodeTransformer):
        def __init__(self):
            self.hit = False
        def visit_Name(self, n):
            if isinstance(n.ctx, ast.Load) and n.id in defs:
                self.hit = True
                return copy.deepcopy(defs[n.id])
            return n
    t = S()
    node = t.visit(node)
    if t.hit:
        node = subst_locals(node, defs, depth + 1)
    return node


class Inliner(ast.NodeTransformer):
    """AST-level inlining of same-module / same-class helpers:
       * a call whose helper is `return <expr>` (after its docstring) becomes that expression with the
         parameters replaced by the argument expressions (arguments are pure in the translatable subset);
       * an expression statement calling a helper without `return <value>` becomes the helper's statements.
    Names the helper reads that are not parameters must mean the same thing in the caller: they must not
    be local to the caller; the helper's own locals must not collide with the caller's."""
    def __init__(self, mi, cls, caller_locals, depth=0, stack=(), done=None):
        self.mi, self.cls, self.locals, self.depth, self.stack = mi, cls, caller_locals, depth, stack
        self.done = done if done is not None else set()

    def _helper(self, call):
        if self.depth > 4:
            return None
        r = resolve_callee(call, self.mi, self.cls, self.locals)
        if r is None or r[0].name in self.stack:
            return None
        helper, params = r
        m = bind_args(call, helper, params)
        if m is None:
            return None
        hlocals = fn_locals(helper)
        stored = _stores(ast.Module(body=helper.body, type_ignores=[]))
        if stored & set(params):
            return None            # the helper re-binds a parameter
        body = copy.deepcopy(_body_wo_doc(helper))
        sub = Inliner(self.mi, self.cls, hlocals, self.depth + 1, self.stack + (helper.name,), self.done)
        body = [sub.visit(s) for s in body]
        body = [x for s in body for x in (s if isinstance(s, list) else [s])]
        free = {n.id for s in body for n in ast.walk(s) if isinstance(n, ast.Name) and isinstance(n.ctx, ast.Load)} - set(params) - stored
        if free & (self.locals - {"self", "cls"}):
            return None
        if (stored - set(params)) & self.locals:
            return None
        return helper, params, m, body

    def visit_Call(self, node):
        self.generic_visit(node)
        h = self._helper(node)
        if h is None:
            return node
        helper, params, m, body = h
        e = ret_expr(normalize_block(copy.deepcopy(body)))
        if e is not None:
            self.done.add(helper.name)
            return _Subst(m).visit(e)
        return node

    def visit_Expr(self, node):
        if isinstance(node.value, ast.Call):
            h = self._helper(node.value)
            if h is not None:
                helper, params, m, body = h
                if body and isinstance(body[-1], ast.Return) and body[-1].value is None:
                    body = body[:-1]
                if body and not any(isinstance(n, ast.Return) for s in body for n in ast.walk(s)):
                    self.done.add(helper.name)
                    return [_Subst(m).visit(s) for s in body]
        self.generic_visit(node)
        return node


_NEG = {ast.Eq: ast.NotEq, ast.NotEq: ast.Eq, ast.Lt: ast.GtE, ast.GtE: ast.Lt, ast.Gt: ast.LtE, ast.LtE: ast.Gt,
        ast.Is: ast.IsNot, ast.IsNot: ast.Is, ast.In: ast.NotIn, ast.NotIn: ast.In}


def negate(t):
    """Logical negation in negation normal form (comparisons are on ints / identities / membership)."""
    if isinstance(t, ast.UnaryOp) and isinstance(t.op, ast.Not):
        return t.operand
    if isinstance(t, ast.Compare) and len(t.ops) == 1:
        n = ast.Compare(left=t.left, ops=[_NEG[type(t.ops[0])]()], comparators=t.comparators)
        return ast.copy_location(n, t)
    if isinstance(t, ast.BoolOp):
        n = ast.BoolOp(op=ast.Or() if isinstance(t.op, ast.And) else ast.And(), values=[negate(v) for v in t.values])
        return ast.copy_location(n, t)
    return ast.copy_location(ast.UnaryOp(op=ast.Not(), operand=t), t)


def _negativity(t):
    return sum(1 for n in ast.walk(t) if isinstance(n, (ast.NotEq, ast.Not)))


_TERM = (ast.Return, ast.Raise, ast.Break, ast.Continue)


def _terminates(stmts):
    if not stmts:
        return False
    s = stmts[-1]
    if isinstance(s, _TERM):
        return True
    return isinstance(s, ast.If) and _terminates(s.body) and _terminates(s.orelse)


def _term_only(stmts):
    return bool(stmts) and all(isinstance(s, _TERM) for s in stmts)


def _mentions(node, name):
    return any(isinstance(n, ast.Name) and n.id == name for n in ast.walk(node))


def _loop_to_comprehension(init, loop):
    """`acc = [] / b''` directly followed by `for x in it: acc.append(e) | acc += [e] | acc += bytes([e]) | acc += e`
    -> one assignment of a comprehension (None when the pair has another shape)."""
    if not (isinstance(init, ast.Assign) and len(init.targets) == 1 and isinstance(init.targets[0], ast.Name)
            and isinstance(loop, ast.For) and not loop.orelse and len(loop.body) == 1 and isinstance(loop.target, ast.Name)):
        return None
    acc, v, b = init.targets[0].id, init.value, loop.body[0]
    is_list = isinstance(v, ast.List) and not v.elts
    is_bytes = (isinstance(v, ast.Constant) and v.value == b"") or (isinstance(v, ast.Call) and _unp(v) == "bytes()")
    if not (is_list or is_bytes) or _mentions(loop.iter, acc) or loop.target.id == acc:
        return None
    def comp(elt):
        c = ast.ListComp(elt=elt, generators=[ast.comprehension(target=loop.target, iter=loop.iter, ifs=[], is_async=0)])
        return ast.copy_location(c, loop)
    new = None
    if (is_list and isinstance(b, ast.Expr) and isinstance(b.value, ast.Call) and isinstance(b.value.func, ast.Attribute)
            and b.value.func.attr == "append" and isinstance(b.value.func.value, ast.Name) and b.value.func.value.id == acc
            and len(b.value.args) == 1 and not b.value.keywords and not _mentions(b.value.args[0], acc)):
        new = comp(b.value.args[0])
    elif (isinstance(b, ast.AugAssign) and isinstance(b.op, ast.Add) and isinstance(b.target, ast.Name) and b.target.id == acc
          and not _mentions(b.value, acc)):
        one = None
        if isinstance(b.value, ast.List) and len(b.value.elts) == 1:
            one = b.value.elts[0]
        elif (isinstance(b.value, ast.Call) and isinstance(b.value.func, ast.Name) and b.value.func.id == "bytes" and len(b.value.args) == 1
              and not b.value.keywords and isinstance(b.value.args[0], ast.List) and len(b.value.args[0].elts) == 1):
            one = b.value.args[0].elts[0]
        if is_list and isinstance(b.value, ast.List) and one is not None:
            new = comp(one)
        elif is_bytes and one is not None and not isinstance(b.value, ast.List):
            new = ast.Call(func=ast.Name(id="bytes", ctx=ast.Load()), args=[comp(one)], keywords=[])
        elif is_bytes:
            new = ast.Call(func=ast.Attribute(value=ast.Constant(value=b""), attr="join", ctx=ast.Load()), args=[comp(b.value)], keywords=[])
    if new is None:
        return None
    a = ast.Assign(targets=init.targets, value=new)
    ast.copy_location(a, init)
    a.end_lineno = getattr(loop, "end_lineno", None)
    ast.copy_location(new, loop)
    return a


def normalize_block(stmts):
    """Normal forms of a statement list (recursively)."""
    out = []
    i = 0
    stmts = list(stmts)
    while i < len(stmts):
        s = stmts[i]
        if i + 1 < len(stmts):
            m = _loop_to_comprehension(s, stmts[i + 1])
            if m is not None:
                out.append(m)
                i += 2
                continue
        if isinstance(s, ast.If):
            rest = stmts[i + 1:]
            if rest and _terminates(s.body) and not (s.orelse and _terminates(s.orelse)):
                s.orelse = list(s.orelse) + rest           # guard clause: the rest is the else branch
                stmts = stmts[:i + 1]
            elif rest and s.orelse and _terminates(s.orelse) and not _terminates(s.body):
                s.body = list(s.body) + rest
                stmts = stmts[:i + 1]
            s.body = normalize_block(s.body)
            s.orelse = normalize_block(s.orelse)
            if s.orelse:
                swap = False
                if _term_only(s.body) and not _term_only(s.orelse):
                    swap = True                              # the branch that only leaves goes last
                elif _term_only(s.orelse) and not _term_only(s.body):
                    swap = False
                elif _negativity(negate(s.test)) < _negativity(s.test):
                    swap = True                              # positive test first
                if swap:
                    s.test, s.body, s.orelse = negate(s.test), s.orelse, s.body
        elif isinstance(s, (ast.For, ast.While)):
            s.body = normalize_block(s.body)
            s.orelse = normalize_block(s.orelse)
        elif isinstance(s, ast.With):
            s.body = normalize_block(s.body)
        elif isinstance(s, ast.Try):
            s.body = normalize_block(s.body)
            s.orelse = normalize_block(s.orelse)
            s.finalbody = normalize_block(s.finalbody)
            for h in s.handlers:
                h.body = normalize_block(h.body)
        out.append(s)
        i += 1
    return out


def prepare(fn, mi, cls):
    """Deep copy of the function with helpers inlined and normal forms applied."""
    f = copy.deepcopy(fn)
    inl = Inliner(mi, cls, fn_locals(fn), stack=(fn.name,))
    body = []
    for s in f.body:
        r = inl.visit(s)
        body += r if isinstance(r, list) else [r]
    f.body = normalize_block(body)
    ast.fix_missing_locations(f)
    f._inlined = set(inl.done)
    return f


def callees_of(fn, mi, cls, seen=None):
    """Same-module / same-class functions reachable through calls (transitively), each prepared, in call order."""
    seen = seen if seen is not None else {fn.name}
    out = []
    for n in _dfs(fn):
        if isinstance(n, ast.Call):
            r = resolve_callee(n, mi, cls, fn_locals(fn))
            if r is not None and r[0].name not in seen:
                seen.add(r[0].name)
                h = prepare(r[0], mi, cls)
                out.append(h)
                out += callees_of(h, mi, cls, seen)
    return out


def _assignments(fn, target):
    out = []
    for n in _dfs(fn):
        if isinstance(n, ast.Assign) and len(n.targets) == 1 and _unp(n.targets[0]) == target:
            out.append(n)
        elif isinstance(n, ast.AugAssign) and _unp(n.target) == target:
            out.append(n)
    return out


def _pick(cands, sel, what):
    if not cands:
        raise _NoMatch("selector %r: no match for %s" % (sel, what))
    if "nth" in sel:
        if sel["nth"] >= len(cands):
            raise Unsupported("selector %r: only %d matches for %s" % (sel, len(cands), what))
        return cands[sel["nth"]]
    if len(cands) != 1:
        raise Unsupported("selector %r: %d matches for %s (must be unique)" % (sel, len(cands), what))
    return cands[0]


class _NoMatch(Unsupported):
    pass


def select_expr(fn, sel, callees=()):
    """The expression node named by an expr-mode selector (fail closed).  The function itself (helpers
    inlined, normal forms applied) is searched first; only when nothing there matches, the same-module /
    same-class functions it calls (transitively) are searched, in call order."""
    try:
        return _select_in([fn], sel)
    except _NoMatch as e:
        if not callees:
            raise Unsupported(str(e))
    try:
        return _select_in(list(callees), sel)
    except _NoMatch as e:
        raise Unsupported(str(e) + " (also not in the callees: %s)" % ", ".join(c.name for c in callees))


def _walk_all(fns):
    for f in fns:
        yield from _dfs(f)


def _select_in(fns, sel):
    fn = ast.Module(body=list(fns), type_ignores=[])
    if "rhs_of" in sel:
        n = _pick(_assignments(fn, sel["rhs_of"]), sel, "assignment to " + sel["rhs_of"])
        if isinstance(n, ast.AugAssign):
            e = ast.BinOp(left=ast.parse(_unp(n.target), mode="eval").body, op=n.op, right=n.value)
            ast.copy_location(e, n)
            ast.fix_missing_locations(e)
            return e, n
        return n.value, n
    if "test_enclosing" in sel:
        a = _pick(_assignments(fn, sel["test_enclosing"]), sel, "assignment to " + sel["test_enclosing"])
        parents = {}
        for p in _dfs(fn):
            for c in ast.iter_child_nodes(p):
                parents[c] = p
        cur, up = a, sel.get("up", 0)
        while cur in parents:
            par = parents[cur]
            if isinstance(par, (ast.If, ast.While)) and cur is not par.test:
                if up == 0:
                    return par.test, par.test
                up -= 1
            cur = par
        raise Unsupported("selector %r: no enclosing if" % (sel,))
    if "test" in sel:
        # the test of the nth `if` / `while` statement of the function, in source order
        kind = {"If": ast.If, "While": ast.While}.get(sel["test"])
        if kind is None:
            raise Unsupported("selector %r: test of what?" % (sel,))
        nodes = [n for n in _dfs(fn) if isinstance(n, kind)]
        n = _pick(nodes, sel, sel["test"] + " statements")
        return n.test, n.test
    if "test_on" in sel:
        # the test of the `if` / `while` statement(s) whose test mentions the given name
        nodes = [n for n in _dfs(fn) if isinstance(n, (ast.If, ast.While))
                 and any(isinstance(x, ast.Name) and x.id == sel["test_on"] for x in ast.walk(n.test))]
        n = _pick(nodes, sel, "tests mentioning " + sel["test_on"])
        return n.test, n.test
    if "arg_of" in sel:
        calls = [n for n in _dfs(fn) if isinstance(n, ast.Call) and _unp(n.func) == sel["arg_of"]]
        c = _pick(calls, sel, "call of " + sel["arg_of"])
        j = sel.get("index", 0)
        if j >= len(c.args):
            raise Unsupported("selector %r: call has %d positional arguments" % (sel, len(c.args)))
        return c.args[j], c.args[j]
    raise Unsupported("unknown selector %r" % (sel,))


def prefix_stmts(fn, spec):
    """Top-level statements from the first one matching spec["start_at"] (default: the first) up to,
    excluding, the first later one matching spec["stop_at"].  A pattern is a node class name ("For",
    "Return"), "text:<prefix of ast.unparse(stmt)>" or "assign:<name>" (the statement binds that local)."""
    def hit(s, pat):
        if pat.startswith("text:"):
            return _unp(s).startswith(pat[5:])
        if pat.startswith("assign:"):
            tg = s.targets if isinstance(s, ast.Assign) else [s.target] if isinstance(s, (ast.AugAssign, ast.AnnAssign)) else []
            return any(isinstance(t, ast.Name) and t.id == pat[7:] for t in tg)
        return type(s).__name__ == pat
    stop, start = spec["stop_at"], spec.get("start_at")
    out, started = [], start is None
    for s in fn.body:
        if not started:
            if hit(s, start):
                started = True
            else:
                continue
        elif hit(s, stop):
            return out, s
        out.append(s)
    raise Unsupported("prefix mode: no top-level statements match start_at=%r / stop_at=%r" % (start, stop))


# -- metavariables: spec["bind"] = ["$v = $v - 1", ...] names locals by their ROLE, so that renaming a local
#    (or moving the code into a helper that names it differently) does not break selectors / inputs

_MV = re.compile(r"\$([A-Za-z_][A-Za-z0-9_]*)")


def _pattern(text):
    t = ast.parse(_MV.sub(lambda m: "__mv_%s__" % m.group(1), text))
    if len(t.body) != 1:
        raise Unsupported("bind pattern %r: one statement or expression expected" % text)
    return t.body[0].value if isinstance(t.body[0], ast.Expr) else t.body[0]


def _match(p, n, b):
    if isinstance(p, ast.Name) and p.id.startswith("__mv_") and p.id.endswith("__"):
        if not isinstance(n, ast.Name):
            return False
        k = p.id[5:-2]
        if b.setdefault(k, n.id) != n.id:
            return False
        return True
    if type(p) is not type(n):
        return False
    for f in p._fields:
        if f == "ctx":
            continue
        x, y = getattr(p, f, None), getattr(n, f, None)
        if isinstance(x, list):
            if not isinstance(y, list) or len(x) != len(y) or not all(_match(a, c, b) if isinstance(a, ast.AST) else a == c for a, c in zip(x, y)):
                return False
        elif isinstance(x, ast.AST):
            if not isinstance(y, ast.AST) or not _match(x, y, b):
                return False
        elif x != y:
            return False
    return True


def resolve_binds(spec, fn, callees):
    binds = {}
    for text in spec.get("bind", ()):
        p = _pattern(text)
        found = []
        for space in ([fn], list(callees)):
            for n in _walk_all(space):
                b = {}
                if type(n) is type(p) and _match(p, n, b) and b not in found:
                    found.append(b)
            if found:
                break
        if len(found) != 1:
            raise Unsupported("bind pattern %r: %d different matches (must be exactly one)" % (text, len(found)))
        for k, v in found[0].items():
            if binds.setdefault(k, v) != v:
                raise Unsupported("bind patterns disagree on $%s (%s / %s)" % (k, binds[k], v))
    return binds


def apply_bindings(x, binds):
    if isinstance(x, str):
        def rep(m):
            if m.group(1) not in binds:
                raise Unsupported("metavariable $%s is not bound by spec['bind']" % m.group(1))
            return binds[m.group(1)]
        return _MV.sub(rep, x)
    if isinstance(x, list):
        return [apply_bindings(y, binds) for y in x]
    if isinstance(x, tuple):
        return tuple(apply_bindings(y, binds) for y in x)
    if isinstance(x, dict):
        return {k: (v if k in ("bind", "name") else apply_bindings(v, binds)) for k, v in x.items()}
    return x


def check_globals(tree, fn, used, qualname):
    """The names the translation read as builtins / struct functions must mean that in this module:
    not rebound at module level, in an enclosing class, or as a parameter of the function."""
    bound, from_struct, import_struct = set(), set(), False
    for n in tree.body:
        if isinstance(n, ast.ImportFrom):
            for a in n.names:
                nm = a.asname or a.name
                if n.module == "struct" and a.asname is None:
                    from_struct.add(nm)
                else:
                    bound.add(nm)
        elif isinstance(n, ast.Import):
            for a in n.names:
                if a.name == "struct" and a.asname is None:
                    import_struct = True
                else:
                    bound.add((a.asname or a.name).split(".")[0])
        elif isinstance(n, (ast.FunctionDef, ast.ClassDef, ast.AsyncFunctionDef)):
            bound.add(n.name)
        elif isinstance(n, (ast.Assign, ast.AnnAssign, ast.AugAssign)):
            for t in (n.targets if isinstance(n, ast.Assign) else [n.target]):
                for x in ast.walk(t):
                    if isinstance(x, ast.Name):
                        bound.add(x.id)
    params = {a.arg for a in fn.args.args + fn.args.posonlyargs + fn.args.kwonlyargs}
    for u in sorted(x for x in used if x):
        if u in ("pack", "unpack"):
            if u not in from_struct or u in bound or u in params:
                raise Unsupported("%s: `%s` is not (only) `from struct import %s` in this module" % (qualname, u, u))
        elif u in ("struct.pack", "struct.unpack"):
            if not import_struct or "struct" in bound or "struct" in params:
                raise Unsupported("%s: `struct` is not (only) `import struct` in this module" % qualname)
        elif u in bound or u in params:
            raise Unsupported("%s: builtin `%s` is rebound in this module / by a parameter" % (qualname, u))


def locate(path, qualname, spec):
    """-> (mode, prepared function node, payload, (first line, last line), source bytes).
    The function node carries ._module_tree, ._mi (ModInfo), ._cls, ._orig (unprepared node), ._callees,
    ._bindings (metavariables) and ._spec (the spec with metavariables replaced)."""
    src = open(path, "rb").read()
    tree = ast.parse(src, filename=path)
    fn0, cls = find_function(tree, qualname)
    mi = ModInfo(tree)
    fn = prepare(fn0, mi, cls)
    fn._module_tree, fn._mi, fn._cls, fn._orig = tree, mi, cls, fn0
    fn._callees = callees_of(fn, mi, cls)
    fn._bindings = resolve_binds(spec, fn, fn._callees)
    spec = apply_bindings(spec, fn._bindings)
    fn._spec = spec
    mode = spec.get("mode", "function")
    if mode == "function":
        return mode, fn, fn.body, (fn0.lineno, fn0.end_lineno), src
    plain = {t for t, _c, _ty in spec["inputs"] if t.isidentifier()}      # declared inputs are never replaced
    if mode == "prefix":
        stmts, stop = prefix_stmts(fn, spec)
        first = stmts[0].lineno if (spec.get("start_at") and stmts) else fn0.lineno
        # locals bound (once) BEFORE the translated statements are replaced by their definitions
        inside = _stores(ast.Module(body=stmts, type_ignores=[]))
        defs = {k: v for k, v in single_assigned(fn, plain).items() if k not in inside}
        stmts = [subst_locals(x, defs) for x in stmts]
        for x in stmts:
            ast.fix_missing_locations(x)
        return mode, fn, stmts, (first, max(first, stop.lineno - 1)), src
    if mode == "expr":
        e, where = select_expr(fn, spec["select"], fn._callees)
        home = next((f for f in [fn] + list(fn._callees) if any(n is where for n in _dfs(f))), fn)
        l0, l1 = where.lineno, getattr(where, "end_lineno", None) or where.lineno
        e = subst_locals(copy.deepcopy(e), single_assigned(home, plain))
        ast.fix_missing_locations(e)
        return mode, fn, e, (l0, l1), src
    raise Unsupported("unknown mode %r" % mode)


# ---------------------------------------------------------------------------
# entry points
# ---------------------------------------------------------------------------

def translate_info(path, qualname, spec, relpath=None):
    """-> (gallina text, info dict)."""
    mode, fn, payload, (l0, l1), src = locate(path, qualname, spec)
    spec = fn._spec
    tr = Tr(spec, fn)
    env = tr.initial_env()      # every other name must be assigned before use
    if mode == "function":
        if fn.args.vararg or fn.args.kwarg or fn.args.kwonlyargs or fn.decorator_list:
            raise Unsupported("%s: *args/**kwargs/keyword-only parameters/decorators" % qualname)
        def final(_env):
            raise Unsupported("%s: a path reaches the end of the function without `return`" % qualname)
        d, ty, pre = tr.block(list(payload), env, final)
    elif mode == "prefix":
        rets = spec["returns"]
        def final(e2):
            vs = []
            for n in rets:
                if n not in e2:
                    raise Unsupported("%s: returned local %r is not defined at the cut" % (qualname, n))
                vs.append(e2[n])
            if len(vs) == 1:
                return vs[0][0], vs[0][1], "True"
            return "(" + ", ".join(v[0] for v in vs) + ")", ("tuple", tuple(v[1] for v in vs)), "True"
        if Tr.has_return(payload):
            raise Unsupported("%s: return inside the translated prefix" % qualname)
        d, ty, pre = tr.block(list(payload), env, final)
    else:
        v = tr.settle(tr.expr(payload, env), payload)
        d, ty, pre = v.text, v.ty, conj(v.conds)
    check_globals(fn._module_tree, fn, tr.used, qualname)
    for tv in tr.tvars:
        if isinstance(resolve(tv), TVar):
            resolve(tv).ref = "N"   # a `[]` whose elements are never constrained (dead value): any type will do
    def fill(text):
        return re.sub(r"<<T(\d+)>>", lambda m: _par(render_type(tr.tvars[int(m.group(1))])), text)
    d, pre = fill(d), fill(pre)
    params = " ".join("(%s : %s)" % (c, t) for _k, c, t, _n, _x in tr.inputs)
    name = "gen_" + spec["name"]
    rty = render_type(ty)
    if "ret" in spec and spec["ret"] != rty:
        raise Unsupported("%s: inferred result type %s, expected %s" % (qualname, rty, spec["ret"]))
    lines = src.splitlines(keepends=True)
    seg = b"".join(lines[l0 - 1:l1])
    rel = relpath or path
    sha = hashlib.sha256(seg).hexdigest()
    head = "(* source: %s lines %d-%d sha256 %s ; %s %s%s *)\n" % (
        rel, l0, l1, sha, mode, qualname,
        (" " + repr(spec.get("select") or spec.get("stop_at"))) if mode != "function" else "")
    if tr.consts_used or tr.inlined:
        head = head[:-4] + " ; constants %s ; inlined %s *)\n" % (
            ", ".join("%s=%s" % kv for kv in sorted(tr.consts_used.items())) or "-", ", ".join(sorted(tr.inlined)) or "-")
    text = (head + "Definition %s %s : %s :=\n%s.\n\n" % (name, params, rty, _ind(d))
            + "(* domain on which the Gallina operations above agree with Python (PyOps.v) *)\n"
            + "Definition %s_pre %s : Prop :=\n%s.\n" % (name, params, _ind(pre)))
    info = {"name": name, "qualname": qualname, "file": rel, "lines": [l0, l1], "sha256": sha, "mode": mode,
            "params": [[c, t] for _k, c, t, _n, _x in tr.inputs], "ret": rty,
            "constants": dict(tr.consts_used), "inlined": sorted(tr.inlined), "bindings": dict(fn._bindings),
            "substituted_locals": sorted(tr.substituted)}
    return text, info


def translate(path, qualname, spec):
    return translate_info(path, qualname, spec)[0]


def module_text(title, parts):
    return ("(** %s\n    Generated by harness/translators/pyfun.py from the Python source named above each\n"
            "    definition — do not edit; regenerated and compared on every run. *)\n" % title
            + PYOPS_IMPORT + "\n" + "\n".join(parts))


def strip_headers(text):
    """The text without the `(* source: ... *)` lines (line numbers and hashes move when unrelated
    code changes) — this is what is compared with the committed snapshot."""
    return "\n".join(l for l in text.splitlines() if not l.startswith("(* source: ")).strip() + "\n"
