"""Shared by harness/props/C04.py and C05.py: case generation, Coq literals of cases,
oracle helpers for the forced-schedule harness (harness/impl/C04.py, C04_sched.py)."""
import itertools
from harness import common as C
from harness.common import cbool, clist, cnat, copt

A, W, R, CIO, TICK, EMIT = 0, 1, 2, 3, 4, 5

# The model describes the REPAIRED code (see design/C04.md, design/C05.md): every legacy flag false.
LEGACY = {"wait": False, "unlock": False, "lock": False, "sync": False}

PRE = "From Whad Require Import C04.Model.\nOpen Scope N_scope."
CASE_TYPE = "case"


def c_msg(fr):
    return "(mkMsg %d %d %s)" % (fr[0], fr[1], cbool(fr[2]))


def c_frame(fr):
    return "None" if fr is None else "(Some %s)" % c_msg(fr)


def c_chunks(chunks):
    return clist([clist([c_frame(f) for f in ch]) for ch in chunks])


def c_op(op):
    if op[0] == "cmd":
        return "(OCmd %d %s)" % (op[1], c_chunks(op[2]))
    if op[0] == "send":
        return "(OSend %s %s)" % ("None" if op[1] is None else "(Some %d)" % op[1], c_chunks(op[2]))
    if op[0] == "lock":
        return "OLock"
    if op[0] == "unlock":
        return "OUnlock"
    if op[0] == "sync":
        return "(OSync %d)" % op[1]
    if op[0] == "wait":
        return "(OWait %s)" % ("None" if op[1] is None else "(Some %d)" % op[1])
    raise ValueError(op)


def c_cfg(cfg, legacy=None):
    lg = legacy or LEGACY
    return "(mkConfig %s %s %d %s %s %s %s)" % (cbool(cfg["conn"]), cbool(cfg["virt"]), cfg["tmo"],
                                               cbool(lg["wait"]), cbool(lg["unlock"]), cbool(lg["lock"]), cbool(lg["sync"]))


def c_result(r):
    if r[0] == "ok":
        return "(ROk %s)" % c_msg(r[1:4])
    if r[0] == "timeout":
        return "RTimeout"
    return None


def c_obs(o):
    rets = [c_result(r) for r in o["returned"]]
    if any(r is None for r in rets):
        return None
    ml = lambda l: clist([c_msg(m) for m in l])
    return ("(mkObs %s %s %s %s %s %s %s %s %d %s %s %s %s)" % (
        clist(rets), ml(o["delivered"]), ml(o["dispatched"]),
        clist(["None" if m is None else "(Some %s)" % c_msg(m) for m in o["retrieved"]]),
        ml(o["out_q"]), ml(o["events"]), ml(o["locked_q"]), ml(o["sync_q"]),
        o["clock"], cbool(o["locked"]), cnat(min(o["late"], 4000)), cbool(o["adone"]), ml(o.get("cleared", []))))


def c_case(case, res, legacy=None):
    """Coq term of one case (None when the observation has no model counterpart, e.g. an
    exception class the model does not have)."""
    ob = c_obs(res["obs"])
    if ob is None:
        return None
    return "(%s, %s, %s, %s, %s, %s)" % (
        c_cfg(case["cfg"], legacy), clist([c_op(o) for o in case["script"]]), c_chunks(case.get("spont", [])),
        cbool(bool(case.get("locked0"))), clist(["%d" % a for a in res["sched"]]), ob)


def msgs_of(chunks):
    return [f for ch in chunks for f in ch if f is not None]


def filter_classes(script):
    return {op[1] for op in script if op[0] == "cmd" or (op[0] == "send" and op[1] is not None)}


def is_notif(fr, fcs):
    return fr[0] not in fcs


# ---------------------------------------------------------------------------------------
# running the driver in parallel batches
# ---------------------------------------------------------------------------------------

def run_driver(cases, script="C04.py", batch=40, jobs=None, timeout=600):
    """Run cases through harness/impl/<script> in parallel processes; results in order."""
    from concurrent.futures import ThreadPoolExecutor
    jobs = jobs or max(1, min(C.JOBS - 2, 12))
    parts = [cases[i:i + batch] for i in range(0, len(cases), batch)]

    def one(part):
        return C.run_impl(script, {"cases": part}, timeout=timeout)["results"]
    out = []
    with ThreadPoolExecutor(max_workers=jobs) as ex:
        for r in ex.map(one, parts):
            out += r
    return out


# ---------------------------------------------------------------------------------------
# generators
# ---------------------------------------------------------------------------------------

NOTIF_CLASSES = [0, 0, 0, 7, 8, 12]        # 0 = BLE PDU (packet); 7, 8 = discovery messages; 12 = BLE event
FILTER_CLASSES = [2, 3, 4, 5, 6]


class Uid:
    def __init__(self):
        self.n = 0

    def next(self):
        self.n += 1
        return self.n


def gen_notif(rng, uid):
    c = rng.choice(NOTIF_CLASSES)
    return [c, uid.next(), c == 0]


def gen_chunk(rng, uid, n, undec_p=0.15):
    out = []
    for _ in range(n):
        out.append(None if rng.random() < undec_p else gen_notif(rng, uid))
    return out


def gen_reaction(rng, uid, fc, kind):
    """kind: 'ok' (one response, notifications around), 'silent' (no response),
    'undec' (the response does not decode), 'other' (a response-looking message of a class
    no command waits for... i.e. just a notification)"""
    pre = gen_chunk(rng, uid, rng.choice([0, 0, 1, 2]))
    post = gen_chunk(rng, uid, rng.choice([0, 0, 1, 2]))
    if kind == "ok":
        mid = [[fc, uid.next(), False]]
    elif kind == "undec":
        mid = [None]
    else:
        mid = []
    frames = pre + mid + post
    if not frames:
        return []
    if len(frames) > 1 and rng.random() < 0.4:
        k = rng.randrange(1, len(frames))
        return [frames[:k], frames[k:]]
    return [frames]


def gen_cmd_script(rng, uid, ncmd, kinds=None):
    script, meta = [], []
    fcs = rng.sample(FILTER_CLASSES, k=min(ncmd, len(FILTER_CLASSES))) if rng.random() < 0.5 else \
        [rng.choice(FILTER_CLASSES[:2]) for _ in range(ncmd)]
    for i in range(ncmd):
        kind = (kinds[i] if kinds else rng.choice(["ok"] * 7 + ["silent", "undec", "silent"]))
        fc = fcs[i % len(fcs)]
        script.append(["cmd", fc, gen_reaction(rng, uid, fc, kind)])
        meta.append(kind)
    return script, meta


def gen_prefix(rng, n, weights=None, virt=False, conn=True):
    """A random schedule prefix: thread steps, ticks and emissions."""
    acts = [A] * 6 + [R] * 5 + ([] if virt else [W] * 4) + ([CIO] * 5 if conn else []) + [EMIT] * 2 + [TICK]
    if weights:
        acts = weights
    return [rng.choice(acts) for _ in range(n)]


# ---------------------------------------------------------------------------------------
# oracle helpers (the property on the implementation's observations)
# ---------------------------------------------------------------------------------------

def notifs(frames, fcs):
    return [list(f) for f in frames if f[0] not in fcs]


def h1h2(case):
    """The history meets H1 (exactly one message kept by a command filter in each reaction)
    and H2 (none in the spontaneous traffic)."""
    fcs = filter_classes(case["script"])
    for op in case["script"]:
        if op[0] == "cmd":
            r = [f for f in msgs_of(op[2]) if f[0] in fcs]
            if len(r) != 1 or r[0][0] != op[1]:        # ... and it is the one this command waits for
                return False
        elif op[0] == "send":
            if [f for f in msgs_of(op[2]) if f[0] in fcs]:
                return False
    return not [f for f in msgs_of(case.get("spont", [])) if f[0] in fcs]


def expected_response(op, fcs):
    r = [f for f in msgs_of(op[2]) if f[0] == op[1]]
    return r[0] if len(r) == 1 else None
