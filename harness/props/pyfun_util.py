"""Reusable harness step for the pure-function translator (harness/translators/pyfun.py).

    check_generated(ctx, pid, items=None) -> result dict

For the items of `harness/props/<pid>_pyfun.py` (source path, qualname, spec, model term, case
generator, live driver) this
 1. regenerates the Gallina from C.REPO (fail-closed) and compares it with the committed snapshot
    coq/theories/<pid>/Gen.v (header lines with line numbers / hashes excluded);
 2. builds theories/<pid> and checks `Print Assumptions` of every theorem of PropertyGen.v
    (the equality theorems gen_f = Model.f over the snapshot);
 3. when the regenerated text differs: compiles it with copies of GenEq.v / PropertyGen.v in
    build/<pid>/pyfun (logical name PyRegen) and re-checks the assumptions — the equality must hold
    for the text generated from THIS tree;
 4. validates the translator differentially: the live Python code (harness/impl/pyfun_driver.py)
    and gen_f (evaluated in Coq by vm_compute) on the same generated inputs; when the re-proof
    failed the same inputs are used to find the first input on which gen_f and the model differ;
 5. probes the one semantic assumption of the translator (int(a/b) = a//b below 2^53).
Fills ctx.cov["obligations"/"discharged"/"pyfun"/"source_ties"].  The caller folds
`res["ok"]`/`res["detail"]`/`res["first_case"]` into its normal verdict path (oracle first,
`ctx.broken_obligation` when no failing input of the property is found).

CLI:  python3 -m harness.props.pyfun_util <pid> [--write-snapshot]
"""
import concurrent.futures
import difflib
import importlib
import json
import os
import random
import re
import shutil
import sys

from harness import common as C

sys.path.insert(0, os.environ.get("PYFUN_DIR") or os.path.join(C.VERIF, "harness", "translators"))   # PYFUN_DIR: development copy
import pyfun as T  # noqa: E402


# ---------------------------------------------------------------------------
# generation
# ---------------------------------------------------------------------------

def items_of(pid):
    return importlib.import_module("harness.props.%s_pyfun" % pid)


def file_names(mod):
    """Module names of the snapshot / equality proofs / property file in theories/<pid>/ (a property that
    already owns a Gen.v, e.g. C20, sets FILES = {"gen": "GenPy", "eq": "GenPyEq", "prop": "PropertyGenPy"})."""
    f = {"gen": "Gen", "eq": "GenEq", "prop": "PropertyGen"}
    f.update(getattr(mod, "FILES", {}) or {})
    return f


def regenerate(pid, mod=None, repo=None):
    """-> (module text or None, infos, errors).  errors = [(item name, message)]."""
    mod = mod or items_of(pid)
    repo = repo or C.REPO
    parts, infos, errors = [], [], []
    for it in mod.ITEMS:
        try:
            text, info = T.translate_info(os.path.join(repo, it["path"]), it["qualname"], it["spec"], relpath=it["path"])
            parts.append(text)
            infos.append(info)
        except (T.Unsupported, OSError, SyntaxError, KeyError) as e:
            errors.append((it["spec"]["name"], "%s: %s" % (type(e).__name__, e)))
            infos.append(None)
    if errors:
        return None, infos, errors
    return T.module_text(mod.TITLE, parts), infos, errors


# ---------------------------------------------------------------------------
# Coq literals / equality tests by type
# ---------------------------------------------------------------------------

def parse_type(s):
    """'list (list bytes)' / '(nat * N)' / 'bytes' -> nested structure."""
    s = s.strip()
    while s.startswith("(") and _matching(s, 0) == len(s) - 1:
        s = s[1:-1].strip()
    parts = _split_top(s, "*")
    if len(parts) > 1:
        return ("tuple", [parse_type(p) for p in parts])
    if s.startswith("list "):
        return ("list", parse_type(s[5:]))
    if s in ("nat", "N", "bool", "bytes"):
        return s
    raise C.CheckBroken("pyfun_util: cannot parse Coq type %r" % s)


def _matching(s, i):
    d = 0
    for j in range(i, len(s)):
        if s[j] == "(":
            d += 1
        elif s[j] == ")":
            d -= 1
            if d == 0:
                return j
    return -1


def _split_top(s, sep):
    out, d, cur = [], 0, ""
    for ch in s:
        if ch == "(":
            d += 1
        elif ch == ")":
            d -= 1
        if ch == sep and d == 0:
            out.append(cur)
            cur = ""
        else:
            cur += ch
    out.append(cur)
    return out


def lit(t, v):
    if t == "nat":
        return "%d%%nat" % v if v < 5000 else "(N.to_nat %d%%N)" % v
    if t == "N":
        return "%d%%N" % v
    if t == "bool":
        return "true" if v else "false"
    if t == "bytes":
        return "([" + ";".join("%d" % x for x in bytes.fromhex(v["b"])) + "]%N : bytes)"
    if t[0] == "list":
        return "[" + "; ".join(lit(t[1], x) for x in v) + "]"
    if t[0] == "tuple":
        return "(" + ", ".join(lit(a, x) for a, x in zip(t[1], v)) + ")"
    raise C.CheckBroken("pyfun_util: literal of type %r" % (t,))


def well_typed(t, v):
    if t in ("nat", "N"):
        return isinstance(v, int) and not isinstance(v, bool) and v >= 0
    if t == "bool":
        return isinstance(v, bool)
    if t == "bytes":
        return isinstance(v, dict) and "b" in v
    if t[0] == "list":
        return isinstance(v, list) and all(well_typed(t[1], x) for x in v)
    if t[0] == "tuple":
        return isinstance(v, list) and len(v) == len(t[1]) and all(well_typed(a, x) for a, x in zip(t[1], v))
    return False


def eqb(t):
    if t == "nat":
        return "Nat.eqb"
    if t == "N":
        return "N.eqb"
    if t == "bool":
        return "Bool.eqb"
    if t == "bytes":
        return "bytes_eqb"
    if t[0] == "list":
        return "(list_eqb %s)" % eqb(t[1])
    if t[0] == "tuple":
        n = len(t[1])
        xs = ", ".join("x%d" % i for i in range(n))
        ys = ", ".join("y%d" % i for i in range(n))
        body = " && ".join("%s x%d y%d" % (eqb(a), i, i) for i, a in enumerate(t[1]))
        return "(fun x y => let '(%s) := x in let '(%s) := y in %s)" % (xs, ys, body)
    raise C.CheckBroken("pyfun_util: eqb of type %r" % (t,))


def render(t):
    if isinstance(t, str):
        return t
    if t[0] == "list":
        return "list (%s)" % render(t[1])
    return "(" + " * ".join("(%s)" % render(a) for a in t[1]) + ")"


def enc(v):
    if isinstance(v, (bytes, bytearray)):
        return {"b": bytes(v).hex()}
    return v


# ---------------------------------------------------------------------------
# re-proof against regenerated text
# ---------------------------------------------------------------------------

def _rewrite_imports(src, pid, names):
    """`From Whad Require Import ... <pid>.Gen <pid>.GenEq ...` -> the regenerated copies (PyRegen)."""
    out = []
    for line in src.splitlines():
        m = re.match(r"^From Whad Require Import (.*)\.\s*$", line)
        if m:
            mods = m.group(1).split()
            mine = [x for x in mods if x in (pid + "." + names["gen"], pid + "." + names["eq"])]
            rest = [x for x in mods if x not in mine]
            line = ""
            if rest:
                line += "From Whad Require Import %s.\n" % " ".join(rest)
            if mine:
                line += "From PyRegen Require Import %s." % " ".join(x.split(".")[1] for x in mine)
        out.append(line)
    return "\n".join(out) + "\n"


def reprove(pid, text, names=None):
    """Compile the regenerated Gen.v + copies of GenEq.v / PropertyGen.v in build/<pid>/pyfun.
    -> (ok, failed_file or None, log, n_theorems)"""
    names = names or file_names(None)
    G, Q, P = names["gen"] + ".v", names["eq"] + ".v", names["prop"] + ".v"
    d = os.path.join(C.build_dir(pid), "pyfun")
    shutil.rmtree(d, ignore_errors=True)
    os.makedirs(d)
    tdir = os.path.join(C.COQ, "theories", pid)
    open(os.path.join(d, G), "w").write(text)
    for fn in (Q, P):
        open(os.path.join(d, fn), "w").write(_rewrite_imports(open(os.path.join(tdir, fn)).read(), pid, names))
    thms = C.property_theorems(pid, P)
    with open(os.path.join(d, "AssumeGen.v"), "w") as f:
        f.write("From PyRegen Require Import %s.\n" % names["prop"])
        for n in thms:
            f.write('Goal True. idtac "BEGIN %s". Abort.\nPrint Assumptions %s.\nGoal True. idtac "END %s". Abort.\n' % (n, n, n))
    hits = C.forbidden_scan([d])
    if hits:
        return False, "forbidden", "forbidden declarations in regenerated files: " + "; ".join(hits[:3]), len(thms)
    out = ""
    for fn in (G, Q, P, "AssumeGen.v"):
        rc, out = C.coqc_file(os.path.join(d, fn), extra_Q=[(d, "PyRegen")], timeout=300)
        if rc != 0:
            return False, ("Gen.v" if fn == G else "GenEq.v" if fn == Q else fn), out[-2500:], len(thms)
    closed = sum(1 for n in thms if ("BEGIN %s\nClosed under the global context" % n) in out.replace("\r", ""))
    if closed != len(thms):
        return False, "AssumeGen.v", "only %d/%d theorems closed under the global context:\n%s" % (closed, len(thms), out[-1500:]), len(thms)
    return True, None, "", len(thms)


# ---------------------------------------------------------------------------
# the step
# ---------------------------------------------------------------------------

def check_generated(ctx, pid, items=None, ncases=None):
    mod = items or items_of(pid)
    names = file_names(mod)
    res = {"ok": True, "detail": "", "first_case": None, "what": None, "problems": []}
    cov = {"items": [], "identical_to_snapshot": None}
    ctx.cov["pyfun"] = cov
    ctx.cov.setdefault("source_ties", [])
    ncases = ncases or (600 if ctx.thorough else 200)

    def fail(what, detail, first=None):
        res["ok"] = False
        res["problems"].append({"what": what, "detail": detail[-3000:], "first_case": first})
        if res["what"] is None:
            res["what"], res["first_case"] = what, first
        res["detail"] += "\n[pyfun] %s:\n%s" % (what, detail[-3000:])

    import time
    t0 = time.time()
    # ---- 2. theorems over the snapshot (PropertyGen.v) --------------------------------
    saved_cmd = ctx.cov.get("checker_cmd", "")
    ok, detail = ctx.check_proofs(property_file=names["prop"] + ".v", lib_targets=["theories/Lib/Bytes.vo", "theories/Lib/PyOps.vo"])
    ctx.cov["checker_cmd"] = (saved_cmd + " ; " if saved_cmd else "") + ctx.cov.get("checker_cmd", "")
    cov["snapshot_theorems"] = detail.splitlines()[0][:200]
    if not ok:
        fail("equality theorems over the committed snapshot theories/%s/%s.v (%s.v)" % (pid, names["gen"], names["prop"]), detail)

    t1 = time.time()
    # ---- 1. regenerate -----------------------------------------------------------------
    nitems = len(mod.ITEMS)
    ctx.cov["obligations"] += nitems          # one translation per item
    text, infos, errors = regenerate(pid, mod)
    ctx.cov["discharged"] += nitems - len(errors)
    for it, info in zip(mod.ITEMS, infos):
        if info:
            cov["items"].append({k: info[k] for k in ("name", "qualname", "file", "lines", "sha256", "mode", "ret")})
            ctx.cov["source_ties"].append(C.source_tie(info["file"], info["lines"][0], info["lines"][1]))
    if errors:
        cov["translator_errors"] = errors
        fail("translator (fail-closed) could not translate: " + ", ".join(n for n, _ in errors),
             "\n".join("%s: %s" % e for e in errors))
    snap_path = os.path.join(C.COQ, "theories", pid, names["gen"] + ".v")
    snap = open(snap_path).read()
    d = C.build_dir(pid)
    usable = False
    ctx.cov["obligations"] += 1               # equality holds for the text generated from this tree
    if text is not None:
        open(os.path.join(d, "Gen_current.v"), "w").write(text)
        same = T.strip_headers(text) == T.strip_headers(snap)
        cov["identical_to_snapshot"] = same
        if same:
            usable = True
            if ok:
                ctx.cov["discharged"] += 1
                cov["equality"] = "regenerated text identical to the snapshot: covered by theories/%s/%s.vo, %s.vo built in this run" % (pid, names["eq"], names["prop"])
        else:
            diff = "".join(difflib.unified_diff(T.strip_headers(snap).splitlines(True), T.strip_headers(text).splitlines(True),
                                                "theories/%s/%s.v (snapshot)" % (pid, names["gen"]), "regenerated from " + C.REPO, n=2))
            cov["diff"] = diff[:4000]
            rok, failed, log, nthm = reprove(pid, text, names)
            usable = failed != "Gen.v"
            if rok:
                ctx.cov["discharged"] += 1
                cov["equality"] = "regenerated text differs from the snapshot; GenEq.v / PropertyGen.v re-proved against it (%d theorems closed)" % nthm
                ctx.notes.append("pyfun: regenerated Gallina differs from theories/%s/%s.v but all equality theorems were re-proved" % (pid, names["gen"]))
            else:
                cov["equality"] = "regenerated text differs from the snapshot and %s does not check against it" % failed
                fail("generated Gallina differs from theories/%s/%s.v and the equality with the model is NOT re-proved (%s)" % (pid, names["gen"], failed),
                     "diff snapshot -> regenerated:\n" + diff[:2500] + "\ncoqc:\n" + log)

    t2 = time.time()
    # ---- 4. differential validation (+ search of a gen/model disagreement) ---------------
    if text is not None and usable:
        _differential(ctx, pid, mod, text, infos, ncases, cov, fail, res)
    # compact summary, most important part last (Ctx.broken_obligation keeps the last 4000 characters)
    if res["problems"]:
        parts = []
        for pb in res["problems"][:3]:
            parts.append("[pyfun] %s\n%s" % (pb["what"], pb["detail"][:1100]))
        fc = first_case(res)
        if fc is not None:
            parts.append("[pyfun] first input on which the regenerated function and the model (or the live code) differ: "
                         + json.dumps(fc, sort_keys=True)[:700])
        res["detail"] = "\n" + "\n".join(parts)
        res["first_case"] = fc
    cov["problems"] = [pb["what"] for pb in res["problems"]]
    cov["wall_s"] = {"snapshot_theorems": round(t1 - t0, 1), "regenerate_compare_reprove": round(t2 - t1, 1),
                     "differential": round(time.time() - t2, 1)}
    return res


def _differential(ctx, pid, mod, text, infos, ncases, cov, fail, res):
    rng = random.Random("pyfun-%s-%d" % (pid, ctx.seed))   # derived from the seed; leaves ctx.rng's stream untouched
    search_model = not res["ok"]
    req_items, all_cases = [], []
    for it in mod.ITEMS:
        cases = [it["gen"](rng) for _ in range(min(ncases, it.get("ncases", ncases)) if not ctx.thorough else ncases)]
        all_cases.append(cases)
        req_items.append({"path": it["path"], "qualname": it["qualname"], "spec": it["spec"], "live": it["live"],
                          "cases": [{k: enc(v) for k, v in c.items()} for c in cases]})
    r = C.run_impl("pyfun_driver.py", {"items": req_items, "probe": True})
    ctx.cov["obligations"] += len(mod.ITEMS) + 1
    # semantic assumption probe
    pr = r["probe"]
    cov["truediv_probe"] = pr
    if pr["bad_below_2_53"]:
        fail("semantic assumption int(a/b) == a//b below 2^53 fails on this interpreter", repr(pr["bad_below_2_53"][:3]))
    else:
        ctx.cov["discharged"] += 1
    head = [text, "From Whad Require Import Lib.PyOps.", getattr(mod, "MODEL_IMPORT", ""), "Open Scope N_scope."]
    jobs, plan = [], []
    for k, (it, info, cases) in enumerate(zip(mod.ITEMS, infos, all_cases)):
        ptypes = [p[1] for p in info["params"]]
        pnames = [p[0] for p in info["params"]]
        rt = parse_type(info["ret"])
        outs = r["items"][k]["out"]
        terms, keep = [], []
        nexc = 0
        for ci, (c, o) in enumerate(zip(cases, outs)):
            if "exc" in o or not well_typed(rt, o["v"]):
                nexc += 1
                continue
            args = [lit(pt, enc(c[pn]) if pt == "bytes" else c[pn]) for pn, pt in zip(pnames, ptypes)]
            terms.append("(" + ", ".join(args + [lit(rt, o["v"])]) + ")")
            keep.append(ci)
        ctype = " * ".join("(%s)" % p for p in ptypes + [render(rt)])
        pat = ", ".join(pnames + ["obs__"])
        call = "%s %s" % (info["name"], " ".join(pnames))
        pre = list(head)
        pre.append("Definition cases_ : list (%s) := [\n%s\n]." % (ctype, ";\n".join(terms)))
        pre.append("Definition chk_ (c : %s) : bool := let '(%s) := c in %s (%s) obs__." % (ctype, pat, eqb(rt), call))
        exprs = ["bad_idx chk_ 0%nat cases_"]
        plan.append(("live", k, keep, nexc))
        if search_model and it.get("model"):
            when = it.get("model_when")
            body = "%s (%s) (%s)" % (eqb(rt), call, it["model"])
            if when:
                body = "if %s then %s else true" % (when, body)
            pre.append("Definition chm_ (c : %s) : bool := let '(%s) := c in %s." % (ctype, pat, body))
            exprs.append("bad_idx chm_ 0%nat cases_")
            plan.append(("model", k, keep, nexc))
        jobs.append((k, "\n".join(pre), exprs))
    with concurrent.futures.ThreadPoolExecutor(max_workers=min(C.JOBS, 12)) as ex:
        futs = [ex.submit(C.coq_eval, pid, "pyfun_diff_%d" % k, pre, exprs, 600) for k, pre, exprs in jobs]
        outs = [o for f in futs for o in f.result()]
    total = 0
    for (kind, k, keep, nexc), o in zip(plan, outs):
        bad = [int(x.replace("%nat", "")) for x in re.findall(r"\d+(?:%nat)?", o)]
        it, cases = mod.ITEMS[k], all_cases[k]
        name = infos[k]["name"]
        def show(ci):
            return {"item": name, "args": {a: (enc(v)["b"] if isinstance(v, (bytes, bytearray)) else v) for a, v in cases[ci].items()},
                    "python": r["items"][k]["out"][ci]}
        if kind == "live":
            total += len(keep)
            ent = next(e for e in cov["items"] if e["name"] == name)
            ent["differential_cases"], ent["differential_bad"], ent["live_raised_or_ill_typed"] = len(keep), len(bad), nexc
            if bad or nexc > len(cases) // 2:
                first = show(keep[bad[0]]) if bad else {"item": name, "python": [x for x in r["items"][k]["out"] if "exc" in x][:1]}
                fail("translator validation: %s evaluated in Coq differs from the live Python code on %d/%d inputs (%d raised)"
                     % (name, len(bad), len(keep), nexc), repr(first), first)
            else:
                ctx.cov["discharged"] += 1
        elif bad:
            first = show(keep[bad[0]])
            first["model_term"] = it["model"]
            for p in res["problems"]:
                if p["first_case"] is None:
                    p["first_case"] = first
            cov.setdefault("gen_vs_model_disagreements", {})[name] = {"n": len(bad), "first": first}
    cov["differential_total"] = total


def first_case(res):
    for p in res["problems"]:
        if p["first_case"] is not None:
            return p["first_case"]
    return res.get("first_case")


# ---------------------------------------------------------------------------
# CLI
# ---------------------------------------------------------------------------

def main(argv):
    pid = argv[1]
    text, _infos, errors = regenerate(pid)
    if errors:
        for e in errors:
            print("ERROR %s: %s" % e)
        return 1
    if "--write-snapshot" in argv:
        p = os.path.join(C.COQ, "theories", pid, file_names(items_of(pid))["gen"] + ".v")
        open(p, "w").write(text)
        print("wrote", p)
    else:
        sys.stdout.write(text)
    return 0


if __name__ == "__main__":
    sys.exit(main(sys.argv))
