"""C03 — Hub packet <-> message translation is lossless in every domain.  See DESIGN.md §2 C03
and design/C03.md.

Pipeline: (1) build + Print Assumptions of theories/C03; (2) generate PDUs of every LLID / opcode /
frame type x metadata valuations, packets as connectors build them, and a malformed stream;
(3) run the real wrapper classes (harness/impl/C03.py, one process) and, separately, scapy alone on
the codec queries the model makes; (4) oracle = the property on the real code's outputs;
(5) correspondence model vs implementation evaluated inside Coq; (6) verdict.
"""
import json, os, struct
from harness import common as C
from harness.props import C03_util as U
from harness.props.C03_util import RSSI, TS

PID = "C03"
K_PREAMBLE = "unifying.preamble-forced-aa"
K_PHYRAW = "phy.send_raw-drops-packet-bytes"


def H(b):
    return {"hex": bytes(b).hex()}


# ---------------------------------------------------------------------------------------------
# generation
# ---------------------------------------------------------------------------------------------
class Gen:
    def __init__(self, ctx):
        self.rng, self.thorough, self.cases = ctx.rng, ctx.thorough, []

    def add(self, req, tag, kind, **meta):
        meta.update({"req": req, "tag": tag, "kind": kind})
        self.cases.append(meta)

    # -- metadata valuations -----------------------------------------------------------------
    def optvals(self, names, present):
        r, v = self.rng, {}
        for n in names:
            if n not in present:
                continue
            if n == "rssi":
                v[n] = r.choice(RSSI)
            elif n in ("timestamp", "relative_timestamp"):
                v[n] = r.choice(TS)
            elif n in ("crc_validity", "fcs_validity"):
                v[n] = r.random() < 0.5
            elif n == "lqi":
                v[n] = r.choice([0, 1, 200, 255])
            elif n == "address":
                v[n] = H(U.rbytes(r, r.choice([5, 5, 3, 4])))
        return v

    def pick(self, names):
        return [n for n in names if self.rng.random() < 0.65]

    # -- message -> packet -> message ---------------------------------------------------------
    def m2p2m(self):
        r, T = self.rng, self.thorough
        data = U.ble_data_pdus(r, T)
        advs = U.ble_adv_pdus(r, T)
        BO = ["rssi", "timestamp", "relative_timestamp", "crc_validity"]

        def ble_raw(pdu, aa, present, ch):
            f = {"direction": r.randrange(5), "channel": ch, "access_address": aa, "pdu": H(pdu),
                 "crc": r.choice([0, 1, 0xFFFFFF, r.randrange(1 << 24)]), "conn_handle": r.choice([0, 1, 0xFFFF]),
                 "processed": r.random() < .5, "decrypted": r.random() < .5}
            f.update(self.optvals(BO, present))
            return f
        for tag, pdu in data:
            self.add({"op": "m2p2m", "cls": "ble.pdu", "fields": {
                "direction": r.randrange(5), "pdu": H(pdu), "conn_handle": r.choice([0, 1, 0xFFFF, 2 ** 32 - 1]),
                "processed": r.random() < .5, "decrypted": r.random() < .5}}, tag, "wf", valid=len(pdu) >= 2)
            self.add({"op": "m2p2m", "cls": "ble.raw_pdu", "fields": ble_raw(
                pdu, r.choice([0x11223344, 0, 0xFFFFFFFF, 0x8E89BED5]), self.pick(BO), r.randrange(37))},
                tag, "wf", valid=len(pdu) >= 2)
        for tag, pdu, carried in advs:
            self.add({"op": "m2p2m", "cls": "ble.raw_pdu", "fields": ble_raw(pdu, U.ADV_AA, self.pick(BO), r.choice([37, 38, 39]))},
                     tag, "wf", valid=True)
            t = pdu[0] & 0xF
            if t in U.ADV_TYPE_OF_PDU:
                data_ = pdu[8:]
                self.add({"op": "m2p2m", "cls": "ble.adv_pdu", "fields": {
                    "adv_type": U.ADV_TYPE_OF_PDU[t], "rssi": r.choice(RSSI), "bd_address": H(pdu[2:8]),
                    "adv_data": H(data_), "addr_type": (pdu[0] >> 6) & 1}}, tag, "wf", valid=True)
        # every presence combination of the optional items x boundary values, on one PDU per class
        fixed = data[40][1]
        for present in U.subsets(BO):
            for _ in range(2):
                self.add({"op": "m2p2m", "cls": "ble.raw_pdu", "fields": ble_raw(fixed, 0x50654321, present, r.randrange(40))},
                         "presence-" + "+".join(present), "wf", valid=True)
        for ch in range(40):
            self.add({"op": "m2p2m", "cls": "ble.raw_pdu", "fields": ble_raw(fixed, 0x50654321, BO, ch)}, "channel-%d" % ch, "wf", valid=True)
        # malformed BLE
        for at in (0, 6, 100):
            self.add({"op": "m2p2m", "cls": "ble.adv_pdu", "fields": {"adv_type": at, "rssi": -1, "bd_address": H(b"\x01" * 6),
                                                                     "adv_data": H(b"\x02\x01\x06"), "addr_type": 0}}, "unknown-adv-type-%d" % at, "malformed")
        for n in (0, 3, 5):
            self.add({"op": "m2p2m", "cls": "ble.adv_pdu", "fields": {"adv_type": 1, "rssi": -1, "bd_address": H(b"\x01" * n),
                                                                     "adv_data": H(b""), "addr_type": 1}}, "short-bd-address-%d" % n, "malformed")
        self.add({"op": "m2p2m", "cls": "ble.adv_pdu", "fields": {"adv_type": 2, "rssi": -1, "bd_address": H(b"\x01" * 6),
                                                                 "adv_data": H(b"\x02\x01"), "addr_type": 1}}, "direct-short-inita", "malformed")
        self.add({"op": "m2p2m", "cls": "ble.adv_pdu", "fields": {"adv_type": 1, "rssi": -1, "bd_address": H(b"\x01" * 6),
                                                                 "adv_data": H(b"\x05\x09\x41"), "addr_type": 1}}, "truncated-eir", "malformed")
        for n in (0, 1):
            self.add({"op": "m2p2m", "cls": "ble.pdu", "fields": {"direction": 1, "pdu": H(b"\x02" * n), "conn_handle": 1,
                                                                 "processed": False, "decrypted": False}}, "pdu-len%d" % n, "malformed")
            self.add({"op": "m2p2m", "cls": "ble.raw_pdu", "fields": ble_raw(b"\x02" * n, 0x11223344, BO, 3)}, "rawpdu-len%d" % n, "malformed")

        # 802.15.4
        DO = ["rssi", "timestamp", "fcs_validity", "lqi"]
        frames = U.d15_frames(r, T)
        for i, (tag, pdu) in enumerate(frames + U.d15_malformed(r)):
            kind = "wf" if i < len(frames) else "malformed"
            for proto in ([None, "zigbee"] if (T or i % 3 == 0) else [None]):
                ptag = tag + ("/" + proto if proto else "")
                f = {"channel": r.randrange(11, 27), "pdu": H(pdu)}
                f.update(self.optvals(DO, self.pick(DO)))
                req = {"op": "m2p2m", "cls": "dot15d4.pdu", "fields": f}
                f2 = dict(f, fcs=r.choice([U.crc_kermit(pdu), U.crc_kermit(pdu), 0, 0xFFFF, 0x1234]))
                f2.update(self.optvals(DO, self.pick(DO)))
                req2 = {"op": "m2p2m", "cls": "dot15d4.raw_pdu", "fields": f2}
                if proto:
                    req["d15proto"] = req2["d15proto"] = proto
                self.add(req, ptag, kind, valid=kind == "wf", proto=proto)
                self.add(req2, ptag, kind, valid=kind == "wf", proto=proto)
        fixed = frames[5][1]
        for present in U.subsets(DO):
            f = {"channel": r.randrange(11, 27), "pdu": H(fixed)}
            f.update(self.optvals(DO, present))
            self.add({"op": "m2p2m", "cls": "dot15d4.pdu", "fields": f}, "presence-" + "+".join(present), "wf", valid=True)
            f = dict(f, fcs=U.crc_kermit(fixed))
            f.update(self.optvals(DO, present))
            self.add({"op": "m2p2m", "cls": "dot15d4.raw_pdu", "fields": f}, "presence-" + "+".join(present), "wf", valid=True)
        for ch in range(11, 27):
            self.add({"op": "m2p2m", "cls": "dot15d4.pdu", "fields": {"channel": ch, "pdu": H(fixed), "rssi": -ch, "lqi": ch}},
                     "channel-%d" % ch, "wf", valid=True)

        # ESB / Unifying
        EO = ["rssi", "timestamp", "crc_validity", "address"]
        for dom, uni in (("esb", False), ("unifying", True)):
            pays, frs = U.esb_payloads(r, uni, T), U.esb_frames(r, uni, T)
            for tag, pdu in pays:
                f = {"channel": r.randrange(0, 101), "pdu": H(pdu)}
                f.update(self.optvals(EO, self.pick(EO)))
                self.add({"op": "m2p2m", "cls": dom + ".pdu", "fields": f}, tag, "wf", valid="badck" not in tag, strict=True)
            for tag, pdu in frs + [("frame-empty", b""), ("frame-short", b"\xaa\x01"), ("frame-garbage", U.rbytes(r, 9))]:
                f = {"channel": r.randrange(0, 101), "pdu": H(pdu)}
                f.update(self.optvals(EO, self.pick(EO)))
                ok = tag.startswith("frame-") and tag not in ("frame-empty", "frame-short", "frame-garbage", "frame-badcrc",
                                                              "frame-aa-pre", "frame-55-pre", "frame-uni-badck")
                self.add({"op": "m2p2m", "cls": dom + ".raw_pdu", "fields": f}, tag, "wf" if ok else "malformed", valid=ok)
            for present in U.subsets(EO):
                f = {"channel": r.choice([0, 5, 100, 255]), "pdu": H(pays[4][1])}
                f.update(self.optvals(EO, present))
                self.add({"op": "m2p2m", "cls": dom + ".pdu", "fields": f}, "presence-" + "+".join(present), "wf", valid=True, strict=True)
                f = dict(f, pdu=H(frs[4][1]))
                f.update(self.optvals(EO, present))
                self.add({"op": "m2p2m", "cls": dom + ".raw_pdu", "fields": f}, "presence-" + "+".join(present), "wf", valid=True)

        # PHY
        PO = ["rssi", "timestamp"]
        for k in ("phy.packet", "phy.packet@2", "phy.raw_packet", "phy.raw_packet@2"):
            for n in ([0, 1, 2, 5, 31, 32, 64, 255, 256, 300] if not T else list(range(0, 300, 7))):
                for present in (list(U.subsets(PO)) if n in (5, 7) else [self.pick(PO)]):
                    f = {"frequency": r.choice([0, 433920000, 2402000000, 2 ** 32 - 1]), "packet": H(U.rbytes(r, n))}
                    f.update(self.optvals(PO, present))
                    if k.endswith("@2"):
                        f.update({"syncword": H(U.rbytes(r, r.choice([0, 2, 4]))), "deviation": r.choice([0, 250000, 2 ** 32 - 1]),
                                  "datarate": r.choice([0, 1000000]), "endian": r.randrange(2), "modulation": r.randrange(8)})
                    self.add({"op": "m2p2m", "cls": k, "fields": f}, "len%d-%s" % (n, "+".join(present)), "wf", valid=True, strict=True)
        for k in ("phy.packet@2", "phy.raw_packet@2"):
            self.add({"op": "m2p2m", "cls": k, "fields": {"frequency": 1, "packet": H(b"ab"), "endian": 5}}, "endian-5", "malformed")
            self.add({"op": "m2p2m", "cls": k, "fields": {"frequency": 1, "packet": H(b"ab"), "modulation": 9}}, "modulation-9", "malformed")

    # -- packet -> message -> packet ----------------------------------------------------------
    def md_for(self, cls, base, drop=(), extra=None):
        md = dict(base)
        for k in drop:
            md[k] = None
        if extra:
            md.update(extra)
        return md

    def p2m2p(self):
        r, T = self.rng, self.thorough
        data = U.ble_data_pdus(r, T)
        advs = U.ble_adv_pdus(r, T)

        def ble_md(raw, opt=()):
            md = {"cls": "BLEMetadata", "raw": raw, "direction": r.randrange(5), "connection_handle": r.choice([0, 7, 0xFFFF]),
                  "decrypted": r.random() < .5, "processed": r.random() < .5}
            if raw:
                md["channel"] = r.randrange(40)
                if "rssi" in opt:
                    md["rssi"] = r.choice(RSSI)
                if "timestamp" in opt:
                    md["timestamp"] = r.choice(TS)
                if "relative_timestamp" in opt:
                    md["relative_timestamp"] = r.choice(TS)
                if "is_crc_valid" in opt:
                    md["is_crc_valid"] = r.random() < .5
            return md
        BO = ["rssi", "timestamp", "relative_timestamp", "is_crc_valid"]
        step = 1 if T else 3
        for i, (tag, pdu) in enumerate(data):
            if len(pdu) < 2:
                continue
            if i % step == 0:
                self.add({"op": "p2m2p", "cls": "ble.pdu", "pkt": {"layer": "BTLE_DATA", "bytes": pdu.hex(), "md": ble_md(False)}}, tag, "wf")
            full = struct.pack("<I", r.choice([0x11223344, 0x50654321, 0])) + pdu + U.rbytes(r, 3)
            if i % step == 1 or T:
                clear = ["crc"] if i % 2 else []
                self.add({"op": "p2m2p", "cls": "ble.raw_pdu", "pkt": {"layer": "BTLE", "bytes": full.hex(), "clear": clear,
                                                                      "md": ble_md(True, self.pick(BO))}}, tag + ("/crc-computed" if clear else ""), "wf")
        for tag, pdu, carried in advs:
            full = struct.pack("<I", U.ADV_AA) + pdu + U.rbytes(r, 3)
            self.add({"op": "p2m2p", "cls": "ble.raw_pdu", "pkt": {"layer": "BTLE", "bytes": full.hex(), "md": ble_md(True, self.pick(BO))}}, tag, "wf")
            md = {"cls": "BLEMetadata", "raw": False, "direction": 0, "rssi": r.choice(RSSI)}
            self.add({"op": "p2m2p", "cls": "ble.adv_pdu", "pkt": {"layer": "BTLE_ADV", "bytes": pdu.hex(), "md": md}}, tag,
                     "wf" if carried else ("projection" if (pdu[0] & 0xF) == 1 else "unrepresentable"))
        fixed = data[40][1]
        full = struct.pack("<I", 0x50654321) + fixed + b"\x01\x02\x03"
        for present in U.subsets(BO):
            self.add({"op": "p2m2p", "cls": "ble.raw_pdu", "pkt": {"layer": "BTLE", "bytes": full.hex(), "md": ble_md(True, present)}},
                     "presence-" + "+".join(present), "wf")
        # projection: items the message kind does not carry
        self.add({"op": "p2m2p", "cls": "ble.pdu", "pkt": {"layer": "BTLE_DATA", "bytes": fixed.hex(),
                                                          "md": dict(ble_md(False), rssi=-40, channel=3, timestamp=9)}}, "extra-items", "projection")
        self.add({"op": "p2m2p", "cls": "ble.pdu", "pkt": {"layer": "BTLE", "bytes": full.hex(), "md": ble_md(True, BO)}}, "btle-top", "projection")
        self.add({"op": "p2m2p", "cls": "ble.adv_pdu", "pkt": {"layer": "BTLE", "bytes": (struct.pack("<I", U.ADV_AA) + advs[3][1] + b"\x01\x02\x03").hex(),
                                                              "md": ble_md(True, BO)}}, "btle-top", "projection")
        # unrepresentable: no suitable layer
        for cls, lay, b in (("ble.pdu", "Raw", fixed), ("ble.pdu", "BTLE_CTRL", b"\x12\x13"), ("ble.pdu", "BTLE_ADV", advs[3][1]),
                            ("ble.raw_pdu", "BTLE_DATA", fixed), ("ble.raw_pdu", "Raw", fixed), ("ble.adv_pdu", "BTLE_DATA", fixed),
                            ("ble.adv_pdu", "Raw", fixed)):
            self.add({"op": "p2m2p", "cls": cls, "pkt": {"layer": lay, "bytes": b.hex(), "md": ble_md(lay == "BTLE", BO)}},
                     "layer-" + lay, "unrepresentable")
        # metadata items missing / None
        for item in ("direction", "connection_handle", "decrypted", "processed"):
            md = ble_md(False)
            md[item] = None
            self.add({"op": "p2m2p", "cls": "ble.pdu", "pkt": {"layer": "BTLE_DATA", "bytes": fixed.hex(), "md": md}}, "none-" + item, "mdnone", dom="ble")
        md = ble_md(False)
        del md["processed"]
        self.add({"op": "p2m2p", "cls": "ble.pdu", "pkt": {"layer": "BTLE_DATA", "bytes": fixed.hex(), "md": md}}, "missing-processed", "mdnone", dom="ble")
        for item in ("direction", "connection_handle", "decrypted", "processed", "channel"):
            md = ble_md(True, BO)
            md[item] = None
            self.add({"op": "p2m2p", "cls": "ble.raw_pdu", "pkt": {"layer": "BTLE", "bytes": full.hex(), "md": md}}, "none-" + item, "mdnone", dom="ble")
        self.add({"op": "p2m2p", "cls": "ble.adv_pdu", "pkt": {"layer": "BTLE_ADV", "bytes": advs[3][1].hex(),
                                                              "md": {"cls": "BLEMetadata", "raw": False}}}, "none-rssi", "mdnone", dom="ble")
        self.add({"op": "p2m2p", "cls": "ble.pdu", "pkt": {"layer": "BTLE_DATA", "bytes": fixed.hex(), "md": None}}, "no-metadata", "mdnone", dom="ble")
        self.add({"op": "p2m2p", "cls": "ble.raw_pdu", "pkt": {"layer": "BTLE", "bytes": full.hex(), "md": dict(ble_md(True), rssi=2 ** 40)}},
                 "rssi-out-of-range", "mdnone", dom="ble")

        # 802.15.4
        DO = ["rssi", "timestamp", "is_fcs_valid", "lqi"]

        def d15_md(present, **kw):
            md = {"cls": "Dot15d4Metadata", "channel": r.randrange(11, 27), "decrypted": False}
            if "rssi" in present:
                md["rssi"] = r.choice(RSSI)
            if "timestamp" in present:
                md["timestamp"] = r.choice(TS)
            if "is_fcs_valid" in present:
                md["is_fcs_valid"] = r.random() < .5
            if "lqi" in present:
                md["lqi"] = r.choice([0, 255, 77])
            md.update(kw)
            return md
        frames = U.d15_frames(r, T)
        for i, (tag, pdu) in enumerate(frames):
            if T or i % 2 == 0:
                self.add({"op": "p2m2p", "cls": "dot15d4.pdu", "pkt": {"layer": "Dot15d4", "bytes": pdu.hex(), "md": d15_md(self.pick(DO))}}, tag, "wf")
            if T or i % 2 == 1:
                clear = ["fcs"] if i % 4 == 1 else []
                fr = pdu + struct.pack("<H", U.crc_kermit(pdu) if i % 3 else 0x1234)
                self.add({"op": "p2m2p", "cls": "dot15d4.raw_pdu", "pkt": {"layer": "Dot15d4FCS", "bytes": fr.hex(), "clear": clear,
                                                                          "md": d15_md(self.pick(DO))}}, tag + ("/fcs-computed" if clear else ""), "wf")
        fixed15 = frames[5][1]
        fr15 = fixed15 + struct.pack("<H", U.crc_kermit(fixed15))
        for present in U.subsets(DO):
            self.add({"op": "p2m2p", "cls": "dot15d4.pdu", "pkt": {"layer": "Dot15d4", "bytes": fixed15.hex(), "md": d15_md(present)}},
                     "presence-" + "+".join(present), "wf")
            self.add({"op": "p2m2p", "cls": "dot15d4.raw_pdu", "pkt": {"layer": "Dot15d4FCS", "bytes": fr15.hex(), "md": d15_md(present)}},
                     "presence-" + "+".join(present), "wf")
        self.add({"op": "p2m2p", "cls": "dot15d4.raw_pdu", "pkt": {"layer": "Dot15d4Raw", "bytes": "013412", "md": d15_md(DO)}}, "dot15d4raw", "wf")
        self.add({"op": "p2m2p", "cls": "dot15d4.pdu", "pkt": {"layer": "Dot15d4", "bytes": fixed15.hex(), "md": d15_md(DO, decrypted=True, raw=True)}},
                 "decrypted-raw-set", "projection")
        self.add({"op": "p2m2p", "cls": "dot15d4.pdu", "pkt": {"layer": "Dot15d4FCS", "bytes": fr15.hex(), "md": d15_md(DO)}}, "fcs-top", "projection")
        for cls, lay, b in (("dot15d4.pdu", "Dot15d4Raw", fr15), ("dot15d4.pdu", "Raw", fr15), ("dot15d4.raw_pdu", "Dot15d4", fixed15),
                            ("dot15d4.raw_pdu", "Raw", fr15), ("dot15d4.raw_pdu", "Dot15d4Raw", b"\x01")):
            self.add({"op": "p2m2p", "cls": cls, "pkt": {"layer": lay, "bytes": b.hex(), "md": d15_md(DO)}}, "layer-" + lay, "unrepresentable")
        for cls, lay, b in (("dot15d4.pdu", "Dot15d4", fixed15), ("dot15d4.raw_pdu", "Dot15d4FCS", fr15)):
            self.add({"op": "p2m2p", "cls": cls, "pkt": {"layer": lay, "bytes": b.hex(), "md": d15_md(DO, channel=None)}}, "none-channel", "mdnone", dom="dot15d4")
            self.add({"op": "p2m2p", "cls": cls, "pkt": {"layer": lay, "bytes": b.hex(), "md": None}}, "no-metadata", "mdnone", dom="dot15d4")
            self.add({"op": "p2m2p", "cls": cls, "pkt": {"layer": lay, "bytes": b.hex(), "md": d15_md(DO, timestamp=2 ** 64)}}, "timestamp-out-of-range", "mdnone", dom="dot15d4")

        # ESB / Unifying
        for dom, uni, MD in (("esb", False, "ESBMetadata"), ("unifying", True, "UnifyingMetadata")):
            def emd(present, raw, **kw):
                md = {"cls": MD, "channel": r.randrange(0, 101)}
                if uni:
                    md.update({"raw": raw, "decrypted": False})
                elif raw:
                    md.update({"raw": True, "decrypted": False})
                if "rssi" in present:
                    md["rssi"] = r.choice(RSSI)
                if "timestamp" in present:
                    md["timestamp"] = r.choice(TS)
                if "is_crc_valid" in present:
                    md["is_crc_valid"] = r.random() < .5
                if "address" in present:
                    md["address"] = ":".join("%02x" % x for x in U.rbytes(r, 5))
                md.update(kw)
                return md
            EO = ["rssi", "timestamp", "is_crc_valid", "address"]
            pays, frs = U.esb_payloads(r, uni, T), U.esb_frames(r, uni, T)
            for tag, pdu in pays:
                self.add({"op": "p2m2p", "cls": dom + ".pdu", "pkt": {"layer": "ESB_Payload_Hdr", "bytes": pdu.hex(), "md": emd(self.pick(EO), False)}},
                         tag, "wf" if "badck" not in tag else "malformed", strict=True)
            for tag, pdu in frs:
                ok = tag not in ("frame-badcrc", "frame-aa-pre", "frame-55-pre", "frame-uni-badck")
                self.add({"op": "p2m2p", "cls": dom + ".raw_pdu", "pkt": {"layer": "ESB_Hdr", "bytes": pdu.hex(), "md": emd(self.pick(EO), True)}},
                         tag, "wf" if ok else "malformed")
            for present in U.subsets(EO):
                self.add({"op": "p2m2p", "cls": dom + ".pdu", "pkt": {"layer": "ESB_Payload_Hdr", "bytes": pays[4][1].hex(), "md": emd(present, False)}},
                         "presence-" + "+".join(present), "wf", strict=True)
                self.add({"op": "p2m2p", "cls": dom + ".raw_pdu", "pkt": {"layer": "ESB_Hdr", "bytes": frs[4][1].hex(), "md": emd(present, True)}},
                         "presence-" + "+".join(present), "wf")
            for cls, lay, b in ((dom + ".pdu", "ESB_Payload_Hdr", pays[4][1]), (dom + ".raw_pdu", "ESB_Hdr", frs[4][1])):
                self.add({"op": "p2m2p", "cls": cls, "pkt": {"layer": lay, "bytes": b.hex(), "md": emd(EO, lay == "ESB_Hdr", channel=None)}}, "none-channel", "mdnone", dom=dom)
                self.add({"op": "p2m2p", "cls": cls, "pkt": {"layer": lay, "bytes": b.hex(), "md": None}}, "no-metadata", "mdnone", dom=dom)

        # PHY
        for k in ("phy.packet", "phy.packet@2", "phy.raw_packet", "phy.raw_packet@2"):
            raw = "raw" in k
            for n in (0, 1, 5, 64, 255, 300):
                for present in (list(U.subsets(["rssi", "timestamp"])) if n == 5 else [self.pick(["rssi", "timestamp"])]):
                    md = {"cls": "PhyMetadata", "raw": raw, "frequency": r.choice([0, 868000000, 2 ** 32 - 1])}
                    if "rssi" in present:
                        md["rssi"] = r.choice(RSSI)
                    if "timestamp" in present:
                        md["timestamp"] = r.choice(TS)
                    if k.endswith("@2"):
                        md.update({"syncword": {"syncword": U.rbytes(r, 2).hex()}, "deviation": r.choice([0, 50000]), "datarate": r.choice([0, 250000]),
                                   "endianness": {"enum": ["Endianness", r.randrange(2)]}, "modulation": {"enum": ["Modulation", r.randrange(8)]}})
                    self.add({"op": "p2m2p", "cls": k, "pkt": {"layer": "Phy_Packet", "bytes": U.rbytes(r, n).hex(), "md": md}},
                             "len%d-%s" % (n, "+".join(present)), "wf", strict=True)
            self.add({"op": "p2m2p", "cls": k, "pkt": {"layer": "Phy_Packet", "bytes": "0102", "md": {"cls": "PhyMetadata", "raw": raw}}}, "none-frequency", "mdnone", dom="phy")
            self.add({"op": "p2m2p", "cls": k, "pkt": {"layer": "Phy_Packet", "bytes": "0102", "md": None}}, "no-metadata", "mdnone", dom="phy")
        md = {"cls": "PhyMetadata", "raw": False, "frequency": 5}
        self.add({"op": "p2m2p", "cls": "phy.packet@2", "pkt": {"layer": "Phy_Packet", "bytes": "0102", "md": md}}, "v2-items-absent", "projection")

    # -- hub.convert_packet(pkt).to_packet() ----------------------------------------------------
    def convert(self):
        r, T = self.rng, self.thorough
        data = U.ble_data_pdus(r, T)
        advs = U.ble_adv_pdus(r, T)
        step = 1 if T else 3

        def bmd(raw, **kw):
            md = {"cls": "BLEMetadata", "raw": raw, "direction": r.randrange(5), "connection_handle": r.choice([0, 3, 0xFFFF]),
                  "encrypt": r.random() < .5}
            md.update(kw)
            return md
        for i, (tag, pdu) in enumerate(data):
            if len(pdu) < 2 or i % step:
                continue
            self.add({"op": "convert", "pkt": {"layer": "BTLE_DATA", "bytes": pdu.hex(), "clear": ["len"] if i % 2 else [], "md": bmd(False)}},
                     tag, "sendable", dom="ble", raw=False)
            full = struct.pack("<I", 0x11223344) + pdu + U.rbytes(r, 3)
            self.add({"op": "convert", "pkt": {"layer": "BTLE", "bytes": full.hex(), "clear": ["crc"] if i % 2 else [], "md": bmd(True)}},
                     tag, "sendable", dom="ble", raw=True)
        for tag, pdu, _c in advs[::step]:
            full = struct.pack("<I", U.ADV_AA) + pdu + U.rbytes(r, 3)
            self.add({"op": "convert", "pkt": {"layer": "BTLE", "bytes": full.hex(), "md": bmd(True)}}, tag, "sendable", dom="ble", raw=True)
            self.add({"op": "convert", "pkt": {"layer": "BTLE_ADV", "bytes": pdu.hex(), "md": bmd(False)}}, tag, "sendable", dom="ble", raw=False)
        fixed = data[40][1]
        full = struct.pack("<I", 0x11223344) + fixed + b"\x01\x02\x03"
        self.add({"op": "convert", "pkt": {"layer": "BTLE_DATA", "bytes": fixed.hex(), "md": bmd(None)}}, "raw-none", "sendable", dom="ble", raw=False)
        self.add({"op": "convert", "pkt": {"layer": "BTLE_DATA", "bytes": fixed.hex(), "md": bmd(True)}}, "raw-without-btle", "unrepresentable")
        self.add({"op": "convert", "pkt": {"layer": "BTLE_DATA", "bytes": "0100", "md": bmd(True)}}, "raw-without-btle-short", "unrepresentable")
        self.add({"op": "convert", "pkt": {"layer": "Raw", "bytes": fixed.hex(), "md": bmd(False)}}, "raw-layer", "unrepresentable")
        self.add({"op": "convert", "pkt": {"layer": "BTLE_CTRL", "bytes": "1213", "md": bmd(False)}}, "bare-ctrl", "other")
        for item in ("direction", "connection_handle", "encrypt"):
            self.add({"op": "convert", "pkt": {"layer": "BTLE_DATA", "bytes": fixed.hex(), "md": bmd(False, **{item: None})}}, "none-" + item, "mdnone", dom="ble")
            self.add({"op": "convert", "pkt": {"layer": "BTLE", "bytes": full.hex(), "md": bmd(True, **{item: None})}}, "none-" + item, "mdnone", dom="ble")
        self.add({"op": "convert", "pkt": {"layer": "BTLE_DATA", "bytes": fixed.hex(), "md": None}}, "no-metadata", "mdnone", dom="ble")
        self.add({"op": "convert", "pkt": {"layer": "BTLE_DATA", "bytes": fixed.hex(), "md": {"cls": "Metadata", "raw": False}}}, "base-metadata", "unrepresentable")

        frames = U.d15_frames(r, T)
        for i, (tag, pdu) in enumerate(frames):
            if i % step:
                continue
            md = {"cls": "Dot15d4Metadata", "raw": False, "channel": r.randrange(11, 27)}
            self.add({"op": "convert", "pkt": {"layer": "Dot15d4", "bytes": pdu.hex(), "md": md}}, tag, "sendable", dom="dot15d4", raw=False)
            fr = pdu + struct.pack("<H", U.crc_kermit(pdu))
            self.add({"op": "convert", "pkt": {"layer": "Dot15d4FCS", "bytes": fr.hex(), "clear": ["fcs"] if i % 2 else [], "md": dict(md, raw=True)}},
                     tag, "sendable", dom="dot15d4", raw=True)
            if i % (2 * step) == 0:
                self.add({"op": "convert", "pkt": {"layer": "Dot15d4Raw", "bytes": fr.hex(), "md": dict(md, raw=True)}}, tag + "/Dot15d4Raw", "sendable", dom="dot15d4", raw=True)
                self.add({"op": "convert", "pkt": {"layer": "Dot15d4Raw", "bytes": pdu.hex(), "md": dict(md, raw=False)}}, tag + "/Dot15d4Raw", "sendable", dom="dot15d4", raw=False)
        for ch in range(11, 27):
            self.add({"op": "convert", "pkt": {"layer": "Dot15d4", "bytes": frames[5][1].hex(), "md": {"cls": "Dot15d4Metadata", "raw": False, "channel": ch}}},
                     "channel-%d" % ch, "sendable", dom="dot15d4", raw=False)
        for raw, lay in ((False, "Dot15d4"), (True, "Dot15d4FCS")):
            self.add({"op": "convert", "pkt": {"layer": lay, "bytes": (frames[5][1] + b"\x01\x02").hex(), "md": {"cls": "Dot15d4Metadata", "raw": raw, "channel": None}}},
                     "none-channel", "mdnone", dom="dot15d4")
        self.add({"op": "convert", "pkt": {"layer": "Raw", "bytes": frames[5][1].hex(), "md": {"cls": "Dot15d4Metadata", "raw": False, "channel": 11}}}, "raw-layer", "unrepresentable")
        for b in (frames[5][1], b"\x02\x00\x01", b"\x02\x00\x01\x07"):
            self.add({"op": "convert", "pkt": {"layer": "Dot15d4", "bytes": b.hex(), "md": {"cls": "Dot15d4Metadata", "raw": True, "channel": 12}}},
                     "dot15d4-top-raw-len%d" % len(b), "other")

        for dom, uni, MD in (("esb", False, "ESBMetadata"), ("unifying", True, "UnifyingMetadata")):
            pays, frs = U.esb_payloads(r, uni, T), U.esb_frames(r, uni, T)
            for tag, pdu in pays:
                md = {"cls": MD, "raw": False, "channel": r.randrange(0, 101), "address": "11:22:33:44:55"}
                if r.random() < .7:
                    md["retransmission_count"] = r.choice([0, 1, 5, 15])
                self.add({"op": "convert", "dom": dom, "pkt": {"layer": "ESB_Payload_Hdr", "bytes": pdu.hex(), "md": md}}, tag,
                         "sendable" if "badck" not in tag else "other", dom=dom, raw=False, strict=True)
            for tag, pdu in frs:
                md = {"cls": MD, "raw": True, "channel": r.randrange(0, 101), "address": "11:22:33:44:55"}
                if r.random() < .7:
                    md["retransmission_count"] = r.choice([0, 1, 5, 15, None])
                ok = tag not in ("frame-badcrc", "frame-aa-pre", "frame-55-pre", "frame-uni-badck")
                self.add({"op": "convert", "dom": dom, "pkt": {"layer": "ESB_Hdr", "bytes": pdu.hex(), "md": md}}, tag,
                         "sendable" if ok else "other", dom=dom, raw=True)
            self.add({"op": "convert", "dom": dom, "pkt": {"layer": "ESB_Payload_Hdr", "bytes": pays[4][1].hex(), "md": {"cls": MD, "raw": False, "channel": None}}},
                     "none-channel", "mdnone", dom=dom)

        for n in (0, 1, 5, 255, 300):
            md = {"cls": "PhyMetadata", "raw": False, "frequency": 2402000000}
            self.add({"op": "convert", "pkt": {"layer": "Phy_Packet", "bytes": U.rbytes(r, n).hex(), "md": md}}, "len%d" % n, "sendable", dom="phy", raw=False, strict=True)
        self.add({"op": "convert", "pkt": {"layer": "Phy_Packet", "bytes": "0102", "md": {"cls": "PhyMetadata", "raw": True, "frequency": 1}}},
                 "phy-raw", "sendable", dom="phy", raw=True, strict=True)
        self.add({"op": "convert", "pkt": {"layer": "Phy_Packet", "bytes": "0102", "md": {"cls": "Metadata", "raw": True}}}, "base-metadata", "unrepresentable")


    # -- sequences: several conversions, every result kept and re-read afterwards ---------------
    def seqs(self):
        r = self.rng
        data = [p for _t, p in U.ble_data_pdus(r, False) if 4 <= len(p) <= 40]
        advs = [p for _t, p, c in U.ble_adv_pdus(r, False) if c and (p[0] & 0xF) == 0]
        frames = [p for _t, p in U.d15_frames(r, False) if 5 <= len(p) <= 60 and p[0] & 7 == 1]
        PD = {"bleA": data[3], "bleB": data[17], "advA": advs[5], "advB": advs[9], "d15A": frames[2], "d15B": frames[7]}
        for dom, uni in (("esb", False), ("unifying", True)):
            pays = [p for t, p in U.esb_payloads(r, uni, False) if len(p) >= 3 and "badck" not in t]
            PD[dom + "PA"], PD[dom + "PB"] = pays[1], pays[-1]
            PD[dom + "FA"] = U.esb_frame(bytes([0x91, 2, 3, 4, 5]), pays[1], pid=1)       # preamble 0xAA
            PD[dom + "FB"] = U.esb_frame(bytes([0xE7, 9, 3, 4, 5]), pays[-1], pid=2)
        PD["phyA"], PD["phyB"] = U.rbytes(r, 12), U.rbytes(r, 5)
        V = [0, 1, 2, 0, 0]          # metadata variant of each item
        S = ["A", "A", "A", "B", "A"]  # payload of each item: same bytes x3 with different metadata, other bytes, first again

        def mfields(cls, sel, v):
            base = cls.partition("@")[0]
            dom, name = base.split(".", 1)
            if base == "ble.send_raw_pdu":
                return {"direction": 1 + v, "conn_handle": 10 + v, "access_address": 0x11223344, "pdu": H(PD["ble" + sel]), "crc": 0x010203, "encrypt": v == 1}
            if base == "ble.send_pdu":
                return {"direction": 1 + v, "conn_handle": 10 + v, "pdu": H(PD["ble" + sel]), "encrypt": v == 1}
            if base == "ble.adv_pdu":
                a = PD["adv" + sel]
                return {"adv_type": 1, "rssi": -40 - v, "bd_address": H(a[2:8]), "adv_data": H(a[8:]), "addr_type": (a[0] >> 6) & 1}
            if base == "ble.pdu":
                return {"direction": 1 + v, "pdu": H(PD["ble" + sel]), "conn_handle": 10 + v, "processed": v == 1, "decrypted": v == 2}
            if base == "ble.raw_pdu":      # one advertisement sniffed on channels 37, 38, 39
                return {"direction": 0, "channel": 37 + v, "rssi": -50 - v, "timestamp": 1000 + v, "relative_timestamp": 7 + v, "crc_validity": v != 1,
                        "access_address": U.ADV_AA, "pdu": H(PD["adv" + sel]), "crc": 0xABCDEF, "conn_handle": 0, "processed": False, "decrypted": False}
            if dom == "dot15d4":
                f = {"channel": 11 + v, "pdu": H(PD["d15" + sel])}
                if name in ("send_raw", "raw_pdu"):
                    f["fcs"] = U.crc_kermit(PD["d15" + sel])
                if name in ("pdu", "raw_pdu"):
                    f.update({"rssi": -60 - v, "timestamp": 5 + v, "fcs_validity": v != 2, "lqi": 100 + v})
                return f
            if dom in ("esb", "unifying"):
                raw = name in ("send_raw", "raw_pdu")
                f = {"channel": 5 + v, "pdu": H(PD[dom + ("F" if raw else "P") + sel])}
                if name.startswith("send"):
                    f["retr_count"] = 1 + v
                else:
                    f.update({"rssi": -70 - v, "timestamp": 9 + v, "crc_validity": v != 1, "address": H(bytes([0x91, 2, 3, 4, 5 + v]))})
                return f
            if base == "phy.send":
                return {"packet": H(PD["phy" + sel])}
            f = {"frequency": 2402000000 + v, "packet": H(PD["phy" + sel]), "rssi": -30 - v, "timestamp": 77 + v}
            if cls.endswith("@2"):
                f.update({"syncword": H(bytes([0xAA, v])), "deviation": 250000 + v, "datarate": 1000000 + v, "endian": v % 2, "modulation": 3 + v})
            return f

        def pspec(cls, sel, v):
            base = cls.partition("@")[0]
            dom, name = base.split(".", 1)
            if dom == "ble":
                md = {"cls": "BLEMetadata", "raw": name in ("raw_pdu", "send_raw_pdu"), "direction": 1 + v, "connection_handle": 10 + v,
                      "decrypted": v == 2, "processed": v == 1, "encrypt": v == 1}
                if name == "adv_pdu":
                    return {"layer": "BTLE_ADV", "bytes": PD["adv" + sel].hex(), "md": {"cls": "BLEMetadata", "raw": False, "direction": 0, "rssi": -40 - v}}
                if name in ("raw_pdu", "send_raw_pdu"):
                    if name == "raw_pdu":
                        md.update({"channel": 37 + v, "rssi": -50 - v, "timestamp": 1000 + v, "relative_timestamp": 7 + v, "is_crc_valid": v != 1})
                    return {"layer": "BTLE", "bytes": (struct.pack("<I", U.ADV_AA) + PD["adv" + sel] + b"\xab\xcd\xef").hex(), "md": md}
                return {"layer": "BTLE_DATA", "bytes": PD["ble" + sel].hex(), "md": md}
            if dom == "dot15d4":
                raw = name in ("raw_pdu", "send_raw")
                md = {"cls": "Dot15d4Metadata", "channel": 11 + v, "raw": raw if name.startswith("send") else None}
                if not name.startswith("send"):
                    md.update({"decrypted": False, "rssi": -60 - v, "timestamp": 5 + v, "is_fcs_valid": v != 2, "lqi": 100 + v})
                b = PD["d15" + sel]
                return {"layer": "Dot15d4FCS" if raw else "Dot15d4", "bytes": (b + struct.pack("<H", U.crc_kermit(b)) if raw else b).hex(), "md": md}
            if dom in ("esb", "unifying"):
                raw = name in ("raw_pdu", "send_raw")
                md = {"cls": "ESBMetadata" if dom == "esb" else "UnifyingMetadata", "channel": 5 + v}
                if name.startswith("send"):
                    md.update({"raw": raw, "retransmission_count": 1 + v})
                else:
                    if dom == "unifying" or raw:
                        md.update({"raw": raw, "decrypted": False})
                    md.update({"rssi": -70 - v, "timestamp": 9 + v, "is_crc_valid": v != 1, "address": "91:02:03:04:%02x" % (5 + v)})
                return {"layer": "ESB_Hdr" if raw else "ESB_Payload_Hdr", "bytes": PD[dom + ("F" if raw else "P") + sel].hex(), "md": md}
            md = {"cls": "PhyMetadata", "raw": "raw" in name, "frequency": 2402000000 + v, "rssi": -30 - v, "timestamp": 77 + v}
            if cls.endswith("@2"):
                md.update({"syncword": {"syncword": bytes([0xAA, v]).hex()}, "deviation": 250000 + v, "datarate": 1000000 + v,
                           "endianness": {"enum": ["Endianness", v % 2]}, "modulation": {"enum": ["Modulation", 3 + v]}})
            return {"layer": "Phy_Packet", "bytes": PD["phy" + sel].hex(), "md": md}

        for cls in U.CLS:
            if cls != "phy.send_raw":
                self.add({"op": "seq", "dir": "m2p", "cls": cls, "items": [mfields(cls, s_, v) for s_, v in zip(S, V)]}, "seq-to_packet", "seq")
            if cls in U.RX_CLASSES:
                self.add({"op": "seq", "dir": "p2m", "cls": cls, "items": [pspec(cls, s_, v) for s_, v in zip(S, V)]}, "seq-from_packet", "seq")
        for dom, names in (("ble", ("send_pdu", "send_raw_pdu")), ("dot15d4", ("send", "send_raw")), ("esb", ("send", "send_raw")),
                           ("unifying", ("send", "send_raw")), ("phy", ("send",))):
            for name in names:
                cls = dom + "." + name
                self.add({"op": "seq", "dir": "conv", "dom": dom, "cls": cls, "items": [pspec(cls, s_, v) for s_, v in zip(S, V)]},
                         "seq-convert_packet", "seq", dom=dom)


def generate(ctx):
    g = Gen(ctx)
    g.m2p2m()
    g.p2m2p()
    g.convert()
    g.seqs()
    return g.cases


# ---------------------------------------------------------------------------------------------
# running the implementation and scapy
# ---------------------------------------------------------------------------------------------
def ver_of(req):
    if "cls" in req:
        return 2 if req["cls"].endswith("@2") else 1
    return req.get("ver", 2)


def dom_of(case, res):
    req = case["req"]
    if "cls" in req:
        return U.CLS[req["cls"]][2]
    md = (res.get("p0", {}).get("ok") or {}).get("md")
    if md and md["cls"] in U.MDCLS and U.MDCLS[md["cls"]][1]:
        return U.MDCLS[md["cls"]][1]
    return req.get("dom") or "esb"


def ok(stage):
    return stage.get("ok") if isinstance(stage, dict) else None


def queries_of(case, res):
    """codec calls the model makes for this case (derived from the observed inputs of each stage)."""
    req, q = case["req"], []
    proto = req.get("d15proto")
    try:
        if req["op"] == "seq":
            for e in res.get("first", []):
                if req["dir"] == "m2p":
                    m0 = ok(e.get("m0", {}))
                    if m0:
                        q += U.tp_queries(req["cls"], m0["f"], proto)
                elif req["cls"] == "ble.adv_pdu" and ok(e.get("p0", {})):
                    q += U.adv_from_queries(ok(e["p0"]))
            return q
        if req["op"] == "m2p2m":
            m0 = ok(res.get("m0", {}))
            if m0:
                q += U.tp_queries(req["cls"], m0["f"], proto)
            p = ok(res.get("p", {}))
            if p and req["cls"] == "ble.adv_pdu":
                q += U.adv_from_queries(p)
        else:
            p0 = ok(res.get("p0", {}))
            if p0 and req.get("cls") == "ble.adv_pdu":
                q += U.adv_from_queries(p0)
            m = ok(res.get("m", {}))
            if m:
                k = U.cls_of_msg(m["k"], ver_of(req))
                if k:
                    q += U.tp_queries(k, m["f"], proto)
    except (KeyError, AssertionError, TypeError):
        pass
    return q


def canonical(qs, cres):
    """every codec call of the case rebuilt exactly its input"""
    return all("ok" in cres[(k, b)] and bytes.fromhex(cres[(k, b)]["ok"]) == b for k, b in qs)


# ---------------------------------------------------------------------------------------------
# oracle: the property on the implementation's outputs
# ---------------------------------------------------------------------------------------------
def addr_str(v):
    return None if v is None else "str:" + ":".join("%02x" % x for x in U.hexval(v))


def md_expect(field, v):
    return addr_str(v) if field == "address" else v


def expected_bytes(cls, f):
    base = cls.partition("@")[0]
    if base == "ble.raw_pdu":
        return struct.pack("<I", f["access_address"]) + U.hexval(f["pdu"]) + struct.pack(">I", f["crc"])[1:]
    if base == "dot15d4.raw_pdu":
        return U.hexval(f["pdu"]) + struct.pack("<H", f["fcs"])
    if base == "ble.adv_pdu":
        pay = U.hexval(f["bd_address"]) + U.hexval(f["adv_data"])
        return bytes([U.PDU_OF_ADV_TYPE[f["adv_type"]] | (64 if f["addr_type"] == 1 else 0), len(pay)]) + pay
    if base.startswith("phy."):
        return U.hexval(f["packet"])
    return U.hexval(f["pdu"])


def raised(res):
    return [(st, v["exc"]) for st, v in res.items() if isinstance(v, dict) and "exc" in v] + \
           [(st, "build:" + v["exc_build"]) for st, v in res.items() if isinstance(v, dict) and "exc_build" in v]


def preamble_only(a, b):
    """b is a with the first byte forced to 0xAA"""
    return len(a) == len(b) and len(a) > 0 and a[1:] == b[1:] and b[0] == 0xAA and a[0] != 0xAA


class Oracle:
    def __init__(self, ctx):
        self.ctx, self.n, self.stats, self.seen, self.warm2 = ctx, 0, {}, {}, None

    def count(self, k):
        self.stats[k] = self.stats.get(k, 0) + 1

    def viol(self, what, case, res, key=None, expected=None, observed=None):
        # at most 3 replays per kind of failure (a seeded change typically fails hundreds of cases)
        if key is None or key not in self.ctx.kf:
            self.seen[what] = self.seen.get(what, 0) + 1
            if self.seen[what] > 3:
                self.count("violations-not-written(same-kind)")
                self.n += 1
                return
        c = {"req": case["req"], "tag": case["tag"], "kind": case["kind"]}
        if case.get("second_process"):
            c["class_first_use_order"] = self.warm2
        self.n += bool(self.ctx.violation(what, c, key=key, expected=expected, observed=observed if observed is not None else res))

    def no_raise(self, case, res, key=None):
        ex = raised(res)
        if ex:
            self.viol("%s of %s raised %s instead of returning None" % (ex[0][0], case["req"].get("cls", "convert_packet"), ex[0][1]),
                      case, res, key=key)
            return False
        return True

    # ---- sequences: every kept result re-read after the whole sequence
    def seq(self, case, res, canon):
        req = case["req"]
        what = {"m2p": "to_packet", "p2m": "from_packet", "conv": "convert_packet"}[req["dir"]]
        cls = req["cls"]
        for i, (e, late) in enumerate(zip(res["first"], res["late"])):
            r0 = ok(e.get("r", {}))
            if r0 is None:
                self.viol("%s of item %d of a %s sequence gave no result (%s)" % (what, i, cls, json.dumps(e.get("r"))), case, res)
                return
            if late is None or late["ok"] != r0:
                self.viol("%s sequence (%s): the result kept for item %d changed after later conversions" % (what, cls, i), case, res,
                          expected=r0, observed=late and late["ok"])
                return
            if req["dir"] == "m2p":
                m0 = ok(e["m0"])
                table = U.MD_MAP.get(cls) or {k: v for k, v in U.OPT_MAP.get(cls, {}).items()}
                md = late["ok"]["md"] or {}
                for field, item in table.items():
                    exp = md_expect(field, m0["f"].get(field))
                    if md.get(item, "MISSING") != exp:
                        self.viol("%s sequence (%s): packet %d re-read after the sequence: metadata.%s does not carry its message's %s"
                                  % (what, cls, i, item, field), case, res, expected=exp, observed=md.get(item, "MISSING"))
                        return
        if not res["distinct"] or not res["sub_distinct"]:
            self.viol("%s sequence (%s): two conversions returned the same %s object" %
                      (what, cls, "packet / metadata" if req["dir"] == "m2p" else "message"), case, res)
            return
        if "in_late" in res:
            for i, (e, p) in enumerate(zip(res["first"], res["in_late"])):
                if ok(e.get("p0", {})) != p:
                    self.viol("%s sequence (%s): input packet %d was modified by the conversions" % (what, cls, i), case, res,
                              expected=ok(e.get("p0", {})), observed=p)
                    return
        self.count("seq:%s-stable" % what)

    # ---- message -> packet -> message
    def m2p2m(self, case, res, canon):
        req, cls = case["req"], case["req"]["cls"]
        m0 = ok(res.get("m0", {}))
        if m0 is None:
            self.count("m2p2m:ctor-failed")
            return
        wf = case["kind"] == "wf" and case.get("valid")
        if wf and not canon:
            if case.get("strict"):
                self.viol("a whad scapy layer does not rebuild a valid %s PDU byte for byte" % cls, case, res)
            else:
                self.count("m2p2m:scapy-noncanonical-pdu")
            wf = False
        if not wf:
            self.no_raise(case, res)
            self.count("m2p2m:outside-premise")
            return
        p = ok(res.get("p", {}))
        if p is None:
            self.viol("to_packet of a well-formed %s message gave no packet" % cls, case, res)
            return
        want = expected_bytes(cls, m0["f"])
        if bytes.fromhex(p["bytes"]) != want:
            self.viol("packet bytes differ from the message payload (%s)" % cls, case, res, expected=want.hex(), observed=p["bytes"])
            return
        md = p["md"] or {}
        for field, item in U.MD_MAP[cls].items():
            exp = md_expect(field, m0["f"].get(field))
            if md.get(item, "MISSING") != exp:
                self.viol("%s.to_packet: metadata.%s does not carry message field %s" % (cls, item, field), case, res,
                          expected=exp, observed=md.get(item, "MISSING"))
                return
        m1 = ok(res.get("m1", {}))
        if m1 is None:
            self.viol("from_packet(to_packet(m)) is not a message (%s)" % cls, case, res)
            return
        diff = [k for k in m0["f"] if m0["f"][k] != m1["f"].get(k)]
        if m1["k"] != m0["k"] or diff:
            key = None
            if cls == "unifying.raw_pdu" and diff == ["pdu"] and preamble_only(U.hexval(m0["f"]["pdu"]), U.hexval(m1["f"]["pdu"])):
                key = K_PREAMBLE
            self.viol("from_packet(to_packet(m)) differs from m (%s): kind %s, fields %s" % (cls, m1["k"], diff), case, res, key=key,
                      expected=m0, observed=m1)
            return
        self.count("m2p2m:roundtrip-exact")

    # ---- packet -> message -> packet
    def p2m2p(self, case, res, canon):
        req, cls, kind = case["req"], case["req"]["cls"], case["kind"]
        p0 = ok(res.get("p0", {}))
        if p0 is None:
            self.count("p2m2p:input-packet-not-buildable")
            return
        if kind == "mdnone":
            if self.no_raise(case, res) and ok(res.get("m", {})) is not None:
                self.viol("%s.from_packet built a message from a packet whose mandatory metadata is missing" % cls, case, res)
            return
        if kind == "unrepresentable":
            if self.no_raise(case, res) and ok(res.get("m", {})) is not None:
                self.viol("%s.from_packet built a message from a packet it cannot represent" % cls, case, res)
            return
        if kind != "wf" or not canon:
            self.no_raise(case, res)
            if kind == "wf":
                m_ = ok(res.get("m", {}))
                if cls == "unifying.raw_pdu" and m_ and preamble_only(bytes.fromhex(p0["bytes"]), U.hexval(m_["f"]["pdu"])):
                    self.viol("Unifying RawPduReceived.from_packet: preamble forced to 0xAA", case, res, key=K_PREAMBLE)
                elif case.get("strict"):
                    self.viol("a whad scapy layer does not rebuild a valid %s PDU byte for byte" % cls, case, res)
                else:
                    self.count("p2m2p:scapy-noncanonical-pdu")
            return
        m = ok(res.get("m", {}))
        if m is None:
            self.viol("%s.from_packet of a well-formed packet gave no message" % cls, case, res)
            return
        md0 = p0["md"] or {}
        for field, item in U.MD_MAP[cls].items():
            exp = md0.get(item)
            got = m["f"].get(field)
            if field == "address":
                got = addr_str(got)
            if got != exp:
                self.viol("%s.from_packet: field %s does not carry metadata.%s" % (cls, field, item), case, res, expected=exp, observed=got)
                return
        p1 = ok(res.get("p1", {}))
        if p1 is None:
            self.viol("to_packet(from_packet(p)) is not a packet (%s)" % cls, case, res)
            return
        b0, b1 = bytes.fromhex(p0["bytes"]), bytes.fromhex(p1["bytes"])
        if b0 != b1:
            key = K_PREAMBLE if (cls == "unifying.raw_pdu" and preamble_only(b0, b1)) else None
            self.viol("to_packet(from_packet(p)) has different bytes (%s)" % cls, case, res, key=key, expected=p0["bytes"], observed=p1["bytes"])
            return
        md1 = p1["md"] or {}
        bad = [it for it in U.MD_MAP[cls].values() if md0.get(it, "MISSING") != md1.get(it, "MISSING")]
        if bad or p0["layers"][0] != p1["layers"][0]:
            self.viol("to_packet(from_packet(p)) differs in %s (%s)" % (bad or "top layer", cls), case, res, expected=p0, observed=p1)
            return
        self.count("p2m2p:roundtrip-exact")

    # ---- hub.convert_packet(p).to_packet()
    def convert(self, case, res, canon):
        req, kind = case["req"], case["kind"]
        p0 = ok(res.get("p0", {}))
        if p0 is None:
            self.count("convert:input-packet-not-buildable")
            return
        if kind == "mdnone":
            if self.no_raise(case, res) and ok(res.get("m", {})) is not None:
                self.viol("convert_packet built a message from a packet whose mandatory metadata is missing", case, res)
            return
        if kind == "unrepresentable":
            if self.no_raise(case, res) and ok(res.get("m", {})) is not None:
                self.viol("convert_packet built a message from a packet it cannot represent", case, res)
            return
        if kind != "sendable":
            self.no_raise(case, res)
            return
        m = ok(res.get("m", {}))
        dom, raw = case["dom"], case["raw"]
        if m is None:
            self.viol("convert_packet gave no message for a packet a %s connector sends" % dom, case, res)
            return
        names = {"ble": ("send_pdu", "send_raw_pdu")}.get(dom, ("send", "send_raw"))
        if m["k"] != "%s.%s" % (dom, names[1 if raw else 0]):
            self.viol("convert_packet chose %s for a %s packet with raw=%s" % (m["k"], dom, raw), case, res)
            return
        if m["k"] == "phy.send_raw":
            self.viol("PHY raw send: the packet bytes are not carried by the send_raw message (iq is empty) and to_packet raises",
                      case, res, key=K_PHYRAW)
            return
        b0, md0, f = bytes.fromhex(p0["bytes"]), p0["md"] or {}, m["f"]
        # PDU bytes and addressing
        if m["k"] == "ble.send_raw_pdu":
            want = {"access_address": struct.unpack("<I", b0[:4])[0], "pdu": "hex:" + b0[4:-3].hex(), "crc": int.from_bytes(b0[-3:], "big")}
        elif m["k"] == "dot15d4.send_raw":
            want = {"pdu": "hex:" + b0[:-2].hex(), "fcs": struct.unpack("<H", b0[-2:])[0]} if len(b0) > 2 else {}
        elif m["k"] == "phy.send":
            want = {"packet": "hex:" + b0.hex()}
        else:
            want = {"pdu": "hex:" + b0.hex()}
        for k, v in want.items():
            if f.get(k) != v:
                self.viol("%s built by convert_packet: field %s differs from the packet" % (m["k"], k), case, res, expected=v, observed=f.get(k))
                return
        for field, item in U.OPT_MAP[m["k"]].items():
            exp = md0.get(item)
            if item == "retransmission_count" and exp is None:
                exp = 1
            if f.get(field) != exp:
                self.viol("%s built by convert_packet: sending option %s differs from metadata.%s" % (m["k"], field, item), case, res,
                          expected=exp, observed=f.get(field))
                return
        if not canon:
            if case.get("strict"):
                self.viol("a whad scapy layer does not rebuild the PDU of a sendable %s packet byte for byte" % dom, case, res)
            else:
                self.no_raise(case, res)
                self.count("convert:scapy-noncanonical-pdu")
            return
        p1 = ok(res.get("p1", {}))
        if p1 is None:
            self.viol("to_packet of the %s message built by convert_packet is not a packet" % m["k"], case, res)
            return
        b1, md1 = bytes.fromhex(p1["bytes"]), p1["md"] or {}
        if b0 != b1:
            key = K_PREAMBLE if (m["k"] == "unifying.send_raw" and preamble_only(b0, b1)) else None
            self.viol("convert_packet(p).to_packet() has different bytes (%s)" % m["k"], case, res, key=key, expected=p0["bytes"], observed=p1["bytes"])
            return
        for field, item in U.OPT_MAP[m["k"]].items():
            exp = md0.get(item)
            if item == "retransmission_count" and exp is None:
                exp = 1
            if md1.get(item, "MISSING") != exp:
                self.viol("convert_packet(p).to_packet(): sending option %s lost (%s)" % (item, m["k"]), case, res, expected=exp,
                          observed=md1.get(item, "MISSING"))
                return
        if m["k"] != "phy.send" and bool(md1.get("raw")) != bool(md0.get("raw")):
            self.viol("convert_packet(p).to_packet(): raw flag differs (%s)" % m["k"], case, res)
            return
        self.count("convert:roundtrip-exact")


# ---------------------------------------------------------------------------------------------
# Coq case terms
# ---------------------------------------------------------------------------------------------
def layer_of_key(key):
    name, _, dom = key.partition("@")
    return U.layer_term(name, dom)


def ctab_term(qs, cres):
    seen, items = set(), []
    for k, b in qs:
        if (k, b) in seen:
            continue
        seen.add((k, b))
        items.append("(%s, %s, %s)" % (layer_of_key(k), U.blit(b), U.cres_term(cres[(k, b)], k)))
    return "[" + "; ".join(items) + "]"


def tagged_printer(ver):
    def pr(m):
        k = U.cls_of_msg(m["k"], ver)
        if k is None:
            raise U.Unmodellable("message kind %r" % m["k"])
        return "(%s, %s)" % (U.CLS[k][0], U.body_term(k, m["f"]))
    return pr


def kw_term(kw):
    enc = kw.get("encrypt", False)
    return "{| kw_encrypt := %s; kw_channel := %s; kw_retr := %s |}" % (U.ob(enc), U.oz(kw.get("channel", 11)), U.oz(kw.get("retr_count", 1)))


class SkipCase(Exception):
    """the generated input itself could not be built (nothing of the code under verification ran)"""


def case_term(case, res, qs, cres):
    """(kind, Coq term) or raises Unmodellable"""
    req = case["req"]
    if req["op"] == "seq":
        cls = req["cls"]
        dom, ver = U.CLS[cls][2], ver_of(req)
        tab = ctab_term(qs, cres)
        pk = lambda d: U.pkt_term(d, dom)
        items = []
        for e, late in zip(res["first"], res["late"]):
            if req["dir"] == "m2p":
                m0 = ok(e.get("m0", {}))
                if m0 is None:
                    raise U.Unmodellable("message constructor failed")
                if "exc_build" in e.get("r", {}):
                    raise U.Unmodellable("bytes(packet) raised")
                obs = U.obs_term(late if late is not None else e.get("r"), pk)
                items.append("(%s, %s)" % (U.body_term(cls, m0["f"]), obs))
            else:
                p0 = ok(e.get("p0", {}))
                if p0 is None:
                    raise SkipCase("input packet not buildable with scapy")
                obs = U.obs_term(late if late is not None else e.get("r"), tagged_printer(ver))
                items.append("(%s, %s)" % (pk(p0), obs))
        lst = "[" + "; ".join(items) + "]"
        if req["dir"] == "m2p":
            return "seq_to", "(%s, %s, %s)" % (tab, U.CLS[cls][0], lst)
        if req["dir"] == "p2m":
            return "seq_from", "(%s, %s, %s)" % (tab, U.CLS[cls][0], lst)
        return "seq_convert", lst
    dom, ver = dom_of(case, res), ver_of(req)
    for st in res.values():
        if isinstance(st, dict) and "exc_build" in st:
            raise U.Unmodellable("bytes(packet) raised")
    tab = ctab_term(qs, cres)
    pk = lambda d: U.pkt_term(d, dom)
    if req["op"] == "m2p2m":
        m0 = ok(res.get("m0", {}))
        if m0 is None:
            raise U.Unmodellable("message constructor failed")
        cls = req["cls"]
        return "m2p2m", "(%s, %s, %s, %s, %s)" % (tab, U.CLS[cls][0], U.body_term(cls, m0["f"]),
                                                   U.obs_term(res.get("p"), pk), U.obs_term(res.get("m1"), tagged_printer(ver)))
    p0 = ok(res.get("p0", {}))
    if p0 is None:
        raise SkipCase("input packet not buildable with scapy")
    if req["op"] == "p2m2p":
        return "p2m2p", "(%s, %s, %s, %s, %s, %s)" % (tab, U.CLS[req["cls"]][0], kw_term(req.get("kw", {})), pk(p0),
                                                       U.obs_term(res.get("m"), tagged_printer(ver)), U.obs_term(res.get("p1"), pk))
    return "convert", "(%s, %s, %s, %s)" % (tab, pk(p0), U.obs_term(res.get("m"), tagged_printer(ver)), U.obs_term(res.get("p1"), pk))


BRANCHES = ["ble_extract:data", "ble_extract:ctrl", "ble_extract:adv", "ble_extract:none", "ble_raw_to:sub-data", "ble_raw_to:sub-adv",
            "ble_raw_to:sub-raw", "ble_adv_from:class-found", "ble_adv_from:no-class", "ble_adv_to:unknown-type", "ble_adv_to:bad-address",
            "d15_raw_to:Dot15d4FCS", "d15_raw_to:fallback-Dot15d4Raw", "d15_send_raw_from:fcs-top", "d15_send_raw_from:dot15d4-top",
            "d15_send_raw_from:raw-top", "d15_send_from:raw-top", "d15_raw_from:raw-top", "esb_convert:retr-missing", "esb_convert:retr-none",
            "esb_convert:retr-value", "esb_rx_from:preamble-forced", "to_packet:struct-error-none", "from_packet:none", "from_packet:none-metadata-item", "to_packet:none-enum-out-of-range", "hub_convert:unknown-metadata-class",
            "hub_convert:raw", "hub_convert:non-raw", "optional-item-absent", "optional-item-present", "rssi-negative", "timestamp>=2^32",
            "timestamp>=2^63"]


def branch_hits(c, r):
    req, h = c["req"], set()
    op, cls = req["op"], req.get("cls", "")
    p_in = ok(r.get("p0", {})) or {}
    m = ok(r.get("m", {})) or ok(r.get("m1", {}))
    lay = p_in.get("layers") or []
    if op != "m2p2m" and (cls in ("ble.raw_pdu",) or (op == "convert" and (p_in.get("md") or {}).get("cls") == "BLEMetadata")) and lay:
        inner = lay[1] if lay[0] == "BTLE" and len(lay) > 1 else lay[0]
        h.add("ble_extract:" + {"BTLE_DATA": "data", "BTLE_CTRL": "ctrl", "BTLE_ADV": "adv"}.get(inner, "none"))
    if op == "m2p2m":
        p = ok(r.get("p", {}))
        f = (ok(r.get("m0", {})) or {}).get("f", {})
        if cls == "ble.raw_pdu" and p:
            sub = p["layers"][1] if len(p["layers"]) > 1 else "Raw"
            h.add("ble_raw_to:sub-" + {"BTLE_DATA": "data", "BTLE_ADV": "adv"}.get(sub, "raw"))
        if cls == "dot15d4.raw_pdu" and p:
            h.add("d15_raw_to:" + ("fallback-Dot15d4Raw" if p["layers"][0] == "Dot15d4Raw" else "Dot15d4FCS"))
        if cls == "ble.adv_pdu" and f:
            if f["adv_type"] not in U.ADV_LAYER_OF_TYPE:
                h.add("ble_adv_to:unknown-type")
            elif len(U.hexval(f["bd_address"])) != 6:
                h.add("ble_adv_to:bad-address")
        if "none" in r.get("p", {}) and f and cls not in ("ble.adv_pdu",) and not cls.startswith("phy."):
            h.add("to_packet:struct-error-none")
        if "none" in r.get("p", {}) and cls.startswith("phy."):
            h.add("to_packet:none-enum-out-of-range")
        for k, v in f.items():
            if k in ("rssi", "timestamp", "relative_timestamp", "crc_validity", "fcs_validity", "lqi", "address") and cls != "ble.adv_pdu":
                h.add("optional-item-absent" if v is None else "optional-item-present")
            if k == "rssi" and isinstance(v, int) and v < 0:
                h.add("rssi-negative")
            if k in ("timestamp", "relative_timestamp") and isinstance(v, int):
                if v >= 2 ** 32:
                    h.add("timestamp>=2^32")
                if v >= 2 ** 63:
                    h.add("timestamp>=2^63")
    stage_m = r.get("m") if op != "m2p2m" else r.get("m1")
    if isinstance(stage_m, dict):
        if "none" in stage_m:
            h.add("from_packet:none-metadata-item" if c["kind"] == "mdnone" else "from_packet:none")
    if cls == "ble.adv_pdu" and op == "p2m2p" and lay and lay[0] == "BTLE_ADV":
        h.add("ble_adv_from:class-found" if m else "ble_adv_from:no-class")
    if op == "convert" and p_in:
        md = p_in.get("md") or {}
        if md.get("cls") == "Metadata":
            h.add("hub_convert:unknown-metadata-class")
        elif m:
            h.add("hub_convert:raw" if md.get("raw") else "hub_convert:non-raw")
        if md.get("cls") in ("ESBMetadata", "UnifyingMetadata"):
            h.add("esb_convert:retr-" + ("missing" if "retransmission_count" not in md else "none" if md["retransmission_count"] is None else "value"))
        if md.get("cls") == "Dot15d4Metadata" and m:
            if m["k"] == "dot15d4.send_raw":
                h.add("d15_send_raw_from:" + {"Dot15d4FCS": "fcs-top", "Dot15d4": "dot15d4-top", "Dot15d4Raw": "raw-top"}.get(lay[0], "other"))
            elif lay[0] == "Dot15d4Raw":
                h.add("d15_send_from:raw-top")
    if op == "p2m2p" and cls == "dot15d4.raw_pdu" and lay and lay[0] == "Dot15d4Raw" and m:
        h.add("d15_raw_from:raw-top")
    if cls == "unifying.raw_pdu" and op == "p2m2p" and m and p_in and bytes.fromhex(p_in["bytes"])[:1] not in (b"\xaa", b""):
        h.add("esb_rx_from:preamble-forced")
    return [k for k in h if k in BRANCHES]


CASE_TYPES = {"m2p2m": ("ctab * cls * body * obs packet * obs (cls * body)", "check_m2p2m"),
              "p2m2p": ("ctab * cls * kwargs * packet * obs (cls * body) * obs packet", "check_p2m2p"),
              "convert": ("ctab * packet * obs (cls * body) * obs packet", "check_convert"),
              "seq_to": ("ctab * cls * list (body * obs packet)", "check_seq_to"),
              "seq_from": ("ctab * cls * list (packet * obs (cls * body))", "check_seq_from"),
              "seq_convert": ("list (packet * obs (cls * body))", "check_seq_convert")}


def run_impl_all(cases, rng=None):
    """Runs every case in TWO driver processes that first use the wrapper classes in opposite orders
    (a random order of all 23 classes and its reverse: for every pair of classes both relative orders
    occur; the second process also runs the cases in a shuffled order), so that a dependence on the
    order in which classes / cases are used in a process surfaces.  Returns the results of both."""
    from concurrent.futures import ThreadPoolExecutor
    import random
    rng = rng or random.Random(0)
    reqs = [c["req"] for c in cases]
    warm = sorted(U.CLS)
    rng.shuffle(warm)
    order2 = list(range(len(cases)))
    rng.shuffle(order2)
    with ThreadPoolExecutor(2) as ex:
        fa = ex.submit(C.run_impl, "C03.py", {"cases": reqs, "warmup": warm})
        fb = ex.submit(C.run_impl, "C03.py", {"cases": reqs, "warmup": warm[::-1], "order": order2})
        res, res2 = fa.result()["res"], fb.result()["res"]
    qlist = [queries_of(c, r) for c, r in zip(cases, res)]
    qlist2 = [queries_of(c, r) for c, r in zip(cases, res2)]
    uniq = sorted({q for qs in qlist + qlist2 for q in qs})
    out = C.run_impl("C03.py", {"cases": [], "codec": [[k, b.hex()] for k, b in uniq]})["codec"]
    cres = dict(zip(uniq, out))
    return res, qlist, cres, res2, qlist2, warm


def load_corpus():
    out = []
    cdir = os.path.join(C.VERIF, "corpus", PID)
    for fn in sorted(os.listdir(cdir)) if os.path.isdir(cdir) else []:
        if fn.endswith(".json"):
            w = json.load(open(os.path.join(cdir, fn)))
            w["file"] = fn
            out.append(w)
    return out


def run(ctx):
    C.build_dir(PID, clean=True)
    ctx.cov["trusted_base"] = [
        "Coq 8.16.1 kernel + vm_compute (no native_compute); theorems closed under the global context (Print Assumptions checked each run)",
        "hand-written model coq/theories/C03/Model.v tied to whad/hub/{ble,dot15d4,esb,unifying}/pdu.py, whad/hub/phy/packet.py, the "
        "domains' convert_packet and ProtocolHub.convert_packet by the correspondence of this run (field-by-field message, bytes(pkt), "
        "top layer and the complete metadata object at every stage, exception classes included)",
        "scapy (and whad's scapy layers) = Section variable `codec` WITHOUT hypothesis: 'well-formed PDU' is defined as codec k b = COk b "
        "(scapy rebuilds the bytes it dissected); in the correspondence the codec is the table of bytes(Layer(b)) results observed on scapy "
        "alone, in the same process configuration (ESB/Unifying binding, 802.15.4 upper protocol)",
        "a scapy packet is abstracted to (top layer, BTLE payload class, bytes(pkt), metadata object): two packets with the same bytes are the same packet",
        "google.protobuf field setters: None -> TypeError, out of range -> ValueError (modelled, exercised by the malformed stream)",
        "the oracle's table of which metadata item carries which message field (harness/props/C03_util.py MD_MAP / OPT_MAP)",
    ]
    ctx.assumptions = [
        "message fields are within their protobuf ranges (uint32/int32/uint64; BLE CRC < 2^24, 802.15.4 FCS < 2^16)",
        "the PDU is well-formed = scapy rebuilds it byte for byte (measured per class in coverage.distribution.codec_canonical)",
        "a packet carries, besides the items its message kind transports, no other metadata item (otherwise the round trip is the projection "
        "on the transported items, theorem C03_*_to_from_project)",
        "ESB_Payload_Hdr binding as set by the domain constructor (EsbDomain: unbind, UnifyingDomain: bind)",
        "PHY IQ samples are not translated (iq = [] in wf messages; 'IQ not supported yet' in the source)",
    ]
    proofs_ok, detail = ctx.check_proofs(lib_targets=["theories/Lib/Bytes.vo"])
    ctx.log("proofs:", proofs_ok, detail.splitlines()[0][:300])

    # ---- generation + implementation --------------------------------------------------------
    corpus = load_corpus()
    cases = [dict(w["case"], corpus=w["file"]) for w in corpus] + generate(ctx)
    res, qlist, cres, res2, qlist2, warm = run_impl_all(cases, ctx.rng)
    differ = [i for i in range(len(cases)) if res[i] != res2[i]]
    ctx.log("implementation: %d cases x 2 processes (opposite class orders), %d distinct codec queries, %d cases differ between the processes"
            % (len(cases), len(cres), len(differ)))
    ctx.cov["evaluations"] = 2 * len(cases)
    ctx.cov["traces_validated_against_impl"] = 2 * len(cases)
    # the second process: same cases appended (only those whose outcome differs go to Coq again; all go to the oracle)
    n1 = len(cases)
    cases = cases + [dict(cases[i], second_process=True) for i in range(n1)]
    res = res + res2
    qlist = qlist + qlist2

    # ---- oracle -------------------------------------------------------------------------------
    orc = Oracle(ctx)
    orc.warm2 = warm[::-1]
    canon = [canonical(qs, cres) for qs in qlist]
    for c, r, cn in zip(cases, res, canon):
        getattr(orc, c["req"]["op"])(c, r, cn)
    ctx.log("oracle: %d violations, stats %s" % (orc.n, json.dumps(orc.stats, sort_keys=True)))

    # ---- correspondence inside Coq ---------------------------------------------------------------
    pre = "From Whad Require Import Lib.Bytes C03.Model.\nOpen Scope Z_scope."
    terms = {k: [] for k in CASE_TYPES}
    index = {k: [] for k in CASE_TYPES}
    unmodellable, skipped = [], 0
    in_coq = set(range(n1)) | {n1 + i for i in differ}
    for i, (c, r, qs) in enumerate(zip(cases, res, qlist)):
        if i not in in_coq:
            continue
        try:
            kind, t = case_term(c, r, qs, cres)
        except SkipCase:
            skipped += 1
            continue
        except (U.Unmodellable, KeyError, AssertionError, TypeError) as e:
            unmodellable.append((i, "%s: %s" % (type(e).__name__, e)))
            continue
        terms[kind].append(t)
        index[kind].append(i)
    bad_all, logs = [], []
    for kind in CASE_TYPES:
        ty, fn = CASE_TYPES[kind]
        bad, lg = C.run_cases(PID, kind, pre, ty, terms[kind], fn, shard=120, max_chars=300000)
        logs += lg
        bad_all += [index[kind][j] for j in bad]
    ctx.notes += logs[:6]
    ctx.log("correspondence: %d cases in Coq, %d disagreements, %d not expressible" % (sum(len(v) for v in terms.values()), len(bad_all), len(unmodellable)))

    # ---- coverage -------------------------------------------------------------------------------
    by = {}
    for c, r, cn in zip(cases, res, canon):
        k = "%s %s" % (c["req"]["op"], c["req"].get("cls") or c.get("dom") or "-")
        d = by.setdefault(k, {"cases": 0, "kinds": {}, "codec_canonical": 0, "raised": 0})
        d["cases"] += 1
        d["kinds"][c["kind"]] = d["kinds"].get(c["kind"], 0) + 1
        d["codec_canonical"] += bool(cn)
        d["raised"] += bool(raised(r))
    branches = {k: 0 for k in BRANCHES}
    for c, r in zip(cases, res):
        for k in branch_hits(c, r):
            branches[k] += 1
    exact = [c for c, r in zip(cases, res) if c["kind"] in ("wf", "sendable")]
    ctx.cov["distinct_nontrivial"] = C.distinct_count([c["req"] for c in exact])
    ctx.cov["rule"] = ("cases = (class, message) / (class, packet) / sendable packet; PDUs of every LLID, control opcode, advertising PDU type, "
                       "802.15.4 frame type x addressing mode, ESB/Unifying frame type, lengths 0..max, x presence subsets of the optional "
                       "metadata items x boundary values. Non-trivial = well-formed or sendable input (the round trip is demanded); distinct by content hash")
    uncovered = [k for k in U.CLS if not any(c["req"].get("cls") == k for c in cases) and not k.startswith(("ble.send", "dot15d4.send", "esb.send", "unifying.send", "phy.send"))]
    ctx.cov["distribution"] = {"class_first_use_orders": [warm, warm[::-1]], "cases_differing_between_processes": len(differ),
                               "by_op_and_class": by, "oracle": orc.stats, "codec_queries": len(cres),
                               "codec_struct_error": sum(1 for v in cres.values() if "struct" in v),
                               "codec_other_exception": sum(1 for v in cres.values() if "exc" in v),
                               "not_expressible_in_model": len(unmodellable), "inputs_not_buildable": skipped, "model_branches": branches,
                               "uncovered_branches": uncovered + sorted(k for k, v in branches.items() if v == 0),
                               "max_pdu_len": max(len(b) for _k, b in cres) if cres else 0}
    pick = [i for i, c in enumerate(cases) if c["kind"] in ("wf", "sendable")]
    ctx.cov["samples"] = [{"case": cases[i]["req"], "tag": cases[i]["tag"], "impl": res[i]} for i in (pick[3], pick[len(pick) // 2], pick[-1])]
    ctx.cov["source_ties"] = [C.source_tie("whad/hub/ble/pdu.py", 56, 345), C.source_tie("whad/hub/ble/__init__.py", 231, 251),
                              C.source_tie("whad/hub/dot15d4/pdu.py", 16, 290), C.source_tie("whad/hub/dot15d4/__init__.py", 183, 203),
                              C.source_tie("whad/hub/esb/pdu.py"), C.source_tie("whad/hub/esb/__init__.py", 131, 157),
                              C.source_tie("whad/hub/unifying/pdu.py"), C.source_tie("whad/hub/unifying/__init__.py", 90, 116),
                              C.source_tie("whad/hub/phy/packet.py", 48, 320), C.source_tie("whad/hub/phy/__init__.py", 179, 199),
                              C.source_tie("whad/hub/metadata.py"), C.source_tie("whad/hub/message.py", 14, 26),
                              C.source_tie("whad/hub/__init__.py", 195, 219)]
    ctx.cov["correspondence"] = {"cases": {k: len(v) for k, v in terms.items()}, "bad": len(bad_all), "not_expressible": unmodellable[:10]}

    # ---- verdict ------------------------------------------------------------------------------------
    if (bad_all or unmodellable or not proofs_ok) and not ctx.violations:
        first = None
        if bad_all:
            i = bad_all[0]
            first = {"req": cases[i]["req"], "tag": cases[i]["tag"], "impl": res[i]}
            what = "correspondence C03.Model vs hub wrapper classes (%d disagreements, first: %s %s)" % (
                len(bad_all), cases[i]["req"]["op"], cases[i]["req"].get("cls", ""))
        elif unmodellable:
            i = unmodellable[0][0]
            first = {"req": cases[i]["req"], "tag": cases[i]["tag"], "impl": res[i], "why": unmodellable[0][1]}
            what = "correspondence C03.Model: %d observed outcomes cannot be expressed in the model (%s)" % (len(unmodellable), unmodellable[0][1])
        else:
            what = "proof obligations of theories/C03: " + detail.splitlines()[0][:200]
        ctx.broken_obligation(what, detail if not proofs_ok else "\n".join(logs), first)


def replay(payload):
    case = payload.get("case") or payload.get("first_disagreeing_case")
    print(json.dumps(case)[:3000])
    if case and "req" in case:
        r = C.run_impl("C03.py", {"cases": [case["req"]], "warmup": case.get("class_first_use_order", [])})["res"][0]
        print("implementation now gives:")
        for k, v in r.items():
            print("  ", k, json.dumps(v)[:1500])
    return 0
