"""C08 — GATT server access control holds for every ATT procedure and sequence.
See DESIGN.md §2 C08 / Appendix B and design/C08.md.

Pipeline: (1) build + Print Assumptions of theories/C08 (over the server model of theories/C07);
(2) corpus (regression witnesses of the repaired defects), then random profiles x histories with
link-security switching, application writes, disconnect/reconnect; (3) the real stack through
harness/impl/C07.py -- every history is run TWICE, the second time on a twin profile that differs
only in the values of characteristics the client may neither read nor write at any time of the
history; (4) oracle = reference permission model in Python: (a) the two runs must be
indistinguishable for the client, (b) a characteristic value changes across a request only if
writable + link secure enough, (c) notifications/indications only while subscribed in the current
connection; (5) correspondence with the Coq model (same cases, in Coq); (6) verdict."""
import json, struct
from harness import common as C
from harness.props import C07_util as U

PID = "C08"
PRE8 = "From Whad Require Import Lib.Bytes C07.Model C08.Model.\nOpen Scope N_scope."


def secret_handles(rows, evs):
    """value handles of characteristics that the client may neither read nor write under any link
    state in force during the history"""
    states = {(e, a) for (e, a, _c) in U.link_states(evs)} | {(False, False)}
    # characteristics a hook of the application assigns itself are not compared (C08_non_interference: acts_avoid)
    assigned = {a[0] + 1 for e in evs for a in (e.get("acts") or {}).values()}
    out = []
    for r in rows:
        if r["kind"] != "KValue" or r["handle"] in assigned:
            continue
        if any(U.may_read(r, e, a) or U.may_write(r, e, a) for e, a in states):
            continue
        out.append(r["handle"])
    return out


def twin_of(rng, spec, secret):
    """same profile, other values (and lengths) at the secret handles"""
    t = json.loads(json.dumps(spec))
    for s in t["services"]:
        for c in s["chars"]:
            if c["handle"] + 1 in secret:
                old = bytes.fromhex(c["value"])
                new = old
                while new == old:
                    new = U.rand_bytes(rng, rng.choice([0, 1, len(old), len(old) + 1, max(0, len(old) - 1), 22, 23, 40]))
                c["value"] = new.hex()
    return t


def oracle_case(spec, evs, res, twin_res, secret):
    """returns list of (step, what, expected, observed)"""
    bad = []
    rows = U.flatten(spec)
    by_h = {r["handle"]: r for r in rows}
    links = U.link_states(evs)
    # (a) non-interference: the twin run must look the same to the client
    if twin_res is not None:
        for k, (s1, s2) in enumerate(zip(res["steps"], twin_res["steps"])):
            if s1["out"] != s2["out"] or s1["probe"] != s2["probe"]:
                bad.append((k, "answers depend on the value of a characteristic the client may not read (handles %s)" % secret,
                            s1["out"], s2["out"]))
                break
    # (b) writes need permission, (c) notifications only while subscribed
    sub = {}          # decl handle -> configuration written during this connection
    cccd_val = {r["handle"]: r["value"] for r in rows if r["kind"] == "KCccd"}
    for k, (ev, st) in enumerate(zip(evs, res["steps"])):
        enc, auth, conn = links[k]
        if ev["op"] == "req" and conn:
            assigned = {a[0] + 1 for a in (ev.get("acts") or {}).values()}
            for h, v in st["vals"].items():
                row = by_h.get(int(h))
                if row is not None and row["kind"] == "KValue" and int(h) not in assigned and not U.may_write(row, enc, auth):
                    bad.append((k, "value of handle %s changed by %s although the characteristic is not writable over this link "
                                   "(props 0x%02x, security 0x%02x, encrypted=%s, authenticated=%s)"
                                % (h, ev["req"][0], row["props"], row["sec"], enc, auth), "unchanged", v))
            r = ev["req"]
            if r[0] in ("Write", "WriteCmd"):
                row = by_h.get(r[1])
                if row is not None and row["kind"] == "KCccd":
                    # accepted = the server stored the configuration: Write Response sent / no error PDU for a
                    # command (a 'subscribed' hook raising afterwards does not undo it)
                    # (notifications emitted by a hook that updates a characteristic are not answers)
                    rsp = [p for p in st["out"] if p[:2] not in ("1b", "1d")]
                    accepted = (rsp[:1] == ["13"]) if r[0] == "Write" else (rsp == [])
                    if str(r[1]) in st["vals"]:
                        cccd_val[r[1]] = bytes.fromhex(st["vals"][str(r[1])])
                    if accepted and len(r[2]) <= 2:
                        v = cccd_val[r[1]]
                        sub[row["decl"]] = struct.unpack("<H", v)[0] if len(v) == 2 else None
        elif ev["op"] == "disc":
            sub = {}
        for p in st["out"]:
            b = bytes.fromhex(p)
            if b and b[0] in (0x1b, 0x1d):
                # sent by the application's write or, inside a request, by a hook that updates a characteristic;
                # checked against the subscription state AFTER the step (a 'subscribed' hook may update at once)
                if ev["op"] == "req" and not ev.get("acts"):
                    bad.append((k, "notification/indication emitted while answering a request whose hooks update nothing", "no PDU", p))
                    continue
                vh = struct.unpack("<H", b[1:3])[0]
                want = 1 if b[0] == 0x1b else 2
                if not conn or sub.get(vh - 1) != want:
                    bad.append((k, "%s for handle %d sent although the client is not subscribed (connected=%s, subscription=%r)"
                                % ("notification" if want == 1 else "indication", vh, conn, sub.get(vh - 1)), "no PDU", p))
    return bad


def gen_cases(ctx, n):
    rng, cases = ctx.rng, []
    for i in range(n):
        spec = U.gen_profile(rng, small=(i % 3 == 0))
        g = U.HistoryGen(rng, U.flatten(spec), hooks_p=0.2 if i % 3 else 0.0, allow_raise=(i % 10 == 0), link_events=True)
        n = rng.randrange(8, 28)
        evs = (g.sub_history(n) if i % 5 == 1 else g.exec_history(n) if i % 5 == 2
               else g.hook_history(n) if i % 5 == 3 else g.history(n))
        if i % 2 == 0 and g.connected:
            # every read procedure on characteristics with read security requirements (authorization included),
            # whatever the rest of the history did
            guarded = [r for r in U.flatten(spec) if r["kind"] == "KValue" and (r["sec"] & 0x0F)]
            for r in rng.sample(guarded, min(len(guarded), 3)):
                evs.append({"op": "req", "req": ("Read", r["handle"]), "hooks": {}})
                evs.append({"op": "req", "req": ("ReadBlob", r["handle"], rng.choice([0, len(r["value"]), 1])), "hooks": {}})
        elif i % 2 == 1 and g.connected:
            # every write procedure on characteristics with security requirements, under a random link state
            guarded = [r for r in U.flatten(spec) if r["kind"] == "KValue" and r["sec"]]
            for r in rng.sample(guarded, min(len(guarded), 2)):
                data = U.rand_bytes(rng, rng.randrange(1, 6))
                evs += [{"op": "sec", "enc": rng.random() < 0.5, "auth": rng.random() < 0.5},
                        {"op": "req", "req": (rng.choice(["Write", "WriteCmd"]), r["handle"], data), "hooks": {}},
                        {"op": "req", "req": ("PrepareWrite", r["handle"], 0, data[::-1]), "hooks": {}},
                        {"op": "req", "req": ("ExecuteWrite", 1), "hooks": {}},
                        {"op": "req", "req": ("Read", r["handle"]), "hooks": {}}]
        dups = U.dup_uuid_rows(U.flatten(spec))
        if dups and g.connected:
            # procedures that select by type / UUID on characteristic UUIDs shared by several characteristics
            # (different properties / security), with the value of each of them
            for r in rng.sample(dups, min(len(dups), 4)):
                ty = struct.unpack("<H", r["type"])[0]
                evs.append({"op": "req", "req": ("FindByTypeValue", 1, 0xFFFF, ty, r["value"][:16]), "hooks": {}})
            for ty in sorted({struct.unpack("<H", r["type"])[0] for r in dups})[:4]:
                evs.append({"op": "req", "req": ("ReadByType", 1, 0xFFFF, ty), "hooks": {}})
        cases.append((spec, evs))
    return cases


def run(ctx):
    C.build_dir(PID, clean=True)
    ctx.cov["trusted_base"] = [
        "Coq 8.16.1 kernel + vm_compute; theorems closed under the global context (Print Assumptions checked each run)",
        "hand-written model coq/theories/C07/Model.v (variant V_fixed) + reference permission model coq/theories/C08/Model.v, tied to the code by the correspondence of this run",
        "scapy ATT dissect/build; LinkLayerState.connections[h]['encrypted'|'authenticated'] set directly by the harness (pairing / encryption start are not driven)",
        "hook oracle: user hooks only return / raise; application writes go through Characteristic.value's setter",
        "threading.Lock replaced by a non-blocking lock of the same interface",
    ]
    ctx.assumptions = ["attribute database well-formed, every CCCD belongs to a characteristic and is its only CCCD (checked on every generated profile: cccd_ok)",
                       "non-interference: link security constant during the session; no AUTHORISED write to the compared characteristics (their answers may legitimately depend on the old length)",
                       "authorization is never granted by this stack (a characteristic requiring it is neither readable nor writable)"]
    proofs_ok, detail = ctx.check_proofs(lib_targets=["theories/Lib/Bytes.vo"])
    ctx.log("proofs:", proofs_ok, detail.splitlines()[0][:200])

    cases, meta = [], []
    for w in U.load_corpus(PID):
        cases.append((w["profile"], [U.ev_from_json(e) for e in w["events"]]))
        meta.append({"kind": "corpus", "file": w["file"]})
    for c in gen_cases(ctx, 2000 if ctx.thorough else 180):
        cases.append(c)
        meta.append({"kind": "generated"})
    # twin profiles
    twins, secrets = [], []
    for spec, evs in cases:
        sec = secret_handles(U.flatten(spec), evs)
        secrets.append(sec)
        twins.append((twin_of(ctx.rng, spec, sec), evs) if sec else None)
    res = U.run_impl(cases)
    tw_idx = [i for i, t in enumerate(twins) if t is not None]
    tw_res = dict(zip(tw_idx, U.run_impl([twins[i] for i in tw_idx]))) if tw_idx else {}
    for i, r in list(enumerate(res)) + list(tw_res.items()):
        if "steps" not in r:
            raise C.CheckBroken("impl driver failed on case %d: %s" % (i, r.get("driver_error")))
    ctx.cov["evaluations"] = sum(len(e) for _s, e in cases) + sum(len(cases[i][1]) for i in tw_idx)
    ctx.cov["traces_validated_against_impl"] = len(cases) + len(tw_idx)

    # ---- oracle --------------------------------------------------------------------------------
    nviol = 0
    for i, ((spec, evs), r) in enumerate(zip(cases, res)):
        for (k, what, exp, obs) in oracle_case(spec, evs, r, tw_res.get(i), secrets[i]):
            case = {"profile": spec, "events": [U.ev_to_json(e) for e in evs[:k + 1]], "step": k,
                    "twin": twins[i][0] if twins[i] else None, "secret": secrets[i]}
            nviol += bool(ctx.violation(what, case, expected=exp, observed=obs))

    # ---- correspondence in Coq (both the run and its twin) ----------------------------------------
    terms = [U.case_lit(spec, evs, r, True) for (spec, evs), r in zip(cases, res)]
    terms += [U.case_lit(twins[i][0], twins[i][1], tw_res[i], True) for i in tw_idx]
    bad, logs = C.run_cases(PID, "corr", PRE8, U.CASE_T, terms, "check_case8", shard=max(4, len(terms) // 15 + 1), max_chars=160000)
    ctx.notes += logs[:3]
    ctx.log("oracle: %d violations; correspondence: %d cases (%d twins), %d bad" % (nviol, len(terms), len(tw_idx), len(bad)))

    # ---- coverage ------------------------------------------------------------------------------
    import collections
    stats = collections.Counter()
    link_seen = collections.Counter()
    for i, ((spec, evs), r) in enumerate(zip(cases, res)):
        rows = {x["handle"]: x for x in U.flatten(spec)}
        links = U.link_states(evs)
        for k, (ev, st) in enumerate(zip(evs, r["steps"])):
            enc, auth, conn = links[k]
            link_seen["enc=%d auth=%d conn=%d" % (enc, auth, conn)] += 1
            if ev["op"] == "req":
                kind = ev["req"][0]
                first = st["out"][0] if st["out"] else ""
                if first[:2] == "01":
                    stats["error 0x" + first[8:10]] += 1
                if kind in ("Read", "ReadBlob", "Write", "WriteCmd", "PrepareWrite"):
                    row = rows.get(ev["req"][1])
                    if row is not None and row["kind"] == "KValue":
                        acc = U.may_read(row, enc, auth) if kind.startswith("Read") else U.may_write(row, enc, auth)
                        stats["%s on value: %s" % (kind, "permitted" if acc else "denied")] += 1
                if any(int(h) in rows and rows[int(h)]["kind"] == "KValue" for h in st["vals"]):
                    stats["value changed by " + kind] += 1
            elif ev["op"] == "set":
                stats["app set -> " + ("notification" if any(p[:2] == "1b" for p in st["out"]) else
                                       "indication" if any(p[:2] == "1d" for p in st["out"]) else "nothing")] += 1
            else:
                stats[ev["op"]] += 1
    ctx.cov["distinct_nontrivial"] = C.distinct_count([[cases[i][0], [U.ev_to_json(e) for e in cases[i][1]]] for i in tw_idx] +
                                                      [[s, [U.ev_to_json(e) for e in evs]] for (s, evs), r in zip(cases, res)
                                                       if any(st["vals"] for st in r["steps"])])
    ctx.cov["rule"] = ("case = (random profile with all property/security combinations, history of 8..27 events incl. link-security switches, "
                       "application writes, disconnect/reconnect). Non-trivial = has a twin run (at least one characteristic never readable nor "
                       "writable) or at least one attribute value changed; distinct by content hash")
    ctx.cov["distribution"] = {"cases": len(cases), "twin_runs": len(tw_idx),
                               "secret_handles_per_twin_avg": round(sum(len(secrets[i]) for i in tw_idx) / max(1, len(tw_idx)), 2),
                               "events": dict(sorted(stats.items())), "link_states": dict(link_seen),
                               "uncovered_branches": [k for k in ["error 0x05", "error 0x0f", "error 0x08", "error 0x02", "error 0x03",
                                                                  "Read on value: denied", "Write on value: denied", "PrepareWrite on value: denied",
                                                                  "value changed by ExecuteWrite", "value changed by WriteCmd",
                                                                  "app set -> notification", "app set -> indication", "disc", "conn", "sec"]
                                                      if k not in stats]}
    g = [i for i, m in enumerate(meta) if m["kind"] == "generated"]
    ctx.cov["samples"] = [{"events": [U.ev_to_json(e) for e in cases[i][1][:4]], "impl": res[i]["steps"][:4], "secret": secrets[i]} for i in g[:3]]
    ctx.cov["source_ties"] = [C.source_tie("whad/ble/stack/gatt/__init__.py", 1205, 2642),
                              C.source_tie("whad/ble/profile/characteristic.py", 508, 525),
                              C.source_tie("whad/ble/profile/characteristic.py", 631, 770),
                              C.source_tie("whad/ble/stack/llm/__init__.py", 230, 280),
                              C.source_tie("whad/ble/stack/llm/__init__.py", 459, 480),
                              C.source_tie("whad/ble/stack/att/constants.py", 120, 241)]
    ctx.cov["correspondence"] = {"cases": len(terms), "bad": len(bad)}

    if (bad or not proofs_ok) and not ctx.violations:
        first = None
        if bad:
            i = bad[0]
            if i < len(cases):
                first = {"profile": cases[i][0], "events": [U.ev_to_json(e) for e in cases[i][1]], "impl": res[i]["steps"]}
            else:
                j = tw_idx[i - len(cases)]
                first = {"profile": twins[j][0], "events": [U.ev_to_json(e) for e in twins[j][1]], "impl": tw_res[j]["steps"]}
        what = ("correspondence C07.Model/C08.Model vs the GATT server: %d of %d histories disagree" % (len(bad), len(terms))
                if bad else "proof obligations of theories/C08: " + detail.splitlines()[0][:200])
        ctx.broken_obligation(what, detail if not proofs_ok else "\n".join(logs), first)


def replay(payload):
    case = payload.get("case") or payload.get("first_disagreeing_case")
    if not case:
        print("nothing to replay")
        return 0
    evs = [U.ev_from_json(e) for e in case["events"]]
    runs = [(case["profile"], evs)] + ([(case["twin"], evs)] if case.get("twin") else [])
    rr = U.run_impl(runs)
    for k, e in enumerate(evs):
        print(k, json.dumps(U.ev_to_json(e)), "->", rr[0]["steps"][k]["out"], rr[0]["steps"][k]["vals"],
              ("| twin: %s" % rr[1]["steps"][k]["out"]) if len(rr) > 1 else "")
    bad = oracle_case(case["profile"], evs, rr[0], rr[1] if len(rr) > 1 else None, case.get("secret", []))
    print("oracle now reports:", [(b[0], b[1]) for b in bad])
    return 1 if bad else 0
