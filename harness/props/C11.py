"""C11 — L2CAP segmentation / reassembly.  See DESIGN.md §2 C11.

Pipeline: (1) build + Print Assumptions of theories/C11; (2) generate SDUs / fragment
sequences; (3) run the real L2CAPLayer (harness/impl/C11.py); (4) impl-side oracle =
the property itself on the real code; (5) correspondence model vs implementation
evaluated inside Coq; (6) verdict.
"""
import json, os
from harness import common as C
from harness.common import cbytes, cbool, clist, cnat, cpair
from harness.props import pyfun_util

PID = "C11"
KEY_STRAY = "stray-continuation-taken-as-start"
ATT_FIRST = [0x7f, 0x12, 0x52, 0x1b, 0x1d, 0x0b]
SMP_FIRST = [0xf0, 0x03, 0x04, 0x0c]


def mk_sdu(rng, n, cid):
    if n == 0:
        return b""
    first = rng.choice(SMP_FIRST if cid == 6 else ATT_FIRST)
    # bias towards bytes that look like headers / small lengths
    body = bytes(rng.choice([rng.randrange(256), rng.randrange(8), 0, 4, 6, 255]) for _ in range(n - 1))
    return bytes([first]) + body


def gen_send_cases(ctx):
    rng, cases = ctx.rng, []
    def add(mtu, cid, n):
        cases.append((mtu, cid, mk_sdu(rng, n, cid)))
    if ctx.thorough:
        for mtu in (23, 185, 517):
            for n in range(0, 1025):
                add(mtu, rng.choice([4, 4, 6]), n)
        mtus = range(23, 518)
    else:
        for n in range(0, 72):
            add(23, 4 if n % 3 else 6, n)
        mtus = [23, 24, 27, 100, 185, 247, 251, 252, 512, 517] + [rng.randrange(23, 518) for _ in range(6)]
    for mtu in mtus:
        k = mtu - 1
        for n in sorted({mtu - 1, mtu, mtu + 1, k, k + 1, 2 * k - 1, 2 * k, 2 * k + 1, 3 * k, 3 * k + 1}):
            if 0 <= n <= 2000:
                add(mtu, rng.choice([4, 6, 4, 0x40]), n)
    for _ in range(400 if ctx.thorough else 40):
        add(rng.randrange(23, 518), rng.choice([4, 6]), rng.randrange(0, 65536) if rng.random() < 0.08 else rng.randrange(0, 3000))
    # periodic SDUs: later chunks byte-identical to the first chunk (period = MTU-1 and divisors),
    # constant fills, and repeated identical continuation chunks
    for mtu in ([23, 24, 100] if not ctx.thorough else [23, 24, 27, 64, 100, 185, 247]):
        k = mtu - 1
        for reps, tail in ((2, 0), (3, 0), (3, 5), (4, 1)):
            first = rng.choice(ATT_FIRST)
            block = bytes([first]) + bytes(rng.randrange(256) for _ in range(k - 1))
            cases.append((mtu, 4, block * reps + block[:tail]))
            cases.append((mtu, 6, bytes([0xf0]) * (k * reps + tail)))
        half = bytes([rng.choice(ATT_FIRST)]) + bytes(rng.randrange(256) for _ in range(k // 2 - 1)) if k % 2 == 0 else None
        if half:
            cases.append((mtu, 4, half * 6))
    # degenerate MTUs below 23 are outside the property (MTU >= 23) but inside the theorem (>= 2)
    for mtu in (2, 3, 5):
        for n in (0, 1, 2, 3, 7, 11):
            add(mtu, 4, n)
    return cases


def rand_garbage(rng, maxfr=4):
    out = []
    for _ in range(rng.randrange(0, maxfr + 1)):
        kind = rng.randrange(6)
        if kind == 0:      # stray continuation, arbitrary
            d = bytes(rng.randrange(256) for _ in range(rng.randrange(0, 12)))
            out.append((True, d))
        elif kind == 1:    # truncated start
            n = rng.randrange(5, 60)
            d = bytes([n, 0, 4, 0]) + bytes(rng.randrange(256) for _ in range(rng.randrange(0, n - 1)))
            out.append((False, d))
        elif kind == 2:    # oversized start
            n = rng.randrange(1, 10)
            d = bytes([n, 0, rng.choice([4, 6]), 0, 0x7f]) + bytes(rng.randrange(256) for _ in range(n + rng.randrange(0, 8)))
            out.append((False, d))
        elif kind == 3:    # tiny fragments
            out.append((rng.random() < 0.5, bytes(rng.randrange(256) for _ in range(rng.randrange(0, 2)))))
        elif kind == 4:    # continuation that looks like a full frame
            out.append((True, bytes([2, 0, 4, 0, 0x7f, rng.randrange(256)])))
        else:              # unknown channel complete frame
            out.append((False, bytes([1, 0, 0x40, 0, 9])))
    return out


def ref_recv(frs, stray_as_start):
    """Reference reassembly (the property's reading): a start fragment opens a frame of the
    announced length, continuations extend it, the announced prefix is delivered on ATT (4) /
    SMP (6) when non-empty; a continuation with nothing pending is dropped
    (stray_as_start=False) or, as the present code does, taken as a start (True)."""
    fifo, exp, out = None, 0, []
    def route(fr):
        cid, pl = fr[2] | (fr[3] << 8), fr[4:]
        if pl and cid in (4, 6):
            out.append((cid, bytes(pl)))
    for flag, d in frs:
        if flag and fifo is not None:
            fifo += d
            if len(fifo) >= exp:
                route(fifo[:exp]); fifo = None
        elif (not flag or stray_as_start) and len(d) >= 2:
            fifo, exp = bytes(d), (d[0] | (d[1] << 8)) + 4
            if len(fifo) >= exp:
                route(fifo[:exp]); fifo = None
    return out


def run(ctx):
    C.build_dir(PID, clean=True)
    ctx.cov["trusted_base"] = [
        "Coq 8.16.1 kernel + vm_compute (no native_compute); theorems closed under the global context (Print Assumptions checked each run)",
        "hand-written model coq/theories/C11/Model.v tied to whad/ble/stack/l2cap/__init__.py by the correspondence of this run",
        "scapy L2CAP_Hdr build/dissect (modelled as LE16 len, LE16 cid, channel 4 -> ATT, 6 -> SMP, empty payload -> no upper layer); exercised on every case",
        "LinkLayer data path (on_l2cap_send_data / on_data_pdu) driven for real on a subset of the cases; BTLE_DATA is observed as (LLID, payload) before serialisation (the one-byte length field of the air format is outside the model)",
    ]
    ctx.assumptions = ["SDU length < 65536 and channel id < 65536 (the L2CAP header fields are 16-bit; scapy raises otherwise)",
                       "fragments are fed to the peer in order (the link layer's job)"]
    proofs_ok, detail = ctx.check_proofs(lib_targets=["theories/Lib/Bytes.vo"])
    ctx.log("proofs:", proofs_ok, detail.splitlines()[0][:200])
    # ---- arithmetic core regenerated from the source and proved equal to the model ----
    # (harness/translators/pyfun.py, theories/C11/{Gen,GenEq,PropertyGen}.v, design/PYTRANS.md)
    gen = pyfun_util.check_generated(ctx, PID)
    ctx.log("generated arithmetic (get_fragments, on_data_received):", "ok" if gen["ok"] else "BROKEN: " + str(gen["what"])[:200],
            "; identical to snapshot:", ctx.cov["pyfun"]["identical_to_snapshot"])
    # self-test of the translator on synthetic functions (grammar coverage + functions it must refuse)
    rc_st, out_st = C.sh(["python3", os.path.join(C.VERIF, "harness", "translators", "pyfun_selftest.py")], timeout=300)
    ctx.cov["obligations"] += 1
    ctx.cov["pyfun"]["selftest"] = [l for l in out_st.splitlines() if l.startswith(("refused", "accepted", "FAIL", "NOT"))]
    if rc_st == 0:
        ctx.cov["discharged"] += 1
    else:
        gen["ok"] = False
        gen["what"] = gen["what"] or "self-test of harness/translators/pyfun.py fails"
        gen["detail"] += "\n[pyfun] translator self-test:\n" + out_st[-1500:]
    ctx.cov["trusted_base"].append(
        "the arithmetic of get_fragments / on_data_received is NOT trusted to the hand-written model: it is regenerated from the source by "
        "harness/translators/pyfun.py on every run and proved equal to the model (PropertyGen.v); trusted there: the translator's reading of "
        "Python (validated differentially against CPython on this run) and int(a/b) = a//b below 2^53 (design/PYTRANS.md)")

    # ---- generation + implementation ------------------------------------
    send_cases = gen_send_cases(ctx)
    req = {"send": [[m, c, s.hex()] for m, c, s in send_cases], "recv": []}
    r1 = C.run_impl("C11.py", req)
    rng = ctx.rng
    recv_cases, meta = [], []
    # known-finding witnesses from the corpus run first
    cdir = os.path.join(C.VERIF, "corpus", PID)
    for fn in sorted(os.listdir(cdir)) if os.path.isdir(cdir) else []:
        w = json.load(open(os.path.join(cdir, fn)))
        recv_cases.append([(bool(f), bytes.fromhex(h)) for f, h in w["frags"]])
        meta.append({"kind": w.get("kind", "corpus"), "file": fn})
    # (a) the implementation's own fragments, optionally after garbage, several SDUs in a row
    ok_send = [(i, sc) for i, sc in enumerate(send_cases) if "frags" in r1["send"][i] and len(sc[2]) <= 3000]
    for j in range(len(ok_send)):
        i, (mtu, cid, sdu) = ok_send[j]
        frs = [(f, bytes.fromhex(h)) for f, h in r1["send"][i]["frags"]]
        expect = [(cid, sdu)] if (cid in (4, 6) and sdu) else []
        g = rand_garbage(rng) if j % 2 else []
        if j % 5 == 0 and j + 1 < len(ok_send):
            i2, (m2, c2, s2) = ok_send[j + 1]
            frs = frs + [(f, bytes.fromhex(h)) for f, h in r1["send"][i2]["frags"]]
            expect = expect + ([(c2, s2)] if (c2 in (4, 6) and s2) else [])
        recv_cases.append(g + frs)
        meta.append({"kind": "sdu-after-garbage" if g else "sdu", "tail": expect, "send_index": i})
    # (b) pure malformed streams
    for _ in range(2000 if ctx.thorough else 150):
        recv_cases.append(rand_garbage(rng, 6))
        meta.append({"kind": "malformed"})
    # (c) dedicated stray continuations on an idle receiver that are complete frames
    for _ in range(5):
        n = rng.randrange(1, 6)
        recv_cases.append([(True, bytes([n, 0, rng.choice([4, 6]), 0]) + bytes([0x7f] * n))])
        meta.append({"kind": "stray-complete"})
    # (d) dropped / duplicated fragments inside an SDU, then a clean SDU
    for j in range(0, len(ok_send) - 1, 7):
        i, (mtu, cid, sdu) = ok_send[j]
        frs = [(f, bytes.fromhex(h)) for f, h in r1["send"][i]["frags"]]
        if len(frs) < 2:
            continue
        k = rng.randrange(1, len(frs))
        mut = frs[:k] + frs[k + 1:] if rng.random() < 0.5 else frs[:k] + [frs[k]] + frs[k:]
        i2, (m2, c2, s2) = ok_send[j + 1]
        clean = [(f, bytes.fromhex(h)) for f, h in r1["send"][i2]["frags"]]
        recv_cases.append(mut[:-1] + clean if rng.random() < 0.5 else mut[:1] + clean)
        meta.append({"kind": "lossy-then-clean", "tail": [(c2, s2)] if (c2 in (4, 6) and s2) else []})
    r2 = C.run_impl("C11.py", {"send": [], "recv": [[[f, d.hex()] for f, d in frs] for frs in recv_cases]})

    # ---- the same through the real LinkLayer of both stacks (LLID, payload) ----
    step = 1 if ctx.thorough else 4
    ll_send_idx = [i for i in range(0, len(send_cases), step) if len(send_cases[i][2]) <= 3000]
    ll_recv_idx = list(range(0, len(recv_cases), step))
    def to_ll(frs):
        return [[(1 if f else rng.choice([2, 2, 2, 0])), d.hex()] for f, d in frs]
    ll_recv_in = {i: to_ll(recv_cases[i]) for i in ll_recv_idx}
    r3 = C.run_impl("C11.py", {"send_ll": [[send_cases[i][0], send_cases[i][1], send_cases[i][2].hex()] for i in ll_send_idx],
                               "recv_ll": [ll_recv_in[i] for i in ll_recv_idx]})
    # ---- histories of MTU updates before an SDU; end-to-end object forwarding ----
    after_cases = []
    mt = [23, 24, 27, 64, 100, 185, 247, 251, 252, 300, 517]
    for _ in range(400 if ctx.thorough else 60):
        ops = [[rng.random() < 0.4, rng.choice(mt)] for _ in range(rng.randrange(1, 4))]
        if rng.random() < 0.7:
            ops.append([False, rng.choice(mt)])          # a peer MTU announced last
        rm = 23
        for il, m in ops:
            if not il:
                rm = m
        n = rng.choice([rm - 1, rm, rm + 1, 2 * rm, 100, 3 * (rm - 1) + 2, rng.randrange(0, 700)])
        cid = rng.choice([4, 4, 6])
        after_cases.append((ops, cid, mk_sdu(rng, max(0, n), cid)))
    e2e_cases = []
    for mtu in ([23, 100, 251, 252, 253, 257, 300, 517] if not ctx.thorough else list(range(23, 518, 13)) + [251, 252, 253, 255, 256, 257, 517]):
        for n in sorted({1, mtu - 1, mtu, mtu + 1, 2 * mtu, 255, 256, 260, 600}):
            cid = rng.choice([4, 6])
            e2e_cases.append((mtu, cid, [mk_sdu(rng, n, cid), mk_sdu(rng, rng.randrange(1, 40), cid)], rng.choice([42, 0, 1, 0])))
    # the largest SDUs the 16-bit length field can announce, end to end (connection handle 0 and 42)
    for n in ([65531, 65532, 65535] if not ctx.thorough else [65530, 65531, 65532, 65533, 65534, 65535]):
        e2e_cases.append((rng.choice([23, 185, 517]), rng.choice([4, 6]), [mk_sdu(rng, 40, 4), mk_sdu(rng, n, 4), mk_sdu(rng, 100, 4)], rng.choice([0, 42])))
    r4 = C.run_impl("C11.py", {"send_after": [[o, c, s.hex()] for o, c, s in after_cases],
                               "e2e": [[m, c, [s.hex() for s in ss], h] for m, c, ss, h in e2e_cases]})
    ctx.cov["evaluations"] = len(send_cases) + len(recv_cases) + len(ll_send_idx) + len(ll_recv_idx) + len(after_cases) + len(e2e_cases)
    ctx.cov["traces_validated_against_impl"] = ctx.cov["evaluations"]

    # ---- oracle: the property on the real code -----------------------------
    nviol = 0
    for i, (mtu, cid, sdu) in enumerate(send_cases):
        res = r1["send"][i]
        case = {"op": "send", "mtu": mtu, "cid": cid, "sdu": sdu.hex()}
        if "exc" in res:
            if len(sdu) < 65536:
                nviol += ctx.violation("segmentation raised " + res["exc"], case, observed=res)
            continue
        frs = res["frags"]
        if mtu >= 23:
            big = [len(h) // 2 for _f, h in frs if len(h) // 2 > mtu + 4]
            if big:
                nviol += ctx.violation("link-layer payload exceeds MTU+4", case, expected="<= %d" % (mtu + 4), observed=big)
        if not frs or frs[0][0] or not all(f for f, _ in frs[1:]):
            nviol += ctx.violation("fragment flags wrong (first must be a start, others continuations)", case, observed=[f for f, _ in frs])
    for i, frs in enumerate(recv_cases):
        res, m = r2["recv"][i], meta[i]
        case = {"op": "recv", "frags": [[f, d.hex()] for f, d in frs], "kind": m["kind"]}
        if "exc" in res:
            nviol += ctx.violation("reassembly raised " + res["exc"], case, observed=res)
            continue
        out = [(c, bytes.fromhex(h)) for c, h in res["out"]]
        if "tail" in m:
            exp = [(c, bytes(s)) for c, s in m["tail"]]
            got = out[len(out) - len(exp):] if exp else []
            if got != exp:
                nviol += ctx.violation("well-formed SDU not delivered intact as the last PDU(s)", case,
                                       expected=[[c, s.hex()] for c, s in exp], observed=res["out"])
            if m["kind"] == "sdu" and out != exp:
                nviol += ctx.violation("clean SDU sequence delivered something else", case,
                                       expected=[[c, s.hex()] for c, s in exp], observed=res["out"])
        if m["kind"] in ("stray-complete", "finding") or (len(frs) == 1 and frs[0][0]):
            if out:
                ctx.violation("stray continuation fragment delivered to the upper layer", case,
                              key=KEY_STRAY, expected=[], observed=res["out"])

    for k, i in enumerate(ll_send_idx):
        res, (mtu, cid, sdu) = r3["send_ll"][k], send_cases[i]
        case = {"op": "send_ll", "mtu": mtu, "cid": cid, "sdu": sdu.hex()}
        if "exc" in res:
            nviol += ctx.violation("link layer raised " + res["exc"] + " while sending an SDU", case, observed=res)
            continue
        pd = res["pdus"]
        if mtu >= 23 and any(len(h) // 2 > mtu + 4 for _l, h in pd):
            nviol += ctx.violation("link-layer payload exceeds MTU+4", case, observed=[len(h) // 2 for _l, h in pd])
        if not pd or pd[0][0] != 2 or any(l != 1 for l, _ in pd[1:]):
            nviol += ctx.violation("LLID sequence wrong (start must be 2, continuations 1)", case, observed=[l for l, _ in pd])
        if "frags" in r1["send"][i] and [h for _l, h in pd] != [h for _f, h in r1["send"][i]["frags"]]:
            nviol += ctx.violation("link layer altered the L2CAP fragments", case, observed=pd)
    for k, i in enumerate(ll_recv_idx):
        res, m = r3["recv_ll"][k], meta[i]
        case = {"op": "recv_ll", "pdus": ll_recv_in[i], "kind": m["kind"]}
        if "exc" in res:
            nviol += ctx.violation("link layer / reassembly raised " + res["exc"], case, observed=res)
            continue
        if "out" in r2["recv"][i] and res["out"] != r2["recv"][i]["out"]:
            nviol += ctx.violation("delivery through the link layer differs from delivery of the same fragments at the L2CAP boundary",
                                   case, expected=r2["recv"][i]["out"], observed=res["out"])

    for (ops, cid, sdu), res in zip(after_cases, r4["send_after"]):
        case = {"op": "send_after", "mtu_ops": ops, "cid": cid, "sdu": sdu.hex()}
        if "exc" in res:
            nviol += ctx.violation("segmentation raised " + res["exc"] + " after MTU updates", case, observed=res)
            continue
        rm = 23
        for il, m in ops:
            if not il:
                rm = m
        big = [len(h) // 2 for _f, h in res["frags"] if len(h) // 2 > rm + 4]
        if big:
            nviol += ctx.violation("link-layer payload exceeds the peer's MTU + 4 after a history of MTU updates", case,
                                   expected="<= %d" % (rm + 4), observed=big)
    for (mtu, cid, sdus, handle), res in zip(e2e_cases, r4["e2e"]):
        case = {"op": "e2e", "mtu": mtu, "cid": cid, "conn_handle": handle, "sdu_lengths": [len(s) for s in sdus],
                "sdus": [s.hex() if len(s) <= 600 else s[:40].hex() + "..(%d bytes)" % len(s) for s in sdus]}
        if "exc" in res:
            nviol += ctx.violation("end-to-end transfer raised " + res["exc"], case, observed=res)
            continue
        exp = [[cid, s.hex()] for s in sdus if s]
        if res["out"] != exp:
            nviol += ctx.violation("data PDUs handed as produced to the peer stack do not reassemble into the SDUs that were sent", case,
                                   expected=[[c, h[:40] + ".." if len(h) > 40 else h] for c, h in exp],
                                   observed=[[c, h[:40] + ".." if len(h) > 40 else h] for c, h in res["out"]])
        if any(z > mtu + 4 for z in res["sizes"]):
            nviol += ctx.violation("link-layer payload exceeds MTU+4 (end to end)", case, observed=res["sizes"])

    # ---- correspondence inside Coq -----------------------------------------
    pre = "From Whad Require Import Lib.Bytes C11.Model.\nOpen Scope N_scope."
    def frag_lit(frs):
        return clist([cpair(cbool(f), cbytes(d)) for f, d in frs])
    send_terms, send_idx = [], []
    for i, (mtu, cid, sdu) in enumerate(send_cases):
        res = r1["send"][i]
        if "frags" not in res:
            continue
        obs = [(f, bytes.fromhex(h)) for f, h in res["frags"]]
        send_terms.append("(%s, %d, %s, %s)" % (cnat(mtu), cid, cbytes(sdu), frag_lit(obs)))
        send_idx.append(i)
    recv_terms, recv_idx = [], []
    for i, frs in enumerate(recv_cases):
        res = r2["recv"][i]
        if "out" not in res:
            continue
        recv_terms.append("(%s, %s)" % (frag_lit(frs), clist([cpair(str(c), cbytes(bytes.fromhex(h))) for c, h in res["out"]])))
        recv_idx.append(i)
    ll_send_terms, ll_recv_terms = [], []
    for k, i in enumerate(ll_send_idx):
        if "pdus" in r3["send_ll"][k]:
            mtu, cid, sdu = send_cases[i]
            ll_send_terms.append("(%s, %d, %s, %s)" % (cnat(mtu), cid, cbytes(sdu),
                                 clist([cpair(str(l), cbytes(bytes.fromhex(h))) for l, h in r3["send_ll"][k]["pdus"]])))
    for k, i in enumerate(ll_recv_idx):
        if "out" in r3["recv_ll"][k]:
            ll_recv_terms.append("(%s, %s)" % (clist([cpair(str(l), cbytes(bytes.fromhex(h))) for l, h in ll_recv_in[i]]),
                                 clist([cpair(str(c), cbytes(bytes.fromhex(h))) for c, h in r3["recv_ll"][k]["out"]])))
    after_terms = []
    for (ops, cid, sdu), res in zip(after_cases, r4["send_after"]):
        if "frags" in res:
            after_terms.append("(%s, %d, %s, %s, %s)" % (
                clist([cpair(cbool(il), cnat(m)) for il, m in ops]), cid, cbytes(sdu),
                frag_lit([(f, bytes.fromhex(h)) for f, h in res["frags"]]), cnat(res["local_mtu"])))
    bad_a, logs_a = C.run_cases(PID, "after", pre, "list (bool * nat) * N * bytes * list frag * nat", after_terms, "check_send_after", shard=150)
    bad_ls, logs_ls = C.run_cases(PID, "sendll", pre, "nat * N * bytes * list llpdu", ll_send_terms, "check_send_ll", shard=150)
    bad_lr, logs_lr = C.run_cases(PID, "recvll", pre, "list llpdu * list (N * bytes)", ll_recv_terms, "check_recv_ll", shard=200)
    bad_s, logs_s = C.run_cases(PID, "send", pre, "nat * N * bytes * list frag", send_terms, "check_send", shard=150)
    bad_r, logs_r = C.run_cases(PID, "recv", pre, "list frag * list (N * bytes)", recv_terms, "check_recv", shard=200)
    ctx.notes += logs_s[:3] + logs_r[:3]
    ctx.log("correspondence: send %d cases %d bad; recv %d cases %d bad" % (len(send_terms), len(bad_s), len(recv_terms), len(bad_r)))

    # ---- coverage numbers ---------------------------------------------------
    multi = [1 for i in send_idx if len(r1["send"][i]["frags"]) > 1]
    ctx.cov["distinct_nontrivial"] = C.distinct_count(
        [["s", m, c, s.hex()] for (m, c, s), i in zip(send_cases, range(len(send_cases))) if "frags" in r1["send"][i] and len(r1["send"][i]["frags"]) > 1]
        + [["r", [[f, d.hex()] for f, d in frs]] for frs in recv_cases if len(frs) > 1])
    ctx.cov["rule"] = ("send cases: (mtu, channel, SDU) with SDU lengths on every chunking boundary; recv cases: the implementation's own fragments "
                       "after random garbage / with losses / several SDUs in a row, plus malformed streams. Non-trivial = SDU split in >= 2 fragments or stream of >= 2 fragments; distinct by content hash")
    ctx.cov["distribution"] = {"send_cases": len(send_cases), "send_multi_fragment": len(multi),
                               "recv_cases": len(recv_cases),
                               "recv_kinds": {k: sum(1 for m in meta if m["kind"] == k) for k in sorted({m["kind"] for m in meta})},
                               "max_sdu_len": max(len(s) for _, _, s in send_cases)}
    ctx.cov["samples"] = [{"send": [send_cases[5][0], send_cases[5][1], send_cases[5][2].hex()], "impl_frags": r1["send"][5]},
                          {"recv": [[f, d.hex()] for f, d in recv_cases[-1]], "impl_out": r2["recv"][-1]},
                          {"recv": [[f, d.hex()[:80]] for f, d in recv_cases[3]], "kind": meta[3]["kind"]}]
    ctx.cov["source_ties"] = ctx.cov.get("source_ties", []) + [C.source_tie("whad/ble/stack/l2cap/__init__.py", 65, 175),
                                                               C.source_tie("whad/ble/stack/llm/__init__.py", 528, 570)]

    # ---- verdict --------------------------------------------------------------
    ctx.log("correspondence (link layer): send %d cases %d bad; recv %d cases %d bad" % (len(ll_send_terms), len(bad_ls), len(ll_recv_terms), len(bad_lr)))
    # ---- search on the disagreeing cases: is one of them a failing input of the property? ----
    for b in bad_r[:50]:
        i = recv_idx[b]
        out = [(c, bytes.fromhex(h)) for c, h in r2["recv"][i]["out"]]
        if out != ref_recv(recv_cases[i], False) and out != ref_recv(recv_cases[i], True):
            ctx.violation("PDUs delivered for this fragment sequence are not those of any admissible reassembly "
                          "(a PDU was lost, altered, or bytes of different PDUs were mixed)",
                          {"op": "recv", "frags": [[f, d.hex()] for f, d in recv_cases[i]], "kind": meta[i]["kind"]},
                          expected=[[c, d.hex()] for c, d in ref_recv(recv_cases[i], False)], observed=r2["recv"][i]["out"])
            break
    if bad_s or bad_r or bad_ls or bad_lr or not proofs_ok or not gen["ok"]:
        if not ctx.violations:
            first = pyfun_util.first_case(gen) if not gen["ok"] else None
            if bad_s:
                i = send_idx[bad_s[0]]
                first = {"op": "send", "case": [send_cases[i][0], send_cases[i][1], send_cases[i][2].hex()], "impl": r1["send"][i]}
            elif bad_r:
                i = recv_idx[bad_r[0]]
                first = {"op": "recv", "frags": [[f, d.hex()] for f, d in recv_cases[i]], "impl": r2["recv"][i]}
            elif bad_a:
                first = {"op": "send_after", "term": after_terms[bad_a[0]][:3000]}
            elif bad_ls:
                first = {"op": "send_ll", "term": ll_send_terms[bad_ls[0]][:3000]}
            elif bad_lr:
                first = {"op": "recv_ll", "term": ll_recv_terms[bad_lr[0]][:3000]}
            what = ("correspondence C11.Model vs L2CAPLayer/LinkLayer (%d send, %d recv, %d ll-send, %d ll-recv disagreements)" % (len(bad_s), len(bad_r), len(bad_ls), len(bad_lr))
                    if (bad_s or bad_r or bad_ls or bad_lr or bad_a) else
                    ("proof obligations of theories/C11: " + detail.splitlines()[0][:200]) if not proofs_ok else str(gen["what"]))
            ctx.broken_obligation(what, (detail if not proofs_ok else "\n".join(logs_s + logs_r)) + gen["detail"], first)
    ctx.cov["correspondence"] = {"send_cases": len(send_terms), "send_bad": len(bad_s), "recv_cases": len(recv_terms), "recv_bad": len(bad_r),
                                 "ll_send_cases": len(ll_send_terms), "ll_send_bad": len(bad_ls), "ll_recv_cases": len(ll_recv_terms), "ll_recv_bad": len(bad_lr),
                                 "mtu_history_cases": len(after_terms), "mtu_history_bad": len(bad_a), "e2e_cases": len(e2e_cases)}


def replay(payload):
    case = payload.get("case") or payload.get("first_disagreeing_case")
    print(json.dumps(case)[:2000])
    if case and case.get("op") == "recv":
        r = C.run_impl("C11.py", {"send": [], "recv": [case["frags"]]})
        print("implementation now delivers:", r["recv"][0])
    elif case and case.get("op") == "send":
        c = case if "mtu" in case else {"mtu": case["case"][0], "cid": case["case"][1], "sdu": case["case"][2]}
        r = C.run_impl("C11.py", {"send": [[c["mtu"], c["cid"], c["sdu"]]], "recv": []})
        print("implementation now emits:", r["send"][0])
    return 0
