"""C01 — WHAD byte-stream framing (DevInThread.serialize / DevOutThread.ingest).
See DESIGN.md §2 C01 and design/C01.md.

Pipeline: (1) build + Print Assumptions of theories/C01; (2) real hub messages and their
frames from the real sender, streams of items (frames / marker-free gaps / undecodable,
zero-length and truncated frames / arbitrary bytes) under many chunkings, plus exhaustive
token sweeps; (3) the real DevOutThread.run loop (a Device whose read() replays the schedule, incl.
None / b'' reads) on every (stream, chunking)
(harness/impl/C01.py); (4) oracle = the property on the real code; (5) correspondence
model vs implementation evaluated inside Coq; (6) verdict.
"""
import json, os
from concurrent.futures import ThreadPoolExecutor
from harness import common as C
from harness.common import cbytes, cbool, clist, cnat, cpair, cN
from harness.props import pyfun_util

PID = "C01"
KEY_TRUNC = "truncated-frame-swallows-following-bytes"
AC, BE = 0xAC, 0xBE
PRE = "From Whad Require Import Lib.Bytes C01.Model.\nOpen Scope N_scope."

FACTORY_NAMES = [
    "generic.verbose", "generic.debug", "generic.success", "generic.error", "generic.progress",
    "discovery.reset", "discovery.ready", "discovery.info_query", "discovery.domain_resp",
    "discovery.set_speed", "discovery.info_resp", "ble.pdu", "ble.send_pdu", "ble.adv_mode",
    "ble.start", "ble.stop", "ble.disconnected", "phy.packet", "phy.send", "phy.sync_word",
    "phy.freq", "esb.pdu", "esb.send_pdu", "esb.start", "dot15d4.pdu", "dot15d4.send_pdu",
    "dot15d4.sniff", "unifying.start", "unifying.stop", "unifying.jam", "generic.verbose_factory",
    # every command-result class, and wrappers created directly / filled in after construction: the
    # sender frames them as FRESH objects (never serialized before)
    "generic.param_error", "generic.disconnected", "generic.wrong_mode", "generic.unsupported_domain",
    "generic.busy", "generic.cmd_result_code", "generic.Error()", "generic.Success()", "generic.Busy()",
    "generic.result_set_later", "generic.progress_set_later", "generic.verbose_set_later",
    "generic.debug_set_later", "ble.prepare_manual", "ble.prepare_connevt", "ble.prepare_pattern"]
PADDABLE = ["generic.verbose", "generic.debug", "ble.pdu", "ble.send_pdu", "phy.packet", "phy.send",
            "esb.pdu", "esb.send_pdu", "dot15d4.pdu", "dot15d4.send_pdu", "discovery.info_resp"]

# ---------------------------------------------------------------------------
# streams
# ---------------------------------------------------------------------------

def le16(n):
    return bytes([n & 0xff, (n >> 8) & 0xff])


def item_bytes(it):
    k = it[0]
    if k == "frame":
        return bytes.fromhex(it[1])
    if k in ("gap", "raw"):
        return bytes.fromhex(it[1])
    if k == "junk":
        p = bytes.fromhex(it[1])
        return bytes([AC, BE]) + le16(len(p)) + p
    if k == "zero":
        return bytes([AC, BE, 0, 0])
    if k == "trunc":
        return bytes.fromhex(it[1])[:it[2]]
    raise ValueError(k)


def layout(items):
    """stream bytes + per item (kind, start, end)"""
    s, lay = b"", []
    for it in items:
        b = item_bytes(it)
        lay.append((it[0], len(s), len(s) + len(b)))
        s += b
    return s, lay


def split(stream, ch):
    """mirror of Model.apply_chunking"""
    if ch[0] == "every":
        k = ch[1]
        return [stream[i:i + k] for i in range(0, len(stream), k)]
    out, s = [], stream
    for n in ch[1]:
        if n is None:                      # ("reads" schedules only) read() returned None
            out.append(None); continue
        out.append(s[:n]); s = s[n:]
    if s:
        out.append(s)
    return out


def hexs(chunks):
    return [None if c is None else c.hex() for c in chunks]


def with_empties(rng, sizes, mode):
    """a 'reads' schedule: the given chunk sizes with empty reads (None = select() timeout of the
    transports, 0 = b'') inserted -- mode 'each': one after every chunk, alternating; 'random'"""
    out = []
    if mode == "each":
        out.append(None)
        for i, n in enumerate(sizes):
            out.append(n)
            out.append(None if i % 2 == 0 else 0)
            if i % 5 == 4:
                out += [None, None, 0]
    else:
        for n in sizes:
            while rng.random() < 0.35:
                out.append(rng.choice([None, None, 0]))
            out.append(n)
        if rng.random() < 0.5:
            out.append(None)
    return ["reads", out]


def sanitize_gap(b):
    """remove every adjacent AC BE"""
    b = bytearray(b)
    for i in range(1, len(b)):
        if b[i - 1] == AC and b[i] == BE:
            b[i] = 0xBF
    return bytes(b)


def rand_gap(rng, lo=1, hi=12):
    n = rng.randrange(lo, hi + 1)
    b = bytes(rng.choice([AC, BE, AC, BE, 0, 1, 4, 5, 0xff, rng.randrange(256)]) for _ in range(n))
    b = sanitize_gap(b)
    r = rng.random()
    if r < 0.3:
        b = b + bytes([AC])                    # a gap ending in AC right before a frame
    elif r < 0.4:
        b = bytes([BE]) + b                    # lone BE first
    return sanitize_gap(b)


def rand_junk_payload(rng):
    r = rng.random()
    if r < 0.25:   # valid protobuf, no message type set / unknown field only
        return rng.choice([b"\x78\x01", b"\x0a\x00", b"\x12\x00", b"\x1a\x00", b"\x08\x01", b"\x22\x00",
                           b"\xf8\x01\x05", b"\x0a\x02\x0a\x00"])
    if r < 0.33:   # a real message in non-canonical encoding (hub re-serializes it differently)
        return rng.choice([b"\x12\x82\x00\x0a\x00", b"\x12\x03\x0a\x81\x00", b"\x0a\x82\x80\x00\x12\x00"])
    if r < 0.5:    # looks like a header
        return bytes([AC, BE, rng.randrange(5), 0]) + bytes(rng.randrange(256) for _ in range(rng.randrange(0, 6)))
    return bytes(rng.randrange(256) for _ in range(rng.randrange(1, 40)))


def ref_scan(s):
    """the wire format: (start, size) of every frame a receiver recognises, and the
    offset where it stays pending"""
    i, n, frames = 0, len(s), []
    while True:
        while n - i >= 2 and not (s[i] == AC and s[i + 1] == BE):
            i += 1
        if n - i <= 4:
            break
        sz = s[i + 2] | (s[i + 3] << 8)
        if n - i < sz + 4:
            break
        frames.append((i, sz)); i += sz + 4
    return frames, i


def desync_spans(stream, lay):
    """byte ranges in which the receiver is (by the wire format) inside a frame that no
    sender framed: windows opened by truncated frames, and their cascades"""
    real = {st: en for (k, st, en) in lay if k in ("frame", "junk", "zero")}
    frames, pend = ref_scan(stream)
    spans = [(i, i + sz + 4) for (i, sz) in frames if real.get(i) != i + sz + 4]
    n = len(stream)
    if n - pend >= 2 and stream[pend] == AC and stream[pend + 1] == BE:
        # pending on a marker: harmless only for a real zero-length frame at the very end
        if not (real.get(pend) == n and n - pend == 4):
            spans.append((pend, n))
    return spans


def overlaps(st, en, spans):
    return any(st < b and a < en for a, b in spans)


def is_subseq(a, b):
    it = iter(b)
    return all(x in it for x in a)


class Mirror:
    """Instrumented Python copy of the ingest loops, used ONLY to count which branches
    the generated cases reach (never for a verdict)."""
    BRANCHES = ["outer_exit_len_le_2", "break_len_le_4", "break_incomplete_frame", "frame_parse_msg",
                "frame_parse_none", "frame_parse_raise", "resync_entered", "inner_drop",
                "inner_stop_marker", "inner_stop_short", "several_frames_one_call", "empty_chunk", "read_none"]

    @staticmethod
    def run(chunks, table):
        hit, buf, out = set(), bytearray(), []
        for c in chunks:
            if c is None:
                hit.add("read_none"); continue
            if not c:
                hit.add("empty_chunk")
            buf += c
            nfr = 0
            while True:
                if not len(buf) > 2:
                    hit.add("outer_exit_len_le_2"); break
                if buf[0] == AC and buf[1] == BE:
                    if len(buf) > 4:
                        sz = buf[2] | (buf[3] << 8)
                        if len(buf) >= sz + 4:
                            raw = bytes(buf[4:4 + sz])
                            oc = table.get(raw.hex(), ["none"])
                            if oc[0] == "raise":
                                hit.add("frame_parse_raise"); return out, True, hit
                            if oc[0] == "none":
                                hit.add("frame_parse_none")
                            else:
                                hit.add("frame_parse_msg"); out.append(raw.hex() if oc[0] == "same" else oc[1])
                            nfr += 1
                            if nfr > 1:
                                hit.add("several_frames_one_call")
                            buf = buf[sz + 4:]
                        else:
                            hit.add("break_incomplete_frame"); break
                    else:
                        hit.add("break_len_le_4"); break
                else:
                    hit.add("resync_entered")
                    while True:
                        if not len(buf) >= 2:
                            hit.add("inner_stop_short"); break
                        if buf[0] != AC or buf[1] != BE:
                            buf = buf[1:]; hit.add("inner_drop")
                        else:
                            hit.add("inner_stop_marker"); break
        return out, False, hit


# ---------------------------------------------------------------------------
# generation
# ---------------------------------------------------------------------------

def message_specs(ctx):
    rng, specs = ctx.rng, []
    for name in FACTORY_NAMES:
        specs.append([name, rng.choice([0, 1, 3, 8]), rng.randrange(1 << 30), None])
    sizes = [0, 1, 2, 5, 20, 60, 127, 128, 250, 255, 256, 257, 300, 1000]
    for i in range(120 if ctx.thorough else 34):
        specs.append([rng.choice(PADDABLE), rng.choice(sizes), rng.randrange(1 << 30), None])
    # serialized sizes on the 16-bit boundaries
    big = [65535, 40000, 256, 255, 511, 512, 4096]
    if ctx.thorough:
        big += [65535, 65534, 65533, 65281, 65280, 65279, 32768, 32767, 50000, 16384, 1024, 768]
    nbig = len(specs)
    for t in big:
        specs.append([rng.choice(["generic.verbose", "ble.pdu", "phy.packet", "dot15d4.pdu", "esb.pdu"]), 0,
                      rng.randrange(1 << 30), t])
    return specs, nbig


def chunkings_for(rng, stream, lay, thorough):
    n = len(stream)
    chs = [["sizes", []]]                                  # whole
    if n <= 1:
        return chs + [["sizes", [0, n, 0]], ["reads", [None, n, None, 0]]]
    if n <= 1500:
        chs.append(["every", 1])
    chs.append(["every", rng.choice([2, 3, 5, 7])])
    # cuts inside every header: after 1, 2, 3 bytes of each framed item, and right after it
    cuts = set()
    for (k, st, en) in lay:
        if k in ("frame", "junk", "zero", "trunc"):
            for d in (1, 2, 3, 4, 5):
                if st + d < n:
                    cuts.add(st + d)
            cuts.add(en)
    def sizes_of(cutset):
        cs = sorted(c for c in cutset if 0 < c < n)
        return [b - a for a, b in zip([0] + cs, cs)]
    if cuts and len(cuts) <= 400:
        chs.append(["sizes", sizes_of(cuts)])
        # the same cuts (inside every header, inside payloads, between frames) with an empty read
        # (None / b'') after every chunk: DevOutThread.run must treat them as no-ops
        chs.append(with_empties(rng, sizes_of(cuts), "each"))
    # one item per chunk; and several items per chunk
    bounds = {en for (_k, _s, en) in lay}
    chs.append(["sizes", sizes_of(bounds)])
    if len(lay) > 2:
        chs.append(["sizes", sizes_of({en for i, (_k, _s, en) in enumerate(lay) if i % 2 == 1})])
    # random cut sets (with some empty reads)
    for _ in range(3 if thorough else 2):
        kc = rng.randrange(1, min(n, 12) + 1)
        cs = sorted(rng.randrange(0, n + 1) for _ in range(kc))
        sz = [b - a for a, b in zip([0] + cs, cs)]
        chs.append(["sizes", sz])
    chs.append(with_empties(rng, sz, "random"))
    # two-byte residues: cut one byte before / after each item start
    rs = set()
    for (_k, st, _en) in lay:
        rs.update({st - 1, st + 1, st + 2})
    chs.append(["sizes", sizes_of(rs)])
    # dedupe
    seen, out = set(), []
    for ch in chs:
        key = json.dumps(ch)
        if key not in seen:
            seen.add(key); out.append(ch)
    return out


def gen_streams(ctx, pool, bigpool):
    """-> list of dict(cls, items).  cls: clean | trunc | garbage"""
    rng, S = ctx.rng, []
    small = [m for m in pool if len(m["ser"]) // 2 <= 400]
    reset = next(m for m in pool if m["name"] == "discovery.reset")
    fr = lambda m: ["frame", m["frame"], m["ser"]]

    # -- fixed edge cases --------------------------------------------------
    R = fr(reset)
    fixed = [
        [R], [R, R, R], [["zero"]], [["zero"], R], [["zero"], ["zero"], R], [R, ["zero"]],
        [["gap", "ac"], R], [["gap", "acac"], R], [["gap", "be"], R], [["gap", "beac"], R],
        [["gap", "acbf"], R, ["gap", "ac"]], [["gap", "00"], R], [["gap", "0506"], R], [["gap", "050607"], R],
        [["gap", "ac"]], [["gap", "be"]], [["gap", "acac"]], [["gap", "0102"]], [["gap", "010203"]],
        [["junk", ""], R], [["junk", "7801"], R], [["junk", "0a00"], R], [["junk", "acbe0400"], R],
        [R, ["junk", "ff"], R], [R, ["gap", "be"], ["zero"], ["gap", "ac"], R],
        [["junk", "acbe"], ["gap", "ac"], R, ["gap", "beac"]],
        # a payload ending in AC followed by a gap starting with BE (+ what would be a length)
        [["junk", "ffac"], ["gap", "be0400"], R], [["junk", "ac"], ["gap", "be0000"], R, ["gap", "be"]],
        [R, ["gap", "000400"], R], [["junk", "05acbe"], ["gap", "0400"], R],
        [["junk", "1282000a00"], R], [["gap", "ac"], ["junk", "0a82800012" + "00"], ["gap", "be"]],
    ]
    for items in fixed:
        S.append({"cls": "clean", "items": items})
    S.append({"cls": "garbage", "items": [["raw", ""]]})
    S.append({"cls": "garbage", "items": [["raw", "acbe"]]})
    S.append({"cls": "garbage", "items": [["raw", "acbeacbeacbe"]]})
    S.append({"cls": "garbage", "items": [["raw", "acbeffff"]]})
    S.append({"cls": "garbage", "items": [["raw", "acbe0100acbe0100acbe0100ac"]]})

    # -- clean streams -------------------------------------------------------
    ends_ac = [m for m in small if m["ser"].endswith("ac")]
    def clean_items(nmax):
        items, prev_gap = [], False
        if rng.random() < 0.5:
            items.append(["gap", rand_gap(rng).hex()]); prev_gap = True
        for _ in range(rng.randrange(1, nmax + 1)):
            r = rng.random()
            if r < 0.55:
                items.append(fr(rng.choice(small))); prev_gap = False
            elif r < 0.62 and ends_ac:
                items.append(fr(rng.choice(ends_ac))); prev_gap = False
            elif r < 0.74:
                p = rand_junk_payload(rng)
                if rng.random() < 0.4:
                    # a real message damaged in transit (bit flip / cut / overwrite / insert)
                    p = bytearray.fromhex(rng.choice(small)["ser"])
                    k = rng.randrange(4)
                    if k == 0:
                        p[rng.randrange(len(p))] ^= 1 << rng.randrange(8)
                    elif k == 1:
                        p = p[:rng.randrange(len(p))]
                    elif k == 2:
                        p[rng.randrange(len(p))] = rng.randrange(256)
                    else:
                        i = rng.randrange(len(p)); p[i:i] = bytes([rng.randrange(256)])
                    p = bytes(p)
                elif rng.random() < 0.3:
                    p += bytes([AC])
                items.append(["junk", p.hex()]); prev_gap = False
            elif r < 0.80:
                items.append(["zero"]); prev_gap = False
            elif not prev_gap:
                last = item_bytes(items[-1]) if items else b""
                if last.endswith(bytes([AC])) and len(last) > 4:
                    # the previous payload ends in AC: a gap that starts with BE and what would be
                    # a small length must still be skipped as noise
                    g = bytes([BE, rng.choice([0, 1, 2, 4, 5, 8]), 0]) + (rand_gap(rng, 1, 3) if rng.random() < 0.4 else b"")
                    items.append(["gap", sanitize_gap(g).hex()])
                else:
                    items.append(["gap", rand_gap(rng).hex()])
                prev_gap = True
        if rng.random() < 0.4 and not prev_gap:
            items.append(["gap", rand_gap(rng, 1, 5).hex()])
        return items
    for _ in range(500 if ctx.thorough else 48):
        S.append({"cls": "clean", "items": clean_items(6)})
    # every pooled message at least once, framed between gaps
    for m in small:
        S.append({"cls": "clean", "items": [["gap", rand_gap(rng, 0, 4).hex()], fr(m), ["gap", rand_gap(rng, 0, 3).hex()]]})

    # -- truncated frames ------------------------------------------------------
    for j in range(300 if ctx.thorough else 30):
        m = rng.choice([x for x in small if len(x["ser"]) >= 4])
        flen = len(m["frame"]) // 2
        pre = clean_items(2) if rng.random() < 0.5 else []
        if pre and pre[-1][0] == "gap" and j % 3 == 2:
            pre.pop()
        post = [fr(rng.choice(small)) for _ in range(rng.randrange(1, 4))]
        if j % 3 == 0:
            # the missing bytes are supplied by marker-free filler; frames after it are protected
            k = rng.randrange(4, flen)
            missing = flen - k
            filler = sanitize_gap(bytes(rng.choice([0, 1, 0xff, AC, BE, 0x12]) for _ in range(missing + rng.randrange(0, 6))))
            if filler.endswith(bytes([AC])) is False and rng.random() < 0.3:
                filler += bytes([AC])
            items = pre + [["trunc", m["frame"], k], ["gap", filler.hex()]] + post
        elif j % 3 == 1:
            # truncated frame directly followed by frames: the window swallows them
            k = rng.randrange(2, flen)
            items = pre + [["trunc", m["frame"], k]] + post
        else:
            # truncated frame last: nothing after it may be lost, nothing delivered for it
            k = rng.randrange(2, flen)
            items = pre + post + [["trunc", m["frame"], k]]
        S.append({"cls": "trunc", "items": items})

    # -- arbitrary bytes (markers anywhere) ------------------------------------
    for _ in range(400 if ctx.thorough else 40):
        n = rng.randrange(0, 64)
        b = bytes(rng.choice([AC, BE, AC, BE, 0, 0, 1, 2, 4, 5, 0x12, 0x0a, rng.randrange(256)]) for _ in range(n))
        items = [["raw", b.hex()]]
        if rng.random() < 0.3:
            items.append(fr(rng.choice(small)))
        S.append({"cls": "garbage", "items": items})

    # -- big messages ------------------------------------------------------------
    sm = [m for m in small if len(m["ser"]) // 2 <= 40]
    for m in bigpool:
        if len(m["ser"]) // 2 >= 65000:
            # a near-maximum frame between small frames: pending bytes + chunk exceed 64 KiB while the
            # big frame is being completed, under 1-byte / 1024 / 4096-byte / whole-stream reads
            items = [fr(rng.choice(sm)), fr(m), fr(reset), fr(rng.choice(sm))]
            if rng.random() < 0.5:
                items = [["gap", rand_gap(rng).hex()]] + items
        else:
            items = [fr(m)]
            if rng.random() < 0.5:
                items = [["gap", rand_gap(rng).hex()]] + items + [fr(reset)]
        S.append({"cls": "clean", "items": items, "big": True})
    # one read() far above 64 KiB holding many complete frames
    def many(nframes, pick):
        items = []
        for i in range(nframes):
            items.append(fr(pick(i)))
            if i % 97 == 5:
                items.append(["gap", rand_gap(rng, 1, 4).hex()])
        return items
    mid = [m for m in small if 250 <= len(m["ser"]) // 2 <= 400] or small
    nmid = 72000 // (sum(len(m["frame"]) // 2 for m in mid) // len(mid)) + 1
    S.append({"cls": "clean", "items": many(nmid, lambda i: mid[i % len(mid)]), "big": True, "many": True})
    if ctx.thorough:
        S.append({"cls": "clean", "items": many(2500, lambda i: sm[i % len(sm)]), "big": True, "many": True})
        S.append({"cls": "clean", "items": many(1500, lambda i: small[(i * 7) % len(small)]), "big": True, "many": True})
    return S


def gen_pb_streams(ctx, pbm, pool):
    """Payloads that are valid protobuf of a known message kind with semantically odd field values
    (built by the driver from the descriptors: every domain, every kind; out-of-range enum numbers for
    every enum field, huge integers, empty / oversized bytes, empty sub-messages, unknown fields, empty
    kinds), each framed correctly and placed alone before a good frame or between good frames.
    Class 'clean': nothing may raise, what the hub makes of the payload (message or None) and every
    good frame must be delivered."""
    rng = ctx.rng
    small = [m for m in pool if len(m["ser"]) // 2 <= 64]
    fr = lambda m: ["frame", m["frame"], m["ser"]]
    R = fr(next(m for m in pool if m["name"] == "discovery.reset"))
    seen, uniq = set(), []
    for x in pbm:
        if x["payload"] not in seen and len(x["payload"]) // 2 < 65536:
            seen.add(x["payload"]); uniq.append(x)
    enum = [x for x in uniq if x["cls"] == "enum"]
    kind = [x for x in uniq if x["cls"] == "kind"]
    rest = [x for x in uniq if x["cls"] in ("value", "unknown")]
    if ctx.thorough:
        singles, packed = enum + kind, rest
    else:
        # quick: every enum field just above its range and at int32 max, alone; every kind; a sample of the rest
        singles = [x for x in enum if ("enum_max+1" in x["desc"] or "enum_int32max" in x["desc"]) and not x["desc"].endswith(":populated")]
        light = [x for x in rest if len(x["payload"]) <= 800]
        packed = kind + [x for x in enum if x not in singles] + rng.sample(light, min(120, len(light)))
    S = []
    two = [["sizes", []], ["every", 1], ["reads", [None, 2, None, 3, 0, 4, None]]]
    for x in singles:
        S.append({"cls": "clean", "items": [["junk", x["payload"]], R], "chunkings": two, "pb": x["desc"]})
    rng.shuffle(packed)
    for i in range(0, len(packed), 8):
        items = [fr(rng.choice(small))]
        for x in packed[i:i + 8]:
            items.append(["junk", x["payload"]])
            if rng.random() < 0.7:
                items.append(fr(rng.choice(small)))
        items.append(R)
        n = sum(len(item_bytes(it)) for it in items)
        S.append({"cls": "clean", "items": items, "pb": "pack",
                  "chunkings": [["sizes", []], ["every", rng.choice([1, 2, 3])] if n <= 4000 else ["every", 61],
                                ["sizes", sorted(rng.randrange(0, n + 1) for _ in range(4))[:1] + [rng.randrange(1, 9)]]]})
    # A damaged message (a fully populated message of some kind followed by a garbage byte: decoding
    # fails AFTER its fields were read) directly followed by a well-formed message of the SAME kind with
    # all fields at their defaults: nothing of the damaged one may show up in the next delivery.
    kinds = {}
    for x in uniq:
        d = x["desc"]
        if x["cls"] == "kind" and "." in d.split(":")[0]:
            kinds.setdefault(d.split(":")[0], {})[d.split(":")[1]] = x["payload"]
    pairs = [(k, v["baseline"], v["empty"]) for k, v in sorted(kinds.items()) if "baseline" in v and "empty" in v]
    for i in range(0, len(pairs), 6):
        items = []
        for _k, base, empty in pairs[i:i + 6]:
            items += [["junk", base + rng.choice(["ff", "0a", "ffffffffffffffffffffff"])], ["junk", empty]]
        items.append(R)
        S.append({"cls": "clean", "items": items, "pb": "damaged populated message then default-valued message of the same kind",
                  "chunkings": [["sizes", []], ["every", rng.choice([1, 2, 5])]]})
    classes = {"payloads_available": len(uniq), "payloads_used": len(singles) + len(packed), "damaged_then_default_pairs": len(pairs),
               "by_class_used": {c: sum(1 for x in singles + packed if x["cls"] == c) for c in ("enum", "kind", "value", "unknown")},
               "streams": len(S)}
    return S, classes


def gen_content_class_streams(ctx, pool):
    """Sequences of messages of ONE protobuf kind whose wrapper class depends on the content, on one
    hub, in every order: ble.prepare with manual / connection-event / pattern trigger; generic.cmd_result
    with every result code in a row.  Each stream in a forked child; compared by class and bytes."""
    import itertools
    fr = lambda m: ["frame", m["frame"], m["ser"]]
    S = []
    two = [["sizes", []], ["every", 3]]
    def add(ms, what):
        S.append({"cls": "clean", "items": [fr(m) for m in ms], "chunkings": two, "isolated": True, "v": None, "pb": what})
    prep = [next((m for m in pool if m["name"] == n), None) for n in ("ble.prepare_manual", "ble.prepare_connevt", "ble.prepare_pattern")]
    if all(prep):
        for perm in itertools.permutations(prep):
            add(list(perm) + [perm[0]], "ble.prepare triggers in the order " + ", ".join(m["name"].split("_")[-1] for m in perm))
    results = {}
    for m in pool:
        if m["name"].startswith("generic.") and m["rt"][-1].startswith("whad.hub.generic.cmdresult."):
            results.setdefault(m["rt"][-1], m)
    rs = [results[k] for k in sorted(results)]
    if len(rs) > 1:
        add(rs, "every generic.cmd_result class in a row")
        add(rs[::-1] + rs[:2], "every generic.cmd_result class in a row, reversed")
        ctx.rng.shuffle(rs)
        add(rs + rs, "every generic.cmd_result class, shuffled, twice")
    return S


def gen_collision_streams(ctx, pbm):
    """Message kinds that carry the SAME name in several domains (start, stop, pdu, raw_pdu, send,
    send_raw, sniff, jam, jammed, set_node_addr), mixed on one hub in every order, for a hub of the
    last protocol version and of version 1; each stream replayed in a forked child (fresh process
    state).  Class 'clean': every frame must come out as the class and bytes a hub that has seen
    nothing else makes of it."""
    rng = ctx.rng
    by = {}
    for x in pbm:
        d = x["desc"]
        if x["cls"] == "kind" and (d.endswith(":empty") or d.endswith(":baseline")) and "." in d:
            dom, kind = d.split(":")[0].split(".", 1)
            by.setdefault(kind, {}).setdefault(dom, []).append(x["payload"])
    S = []
    two = [["sizes", []], ["every", 1]]
    def add(seq, v, name):
        S.append({"cls": "clean", "items": [["junk", p] for p in seq], "chunkings": two, "v": v, "isolated": True,
                  "pb": "same-named '%s' of %d domains, hub version %s" % (name, len(seq), v or "last")})
    for kind, doms in sorted(by.items()):
        if len(doms) < 2:
            continue
        names = sorted(doms)
        pick = lambda d: doms[d][-1]               # the populated (baseline) payload
        order = names[:]; rng.shuffle(order)
        add([pick(d) for d in order], None, kind)
        add([pick(d) for d in reversed(order)], None, kind)
        add([doms[d][0] for d in order], 1, kind)
        if ctx.thorough:
            for v in (None, 1):
                for a in names:
                    for b in names:
                        if a != b:
                            add([pick(a), pick(b), pick(a)], v, kind)
    return S


# ---------------------------------------------------------------------------
# Coq literals
# ---------------------------------------------------------------------------

def tout_lit(oc):
    return {"same": "TSame", "none": "TNone", "raise": "TRaise"}.get(oc[0]) or "(TMsg %s)" % cbytes(bytes.fromhex(oc[1]))


def table_lit(table):
    return clist(["(%s, %s)" % (cbytes(bytes.fromhex(p)), tout_lit(oc)) for p, oc in table])


def bref_lit(stream, b):
    """a byte string, as a slice of the stream when it is long and occurs there"""
    if len(b) >= 24:
        i = stream.find(b)
        if i >= 0:
            return "(Slice %d %d)" % (i, len(b))
    return "(Lit %s)" % cbytes(b)


def rtable_lit(stream, table):
    def o(oc):
        return {"same": "RSame", "none": "RNone", "raise": "RRaise"}.get(oc[0]) or "(RMsg %s)" % bref_lit(stream, bytes.fromhex(oc[1]))
    return clist(["(%s, %s)" % (bref_lit(stream, bytes.fromhex(p)), o(oc)) for p, oc in table])


def chunking_lit(ch):
    if ch[0] == "every":
        return "(Every %d)" % ch[1]
    if ch[0] == "reads":
        return "(Reads %s)" % clist(["None" if x is None else "(Some %d)" % x for x in ch[1]])
    return "(Sizes %s)" % clist([cN(x) for x in ch[1]])


def outs_lit(outs):
    return clist([cbytes(bytes.fromhex(h)) for h in outs])


# ---------------------------------------------------------------------------
# sweeps
# ---------------------------------------------------------------------------

SWEEPS = {
    # byte alphabet of DESIGN.md: marker bytes, zero, two small lengths
    "bytes": ["ac", "be", "00", "01", "05"],
    # token alphabet: marker bytes, zero, length 4, and the 4-byte reset-query message
    "tokens": ["ac", "be", "00", "04", "12020a00"],
}


def sweep_maxlen(ctx, name):
    if not ctx.thorough:
        return 6
    return 8 if name == "bytes" else 7


def sweep_jobs(ctx):
    jobs = []
    for name, toks in SWEEPS.items():
        maxlen = sweep_maxlen(ctx, name)
        if ctx.thorough:
            for f in range(len(toks)):
                jobs.append((name, {"tokens": toks, "minlen": 1, "maxlen": maxlen - 1, "first": [f]}))
                for g in range(len(toks)):
                    jobs.append((name, {"tokens": toks, "minlen": maxlen, "maxlen": maxlen, "first": [f], "second": [g]}))
        else:
            jobs.append((name, {"tokens": toks, "minlen": 1, "maxlen": maxlen}))
    return jobs


def sweep_terms(name, toks, maxlen, obs, table):
    """Coq cases for Model.check_sweep, sharded by prefix; returns (terms, meta)"""
    k = len(toks)
    tl = table_lit(table)
    al = clist([cbytes(bytes.fromhex(t)) for t in toks])
    by_shard = {}
    for seq, out, exc in obs:
        L = len(seq)
        p = max(0, L - 5)
        rank = 0
        for x in seq[p:]:
            rank = rank * k + x
        by_shard.setdefault((L, tuple(seq[:p])), []).append((rank, out, exc))
    terms, meta = [], []
    def prefixes(p):
        if p == 0:
            return [()]
        return [q + (i,) for q in prefixes(p - 1) for i in range(k)]
    for L in range(1, maxlen + 1):
        p = max(0, L - 5)
        for pre in prefixes(p):
            sp = sorted(by_shard.get((L, pre), []))
            spl = clist(["(%d, (%s, %s))" % (r, outs_lit(o), cbool(e is not None)) for r, o, e in sp])
            prel = clist([cbytes(bytes.fromhex(toks[i])) for i in pre])
            terms.append("(%s, %s, %s, %s, %s)" % (tl, al, prel, cnat(L - p), spl))
            meta.append({"sweep": name, "length": L, "prefix": list(pre), "tokens": toks})
    return terms, meta


# ---------------------------------------------------------------------------
# run
# ---------------------------------------------------------------------------

def expected_of(oc, payload_hex):
    if oc[0] == "same":
        return payload_hex
    if oc[0] == "msg":
        return oc[1]
    return None


def ingest_shape_obligation():
    """The translator tie (C01_pyfun) selects the tests and slices INSIDE the loops of
    DevOutThread.ingest.  This obligation covers the rest of the body, fail-closed: apart from the
    docstring and logging calls, the top-level statements must be exactly
        self.__data.extend(<the parameter>)      (modelled as buf ++ chunk)
        while ...:                                (the outer loop, modelled by ingest_loop)
    in this order; anything else that could touch the buffer before, between or after them
    (e.g. a size cap deleting bytes before the loop) is not what Model.ingest transcribes."""
    import ast
    path = os.path.join(C.REPO, "whad/device/device.py")
    try:
        tree = ast.parse(open(path).read())
    except (OSError, SyntaxError) as e:
        return False, "cannot read/parse whad/device/device.py: %s" % e
    fn = None
    for node in ast.walk(tree):
        if isinstance(node, ast.ClassDef) and node.name == "DevOutThread":
            for f in node.body:
                if isinstance(f, ast.FunctionDef) and f.name == "ingest":
                    fn = f
    if fn is None:
        return False, "DevOutThread.ingest not found"
    params = [a.arg for a in fn.args.args[1:]]
    def is_doc(st):
        return isinstance(st, ast.Expr) and isinstance(st.value, ast.Constant) and isinstance(st.value.value, str)
    def is_log(st):
        return (isinstance(st, ast.Expr) and isinstance(st.value, ast.Call) and isinstance(st.value.func, ast.Attribute)
                and isinstance(st.value.func.value, ast.Name) and st.value.func.value.id in ("logger", "logging"))
    def is_extend(st):
        if not (isinstance(st, ast.Expr) and isinstance(st.value, ast.Call)):
            return False
        c = st.value
        return (isinstance(c.func, ast.Attribute) and c.func.attr == "extend" and isinstance(c.func.value, ast.Attribute)
                and isinstance(c.func.value.value, ast.Name) and c.func.value.value.id == "self"
                and c.func.value.attr.endswith("__data") and len(c.args) == 1 and not c.keywords
                and isinstance(c.args[0], ast.Name) and c.args[0].id in params)
    def is_plain_return(st):
        return isinstance(st, ast.Return) and (st.value is None or (isinstance(st.value, ast.Constant) and st.value.value is None))
    shape = []
    for st in fn.body:
        if is_doc(st) or is_log(st):
            continue
        if is_extend(st):
            shape.append("extend")
        elif isinstance(st, ast.While):
            shape.append("while")
        elif is_plain_return(st) and shape == ["extend", "while"]:
            continue
        else:
            return False, ("DevOutThread.ingest line %d: a top-level statement that is neither the buffer extend, the outer loop nor "
                           "logging (%s) - not part of what Model.ingest transcribes" % (st.lineno, type(st).__name__))
    if shape != ["extend", "while"]:
        return False, "DevOutThread.ingest top-level shape is %r, expected ['extend', 'while']" % shape
    return True, "ingest = extend; while"


def run(ctx):
    C.build_dir(PID, clean=True)
    ctx.cov["trusted_base"] = [
        "Coq 8.16.1 kernel + vm_compute (no native_compute); theorems closed under the global context (Print Assumptions checked each run)",
        "hand-written model coq/theories/C01/Model.v (ingest_loop/resync/frame) tied to whad/device/device.py by the correspondence of this run",
        "ProtocolHub.parse is a universally quantified Section variable (payload -> PMsg id | PNone | PRaise): no hypothesis about it except 'never PRaise' in C01_ingest_total / C01_ingest_skip_undecodable (that is C02; held on every payload parsed in this run)",
        "bytes of a bytearray are < 256 (data[2] | data[3] << 8 modelled as lo + 256*hi; C01_size_bitops proves the equality for lo < 256)",
        "transports' read() return the byte stream in order, in arbitrary chunks (uart/unix/tcp read() are not modelled)",
    ]
    ctx.assumptions = ["serialized message size < 65536 (the header carries 16 bits)",
                       "gaps between frames contain no adjacent AC BE (a gap may end in AC / start with BE)",
                       "parse never raises (needed only for totality; C02, repaired by 808478d)"]
    proofs_ok, detail = ctx.check_proofs(lib_targets=["theories/Lib/Bytes.vo"])
    # C01 composed with C02's hub model (theories/C01/E2E.v, PropertyE2E.v): the receive path
    # end to end, for every schema passing wf_schema and every protobuf codec.
    ok2, detail2 = ctx.check_proofs(property_file="PropertyE2E.v")
    if not ok2:
        proofs_ok, detail = False, (detail if not proofs_ok else "") + "\nPropertyE2E: " + detail2
    # the arithmetic of serialize / ingest regenerated from the source and proved equal to the model
    # (harness/translators/pyfun.py, theories/C01/{Gen,GenEq,PropertyGen}.v, design/PYTRANS.md)
    gen = pyfun_util.check_generated(ctx, PID)
    if not gen["ok"]:
        proofs_ok, detail = False, (detail if not proofs_ok else str(gen["what"])) + gen["detail"]
    shape_ok, shape_detail = ingest_shape_obligation()
    ctx.cov["obligations"] += 1
    ctx.cov["discharged"] += 1 if shape_ok else 0
    ctx.cov.setdefault("theorems", {})["ingest_body_shape (structural, fail-closed)"] = "ok: " + shape_detail if shape_ok else shape_detail
    if not shape_ok:
        proofs_ok, detail = False, ("translator tie, whole-body obligation: " + shape_detail + ("\n" + detail if not proofs_ok else ""))
    ctx.log("proofs:", proofs_ok, detail.splitlines()[0][:200])

    # ---- real messages from the real hub and sender ---------------------------
    specs, nbig = message_specs(ctx)
    # one sender framing a sequence: everything once, then (after the >= 256-byte and 64 KiB messages)
    # short messages again
    seq = list(range(len(specs))) + list(range(0, min(len(specs), 12))) + [len(specs) - 1, 0, 5]
    r1 = C.run_impl("C01.py", {"messages": specs, "pbmut": True, "sender_seq": seq})
    msgs = []
    excluded = []
    for sp, m in zip(specs, r1["messages"]):
        if "exc" in m:
            excluded.append([sp[0], m["exc"]]); continue
        m["spec"] = sp
        msgs.append(m)
    # a message is usable as a 'sent message' when the hub parses its own serialization back
    # to it (round trip is C02's business; e.g. create_verbose() yields an empty message)
    usable = [m for m in msgs if m["rt"][0] == "same" and 0 < len(m["ser"]) // 2 < 65536]
    for m in msgs:
        if m not in usable:
            excluded.append([m["name"], "serializes to %d bytes, parse round trip %s" % (len(m["ser"]) // 2, m["rt"][0])])
    pool = [m for m in usable if m["spec"][3] is None or len(m["ser"]) // 2 <= 4096]
    bigpool = [m for m in usable if m["spec"][3] is not None and len(m["ser"]) // 2 > 4096]
    empty_msgs = [m for m in msgs if len(m["ser"]) == 0]
    ctx.log("messages: %d built, %d usable (%d big), excluded %s" % (len(msgs), len(usable), len(bigpool), excluded[:4]))

    # ---- streams ------------------------------------------------------------------
    streams = []
    cdir = os.path.join(C.VERIF, "corpus", PID)
    for fn in sorted(os.listdir(cdir)) if os.path.isdir(cdir) else []:
        w = json.load(open(os.path.join(cdir, fn)))
        streams.append({"cls": w.get("cls", "trunc"), "items": w["items"], "corpus": fn, "chunkings": w.get("chunkings")})
    streams += gen_streams(ctx, pool, bigpool)
    pb_streams, pb_classes = gen_pb_streams(ctx, r1.get("pbmut", []), pool)
    streams += pb_streams
    coll = gen_collision_streams(ctx, r1.get("pbmut", [])) + gen_content_class_streams(ctx, pool)
    pb_classes["same_name_streams"] = len(coll)
    streams += coll
    for m in empty_msgs[:2]:
        # what the real sender writes for a message that serializes to nothing: a zero-length frame
        if m["frame"] == "acbe0000":
            R = next(x for x in pool if x["name"] == "discovery.reset")
            streams.append({"cls": "clean", "items": [["junk", ""], ["frame", R["frame"], R["ser"]]]})
    for st in streams:
        st["stream"], st["lay"] = layout(st["items"])
        if st.get("chunkings"):
            st["chs"] = st["chunkings"]
        elif st.get("big"):
            n = len(st["stream"])
            if st.get("many"):
                # the whole stream in ONE read (> 64 KiB), a 70000-byte read then the rest, ordinary reads
                st["chs"] = [["sizes", []], ["sizes", [70000]], ["every", 4096]]
                if ctx.thorough:
                    st["chs"] += [["every", 1024], ["sizes", [1, n - 2]], ["every", 1]]
            else:
                st["chs"] = [["every", 4096]]
                if n > 65539:
                    st["chs"] += [["sizes", []], ["every", 1024], ["every", 1]]
                st["chs"].append(["reads", [None, 3, 0, 2, None, 1000, None, 0, n - 2000, None]])
                if ctx.thorough:
                    st["chs"] += [["sizes", []], ["every", 65535], ["sizes", [1, 1, 1, 1, 1, n - 10]],
                                  ["sizes", sorted([ctx.rng.randrange(1, 3000), 2, 1, ctx.rng.randrange(1, 60000)])]]
                seen_ch, uniq_ch = set(), []
                for ch in st["chs"]:
                    if json.dumps(ch) not in seen_ch:
                        seen_ch.add(json.dumps(ch)); uniq_ch.append(ch)
                st["chs"] = uniq_ch
        else:
            st["chs"] = chunkings_for(ctx.rng, st["stream"], st["lay"], ctx.thorough)

    # standalone parse outcome of every junk payload (a random payload may happen to be a message)
    want = {}
    for st in streams:
        for it in st["items"]:
            if it[0] == "junk":
                want[(it[1], st.get("v"))] = None
            if it[0] == "zero":
                want[("", st.get("v"))] = None
    wl = sorted(want, key=lambda k: (k[0], k[1] or 0))
    flat, owner = [], []
    for si, st in enumerate(streams):
        for ci, ch in enumerate(st["chs"]):
            chunks = hexs(split(st["stream"], ch))
            flat.append({"chunks": chunks, "v": st.get("v"), "isolated": True} if st.get("isolated") else chunks)
            owner.append((si, ci))

    jobs = sweep_jobs(ctx)
    with ThreadPoolExecutor(max_workers=12) as ex:
        fut_cases = ex.submit(C.run_impl, "C01.py", {"cases": flat, "parse": [[h, v] for h, v in wl]})
        fut_sweeps = [(name, spec, ex.submit(C.run_impl, "C01.py", {"sweep": spec})) for name, spec in jobs]
        r2 = fut_cases.result()
        sweep_res = [(name, spec, f.result()["sweep"]) for name, spec, f in fut_sweeps]
    for k, oc in zip(wl, r2["parse"]):
        want[k] = oc
    # the class a hub that has seen nothing else gives to each sent message (round trip in a forked child)
    cls_of_ser = {m["ser"]: m["rt"][-1] for m in usable}
    for st in streams:
        st["res"] = [None] * len(st["chs"])
    for (si, ci), res in zip(owner, r2["cases"]):
        streams[si]["res"][ci] = res
    ctx.log("implementation: %d streams, %d (stream, chunking) runs; sweeps: %d streams, %d runs"
            % (len(streams), len(flat), sum(s["n"] for _n, _s, s in sweep_res), sum(s["runs"] for _n, _s, s in sweep_res)))

    # ---- oracle: the property on the real code ---------------------------------------
    budget = {}
    def report(what, case, **kw):
        key = kw.get("key")
        if key is None:
            budget[what] = budget.get(what, 0) + 1
            if budget[what] > 3:
                return
        ctx.violation(what, case, **kw)

    for m in msgs:
        ser, frm = bytes.fromhex(m["ser"]), bytes.fromhex(m["frame"])
        if len(ser) < 65536 and frm != bytes([AC, BE]) + le16(len(ser)) + ser:
            report("DevInThread.serialize did not produce AC BE <len LE16> <serialized message>",
                   {"op": "serialize", "name": m["name"], "ser": m["ser"][:4096], "frame": m["frame"][:4096]},
                   expected=(bytes([AC, BE]) + le16(len(ser))).hex() + " + message", observed=m["frame"][:64])
    for pos, m in enumerate(r1.get("sender_seq", [])):
        if "exc" in m:
            continue
        ser, frm = bytes.fromhex(m["ser"]), bytes.fromhex(m["frame"])
        if len(ser) < 65536 and frm != bytes([AC, BE]) + le16(len(ser)) + ser:
            prev = r1["sender_seq"][pos - 1] if pos else None
            report("DevInThread.serialize, framing a sequence of messages, did not produce AC BE <len LE16> <serialized message>",
                   {"op": "serialize-sequence", "position": pos, "name": m["name"], "ser": m["ser"][:4096], "frame": m["frame"][:4096],
                    "previous_message": prev and {"name": prev["name"], "serialized_size": len(prev.get("ser", "")) // 2}},
                   expected=(bytes([AC, BE]) + le16(len(ser))).hex() + " + message", observed=m["frame"][:64])
    for name, spec, sw in sweep_res:
        for dv in sw["deviations"][:2]:
            report("delivered messages depend on how the transport chunks the stream (sweep %s)" % name,
                   {"items": [["raw", "".join(dv["tokens"])]], "chunks": dv["chunks"], "cls": "garbage"},
                   expected=dv["whole"], observed=dv["chunked"])
        for seq, out, exc in sw["obs"]:
            if exc:
                toks = spec["tokens"]
                report(("DevOutThread.ingest did not return (reception stops)" if exc == "IngestHang" else
                        "an exception escaped DevOutThread.ingest (the reader thread dies): " + exc),
                       {"items": [["raw", "".join(toks[i] for i in seq)]], "chunking": ["sizes", []], "cls": "garbage"},
                       expected="ingest returns without raising", observed=exc)

    order = sorted(range(len(streams)), key=lambda i: (streams[i].get("corpus") is None, len(streams[i]["stream"])))
    n_finding_cases = 0
    for si in order:
        st = streams[si]
        s, lay, items = st["stream"], st["lay"], st["items"]
        # what was sent: (start, end, message) of every framed item that IS a message
        sent = []
        for it, (k, a, b) in zip(items, lay):
            if k == "frame":
                sent.append((a, b, it[2], cls_of_ser.get(it[2])))
            elif k == "junk":
                oc = want[(it[1], st.get("v"))]
                e = expected_of(oc, it[1])
                if e is not None:
                    sent.append((a, b, e, oc[-1]))
        spans = desync_spans(s, lay) if st["cls"] == "trunc" else []
        protected = [m for (a, b, m, _c) in sent if not overlaps(a, b, spans)]
        allsent = [m for (_a, _b, m, _c) in sent]
        allcls = [c for (_a, _b, _m, c) in sent]
        ref = next((r for r in st["res"] if not r.get("skipped")), None)
        for ch, res in zip(st["chs"], st["res"]):
            if res.get("skipped"):
                continue
            case = {"items": items, "chunking": ch, "cls": st["cls"], "stream": s.hex() if len(s) <= 4096 else "(%d bytes)" % len(s)}
            out = res["out"]
            if res["exc"] == "IngestHang":
                report("DevOutThread.ingest did not return (reception stops)", case, expected="ingest returns", observed="no return within 10 s")
                continue
            if res["exc"]:
                case["hub_parse_raised_on_payload"] = [p for p, oc in res["table"] if oc[0] == "raise"][:2]
                if st.get("pb"):
                    case["payload_kind"] = st["pb"]
                report("an exception escaped DevOutThread.ingest (the reader thread dies): " + res["exc"], case,
                       expected="no exception", observed=res["exc"])
                continue
            if st.get("pb"):
                case["payload_kind"] = st["pb"]
            if st.get("v") or st.get("isolated"):
                case["hub_version"], case["isolated"] = st.get("v"), bool(st.get("isolated"))
            if (out != ref["out"] or res.get("cls") != ref.get("cls")) and not ref["exc"]:
                report("delivered messages depend on how the transport chunks the stream", case,
                       expected=[ref["out"][:8], (ref.get("cls") or [])[:8]], observed=[out[:8], (res.get("cls") or [])[:8]])
                continue
            if st["cls"] == "clean":
                if out != allsent:
                    report("delivered messages differ from the messages framed and written (marker-free gaps only)", case,
                           expected=[h[:80] for h in allsent[:8]], observed=[h[:80] for h in out[:8]])
                elif any(e is not None and e != g for e, g in zip(allcls, res.get("cls") or allcls)):
                    bad = [(e, g) for e, g in zip(allcls, res["cls"]) if e is not None and e != g]
                    report("a delivered message has the bytes that were sent but is an object of another message class", case,
                           expected=[e for e, _g in bad[:4]], observed=[g for _e, g in bad[:4]])
            elif st["cls"] == "trunc":
                nbogus = len(spans)
                if not is_subseq(protected, out) or len(out) > len(allsent) + nbogus:
                    report("a frame lying wholly outside every truncated frame's window (after a marker-free gap) was lost, altered or duplicated",
                           case, expected=[h[:80] for h in protected[:8]], observed=[h[:80] for h in out[:8]])
                elif not is_subseq(allsent, out):
                    n_finding_cases += 1
                    ctx.violation("a truncated frame swallowed the well-formed frame(s) that followed it", case, key=KEY_TRUNC,
                                  expected=[h[:80] for h in allsent[:8]], observed=[h[:80] for h in out[:8]])
    # ---- correspondence inside Coq ------------------------------------------------------
    fmsgs = [m for m in msgs if len(m["ser"]) // 2 < 65536]
    frame_terms = ["(%s, %s)" % (cbytes(bytes.fromhex(m["ser"])), cbytes(bytes.fromhex(m["frame"])))
                   for m in fmsgs if len(m["ser"]) <= 4000]
    long_terms = [cbytes(bytes.fromhex(m["frame"])) for m in fmsgs if len(m["ser"]) > 4000]
    stream_terms, stream_idx = [], []
    cov_hits = {b: 0 for b in Mirror.BRANCHES}
    mirror_bad = 0
    nontrivial = []
    coq_skipped = [0]
    for si, st in enumerate(streams):
        groups = {}
        table = {}
        for ch, res in zip(st["chs"], st["res"]):
            if res.get("skipped") or res["exc"] == "IngestHang":
                continue
            for p, oc in res["table"]:
                table[p] = oc
            if (ch[0] == "every" and len(st["stream"]) // ch[1] > 3000) or \
               (len(st["stream"]) > 20000 and (st.get("many") or not ctx.thorough)
                and sum(len(g) for g in groups.values()) >= (2 if ctx.thorough or not st.get("many") else 1)):
                # e.g. 1-byte reads of a 64 KiB stream: run on the implementation (oracle), not re-run in Coq
                # where each ingest call costs the buffer length; C01_chunking_invariant covers it
                coq_skipped[0] += 1
                continue
            groups.setdefault(json.dumps([res["out"], res["exc"]]), []).append(ch)
        for ch, res in zip(st["chs"], st["res"]):
            if res.get("skipped") or res["exc"] == "IngestHang":
                continue
            if len(st["stream"]) <= 20000 or ch[0] == "sizes":
                mo, md, hit = Mirror.run(split(st["stream"], ch), table)
                if mo != res["out"] or md != bool(res["exc"]):
                    mirror_bad += 1
                for b in hit:
                    cov_hits[b] += 1
                if hit - {"outer_exit_len_le_2"}:
                    nontrivial.append([st["stream"].hex(), ch])
        tl = rtable_lit(st["stream"], sorted(table.items()))
        for key, chs in groups.items():
            out, exc = json.loads(key)
            stream_terms.append("(%s, %s, %s, %s, %s)" % (tl, cbytes(st["stream"]), clist([chunking_lit(c) for c in chs]),
                                                         clist([bref_lit(st["stream"], bytes.fromhex(h)) for h in out]),
                                                         cbool(exc is not None)))
            stream_idx.append((si, chs))
    ctx.log("coq cases written: %d frame, %d stream" % (len(frame_terms), len(stream_terms)))
    # the three groups are evaluated concurrently (the two 65535-byte literals dominate the wall time)
    with ThreadPoolExecutor(max_workers=3) as ex:
        fut_f = ex.submit(C.run_cases, PID, "frame", PRE, "payload * bytes", frame_terms, "check_frame", shard=40)
        fut_l = ex.submit(C.run_cases, PID, "framelong", PRE, "bytes", long_terms, "check_frame_long", shard=4, max_chars=250000)
        fut_s = ex.submit(C.run_cases, PID, "stream", PRE, "list (bref * rtout) * bytes * list chunking * list bref * bool",
                          stream_terms, "check_stream", shard=60 if ctx.thorough else 25, max_chars=300000)
        bad_f, logs_f = fut_f.result()
        bad_l, logs_l = fut_l.result()
        bad_s, logs_s = fut_s.result()
    bad_f = bad_f + [len(frame_terms) + i for i in bad_l]
    frame_terms = frame_terms + long_terms
    fmsgs = [m for m in fmsgs if len(m["ser"]) <= 4000] + [m for m in fmsgs if len(m["ser"]) > 4000]
    ctx.log("coq: frame+stream correspondence evaluated")
    sweep_bad, sweep_logs, sweep_cases, sweep_first = [], [], 0, None
    sweeps_aborted = any(sw.get("aborted") for _n, _s, sw in sweep_res)
    if sweeps_aborted:
        ctx.notes.append("sweeps aborted by the driver after repeated ingest hangs: sweep correspondence skipped")
    for name, toks in ([] if sweeps_aborted else SWEEPS.items()):
        obs, table = [], {}
        for n2, spec, sw in sweep_res:
            if n2 == name:
                obs += sw["obs"]
                table.update({p: oc for p, oc in sw["table"]})
        terms, meta = sweep_terms(name, toks, sweep_maxlen(ctx, name), obs, sorted(table.items()))
        bad, logs = C.run_cases(PID, "sweep_" + name, PRE,
                                "table * list bytes * list bytes * nat * list (N * (list msgid * bool))",
                                terms, "check_sweep", shard=max(1, len(terms) // 32 + 1))
        sweep_cases += len(terms)
        sweep_logs += logs[:2]
        for b in bad:
            sweep_bad.append(meta[b])
            if sweep_first is None:
                r = C.coq_eval(PID, "sweep_first_bad", PRE, ["sweep_first_bad %s" % terms[b]])[0]
                sweep_first = dict(meta[b], first_bad_rank=r)
    ctx.notes += logs_f[:2] + logs_s[:3] + sweep_logs
    ctx.log("correspondence: frames %d/%d bad; streams %d cases %d bad; sweep shards %d, %d bad; coverage-mirror disagreements %d"
            % (len(bad_f), len(frame_terms), len(stream_terms), len(bad_s), sweep_cases, len(sweep_bad), mirror_bad))

    # ---- evidence -----------------------------------------------------------------------
    sweep_streams = sum(s["n"] for _n, _s, s in sweep_res)
    sweep_runs = sum(s["runs"] for _n, _s, s in sweep_res)
    ctx.cov["evaluations"] = len(flat) + sweep_runs + len(frame_terms)
    ctx.cov["traces_validated_against_impl"] = len(flat) + sweep_runs + len(frame_terms)
    ctx.cov["distinct_nontrivial"] = C.distinct_count(nontrivial) + sum(len(s["obs"]) for _n, _s, s in sweep_res)
    ctx.cov["rule"] = ("a case = (stream, schedule of read() results incl. None / b'' reads) replayed by a Device.read() into the real DevOutThread.run loop; streams are built from real hub messages framed by the real "
                       "DevInThread.serialize, marker-free gaps, undecodable / zero-length / truncated frames and arbitrary bytes; "
                       "non-trivial = reaches a branch of the loops other than the initial len<=2 exit (distinct by stream+chunking hash); "
                       "sweep streams counted as non-trivial only when they deliver or raise")
    sizes = [len(st["stream"]) for st in streams]
    ctx.cov["distribution"] = {
        "streams": len(streams), "stream_chunking_runs": len(flat),
        "streams_by_class": {k: sum(1 for st in streams if st["cls"] == k) for k in ("clean", "trunc", "garbage")},
        "messages_built": len(msgs), "messages_usable": len(usable), "messages_excluded": excluded[:10],
        "factories": len({m["name"] for m in usable}),
        "serialized_size_max": max(len(m["ser"]) // 2 for m in usable), "stream_len_max": max(sizes),
        "stream_len_hist": {"<=8": sum(1 for x in sizes if x <= 8), "9..64": sum(1 for x in sizes if 8 < x <= 64),
                            "65..1024": sum(1 for x in sizes if 64 < x <= 1024), ">1024": sum(1 for x in sizes if x > 1024)},
        "items_by_kind": {k: sum(1 for st in streams for it in st["items"] if it[0] == k) for k in ("frame", "gap", "junk", "zero", "trunc", "raw")},
        "cases_hitting_model_branch": cov_hits,
        "runs_oracle_only_not_reevaluated_in_coq": coq_skipped[0],
        "protobuf_value_mutation_payloads": pb_classes,
        "truncated_cases_reproducing_known_finding": n_finding_cases,
        "sweeps": {name: {"tokens": toks, "max_tokens": sweep_maxlen(ctx, name)} for name, toks in SWEEPS.items()},
        "sweep_streams": sweep_streams, "sweep_runs_all_chunkings": sweep_runs, "sweep_shards_in_coq": sweep_cases,
        "parse_outcomes_seen": {k: sum(1 for st in streams for r in st["res"] for _p, oc in r["table"] if oc[0] == k) for k in ("same", "msg", "none", "raise")},
    }
    ctx.cov["uncovered_branches"] = [b for b, n in cov_hits.items() if n == 0]
    ex_i = next(i for i, st in enumerate(streams) if st["cls"] == "clean" and len(st["items"]) >= 3 and len(st["stream"]) < 200)
    ex_t = next(i for i, st in enumerate(streams) if st["cls"] == "trunc")
    ex_g = next(i for i, st in enumerate(streams) if st["cls"] == "garbage" and len(st["stream"]) > 8)
    ctx.cov["samples"] = [{"cls": streams[i]["cls"], "stream": streams[i]["stream"].hex(), "chunking": streams[i]["chs"][-1],
                           "impl": {"out": streams[i]["res"][-1]["out"], "exc": streams[i]["res"][-1]["exc"]}}
                          for i in (ex_i, ex_t, ex_g)]
    ctx.cov["source_ties"] = ctx.cov.get("source_ties", []) + [C.source_tie("whad/device/device.py", 139, 154), C.source_tie("whad/device/device.py", 215, 275),
                              C.source_tie("whad/hub/__init__.py", 156, 193)]
    ctx.cov["correspondence"] = {"frame_cases": len(frame_terms), "frame_bad": len(bad_f), "stream_cases": len(stream_terms),
                                 "stream_bad": len(bad_s), "sweep_shards": sweep_cases, "sweep_bad": len(sweep_bad),
                                 "coverage_mirror_disagreements": mirror_bad}

    # ---- verdict ----------------------------------------------------------------------------
    if bad_f or bad_s or sweep_bad or not proofs_ok:
        if not ctx.violations:
            first = None
            if bad_s:
                si, chs = stream_idx[bad_s[0]]
                st = streams[si]
                first = {"items": st["items"], "chunking": chs[0], "cls": st["cls"],
                         "stream": st["stream"].hex()[:8192], "impl": st["res"][st["chs"].index(chs[0])]}
            elif bad_f:
                m = fmsgs[bad_f[0]]
                first = {"op": "serialize", "name": m["name"], "ser": m["ser"][:4096], "frame": m["frame"][:4096]}
            elif sweep_bad:
                first = sweep_first
            what = ("correspondence C01.Model vs DevOutThread.ingest/DevInThread.serialize (%d frame, %d stream, %d sweep-shard disagreements)"
                    % (len(bad_f), len(bad_s), len(sweep_bad))
                    if (bad_f or bad_s or sweep_bad) else "proof obligations of theories/C01: " + detail.splitlines()[0][:200])
            ctx.broken_obligation(what, detail if not proofs_ok else "\n".join(logs_f + logs_s + sweep_logs), first)


def replay(payload):
    case = payload.get("case") or payload.get("first_disagreeing_case")
    print(json.dumps(case)[:3000])
    if not case or "items" not in case:
        return 0
    stream, _lay = layout(case["items"])
    if "chunks" in case:
        chunks = case["chunks"]
    else:
        chunks = hexs(split(stream, case.get("chunking") or ["sizes", []]))
    wrap = (lambda c: {"chunks": c, "v": case.get("hub_version"), "isolated": True}) if case.get("isolated") else (lambda c: c)
    r = C.run_impl("C01.py", {"cases": [wrap(chunks), wrap([stream.hex()])]})
    show = lambda x: {"out": x["out"], "classes": [c.rsplit(".", 1)[-1] for c in x.get("cls", [])], "exc": x["exc"]}
    print("stream (%d bytes): %s" % (len(stream), stream.hex()[:400]))
    print("implementation now delivers under this chunking:", show(r["cases"][0]))
    print("implementation now delivers as a single chunk:  ", show(r["cases"][1]))
    if payload.get("expected") is not None:
        print("expected:", payload["expected"])
    return 0
