"""C12 — Layer framework: exact handler routing, unique live instances, state save/load.

Pipeline: (1) build + Print Assumptions of theories/C12; (2) generate random layer trees
(depth <= 4) and operation sequences; (3) run them on the REAL framework
(harness/impl/C12.py: classes built with type() and the real decorators); (4) oracle = the
property itself, evaluated against the dictionary reference router below (`Ref`);
(5) correspondence: the same trees/ops evaluated by the Coq model inside Coq; (6) verdict.
"""
import json, os, re, time
from harness import common as C
from harness.common import clist, cbool

PID = "C12"
MAX_REPORTED = 3


# ---------------------------------------------------------------------------
# names
# ---------------------------------------------------------------------------

def astr(a):
    return "a%d" % a

def tstr(t):
    return "default" if t == 0 else "t%d" % t

def nstr(n):
    return astr(n[0]) if n[1] is None else "%s#%d" % (astr(n[0]), n[1])

_NAME = re.compile(r"^a(\d+)(?:#(\d+))?$")

def nparse(s):
    m = _NAME.match(s) if isinstance(s, str) else None
    if not m:
        return None
    return (int(m.group(1)), None if m.group(2) is None else int(m.group(2)))


# ---------------------------------------------------------------------------
# reference: dictionary router, fresh names, no cache
# ---------------------------------------------------------------------------

class Node:
    __slots__ = ("uid", "cls", "name", "state", "kids")
    def __init__(self, cls, name):
        self.uid, self.cls, self.name, self.state, self.kids = None, cls, name, None, []

    def kid(self, name):
        for k in self.kids:
            if k.name == name:
                return k
        return None


def mro(cls, pool):
    """the classes whose methods a layer of this class sees, nearest first: the class, the plain
    mixin classes listed before its layer base, the layer base's own MRO, the mixins listed after
    (C3 linearisation of these shapes: every mixin is a plain class used by one class only)"""
    out = [cls] + [{"h": m, "mixin": True} for m in cls.get("pre", [])]
    b = pool.get(cls.get("base")) if cls.get("base") is not None else None
    if b is not None and len(out) <= 4 * len(pool) + 8:
        out += mro(b, pool)
    return out + [{"h": m, "mixin": True} for m in cls.get("post", [])]


def effective(cls, pool):
    """methods a layer of this class has: for every method name defined along the MRO, the
    definition of the nearest class; in name order.  -> [(hid, decos, defining class)]"""
    chain = mro(cls, pool)
    out = []
    for hid in sorted({h for c in chain for h, _d in c["h"]}):
        for c in chain:
            d = [decos for h, decos in c["h"] if h == hid]
            if d:
                out.append((hid, d[0], c))
                break
    return out


def handler_dict(cls, pool):
    """(source, tag) -> (hid, contextual): every pair declared by a visible method maps to that
    method (the last one in method order when several do)."""
    d = {}
    for hid, decos, _c in effective(cls, pool):
        ctx = bool(decos[0][2]) if decos else False
        for src, tag, _c2, _f in decos:
            d[(src, tag)] = (hid, ctx)
    return d


def normalise(tree):
    """give every class an id (pre-order) and a base (None) when the file predates inheritance"""
    if all("id" in c for c in classes(tree)):
        return tree
    for i, c in enumerate(classes(tree)):
        c["id"] = i
        c.setdefault("base", None)
    return tree


class Ref:
    def __init__(self, tree, pool=None):
        self.tree = tree
        self.pool = {c["id"]: c for c in classes(tree)}
        if pool:
            self.pool.update({c["id"]: c for c in pool})
        self.counts = {}
        self.root = self.create(tree, (tree["a"], None))
        self.saved = None
        self.static_destroyed = False          # the live stack lacks a static layer
        self.saved_static_destroyed = False    # ... and so does the saved state

    def create(self, cls, name):
        n = Node(cls, name)
        for sub in cls["s"]:
            if not sub["x"]:
                n.kids.append(self.create(sub, (sub["a"], None)))
        return n

    def resolve(self, path):
        cur = self.root
        for x in path:
            cur = cur.kid(tuple(x))
            if cur is None:
                return None
        return cur

    def nodes(self, n=None, path=()):
        n = n or self.root
        yield n, path
        for k in n.kids:
            yield from self.nodes(k, path + (k.name,))

    def live(self):
        return [[n.uid, n.name] for n, _p in self.nodes()]

    def sub(self, node, name):
        if name == (node.cls["a"], None):
            return node, "own-alias"
        k = node.kid(name)
        if k is not None:
            return k, "own-layer"
        for k in node.kids:
            if not k.cls["x"]:
                r, _ = self.sub(k, name)
                if r is not None:
                    return r, "descendant"
        return None, None

    def lookup(self, path, name):
        """scoped lookup from the layer at `path`; returns (node, how)"""
        p = list(path)
        level = 0
        while True:
            r, how = self.sub(self.resolve(p), name)
            if r is not None:
                return r, (how if level == 0 else "via-ancestor")
            if not p:
                return None, "no-layer"
            p.pop(); level += 1

    def save(self, n=None):
        n = n or self.root
        return [nstr(n.name), {} if n.state is None else {"val": n.state}, [self.save(k) for k in n.kids]]

    def from_saved(self, cls, s):
        """the stack `s` describes, for class tree `cls`"""
        name = nparse(s[0])
        n = Node(cls, name)
        n.state = s[1].get("val")
        for ks in s[2]:
            kn = nparse(ks[0])
            sub = next((c for c in cls["s"] if c["a"] == kn[0]), None)
            n.kids.append(self.from_saved(sub, ks))
        return n

    def find_sub(self, node, a):
        return next((c for c in node.cls["s"] if c["a"] == a), None)


def predict_ops(rng, tree, nops, allow_static_destroy=False, with_load=True, pool=None):
    """Generate a mostly-valid op sequence by running the reference with its own allocator."""
    ref = Ref(tree, pool)
    ops = []
    dead_names = []
    all_aliases = sorted({c["a"] for c in classes(tree)})
    kinds = ["inst"] * 6 + ["destroy"] * 3 + ["send"] * 12 + ["set"] * 2 + (["save", "load"] if with_load else []) + ["bad"]
    if with_load and rng.random() < 0.35:
        kinds = kinds + ["restart"]
    def do_load():
        ref.root = ref.from_saved(tree, ref.saved)
        for n, _p in ref.nodes():      # numbering stays ahead of the restored instances
            if n.name[1] is not None and ref.counts.get(n.name[0], -1) < n.name[1]:
                ref.counts[n.name[0]] = n.name[1]
        ops.append(["load"])
    for _ in range(nops):
        k = rng.choice(kinds)
        nodes = list(ref.nodes())
        node, path = rng.choice(nodes)
        if k == "inst":
            cands = [(n, p, c) for n, p in nodes for c in n.cls["s"] if c["x"]]
            if cands and rng.random() < 0.9:
                n, p, c = rng.choice(cands)
                a = c["a"]
                cnt = ref.counts[a] + 1 if a in ref.counts else 0
                pre = None
                if rng.random() < 0.3:   # address the instance before it exists, and again afterwards
                    sn, sp = rng.choice(nodes)
                    pre = ["send", [list(x) for x in sp], [a, cnt], rng.choice([0, 1, 2, 3])]
                    ops.append(pre)
                ref.counts[a] = cnt
                ni = ref.create(c, (a, cnt))
                old = n.kid(ni.name)
                if old is not None:
                    n.kids[n.kids.index(old)] = ni
                else:
                    n.kids.append(ni)
                ops.append(["inst", [list(x) for x in p], a])
                if pre is not None:
                    ops.append(list(pre))
            else:   # instantiate a non-contextual class / unknown alias
                subs = node.cls["s"]
                a = rng.choice(subs)["a"] if subs and rng.random() < 0.7 else rng.choice(all_aliases)
                c = ref.find_sub(node, a)
                if c is not None and c["x"]:
                    continue
                ops.append(["inst", [list(x) for x in path], a])
        elif k == "destroy":
            cands = [(n, p, kid) for n, p in nodes for kid in n.kids
                     if kid.name[1] is not None or allow_static_destroy]
            if not cands:
                continue
            n, p, kid = rng.choice(cands)
            if kid.name[1] is None and rng.random() < 0.7:
                continue
            around = None
            if rng.random() < 0.6:   # look the instance up before it is destroyed, and again afterwards
                outside = [(sn, sp) for sn, sp in nodes if tuple(sp[:len(p) + 1]) != tuple(p) + (kid.name,)]
                if outside:
                    sn, sp = rng.choice(outside)
                    around = ["send", [list(x) for x in sp], list(kid.name), rng.choice([0, 1, 2, 3])]
                    ops.append(around)
            n.kids.remove(kid)
            dead_names.append(kid.name)
            ops.append(["destroy", [list(x) for x in p], list(kid.name)])
            if around is not None:
                ops.append(list(around))
        elif k == "send":
            r = rng.random()
            live_names = [n.name for n, _ in nodes]
            useful = None
            if rng.random() < 0.6:
                # aim at a declared (source, tag): pick a target with handlers and a sender of that alias
                tn, _tp = rng.choice(nodes)
                keys = sorted(handler_dict(tn.cls, ref.pool))
                if keys:
                    src, tg = rng.choice(keys)
                    senders = [(n, p) for n, p in nodes if n.name[0] == src]
                    if senders:
                        sn, sp = rng.choice(senders)
                        useful = (sp, tn.name, tg if rng.random() < 0.7 else rng.choice([0, 1, 2, 3]))
            if useful is not None:
                path, dst, tag = useful
                ops.append(["send", [list(x) for x in path], list(dst), tag])
                if rng.random() < 0.35:
                    ops.append(["send", [list(x) for x in path], list(dst), rng.choice([0, 1, 2, 3])])
                continue
            if r < 0.55:
                dst = rng.choice(live_names)
            elif r < 0.7:
                dst = (rng.choice(all_aliases), None)
            elif r < 0.85 and dead_names:
                dst = rng.choice(dead_names)
            elif r < 0.95:
                ctxa = [c["a"] for c in classes(tree) if c["x"]] or all_aliases
                dst = (rng.choice(ctxa), rng.randrange(0, 4))
            else:
                dst = (99, None)
            tag = rng.choice([0, 0, 1, 1, 2, 2, 3, 9])
            ops.append(["send", [list(x) for x in path], list(dst), tag])
            if rng.random() < 0.35:      # the same lookup again (memoised in the implementation)
                ops.append(["send", [list(x) for x in path], list(dst), rng.choice([0, 1, 2, 3])])
        elif k == "set":
            v = rng.randrange(1, 200)
            insts = [(n, p) for n, p in nodes if n.name[1] is not None]
            if insts and rng.random() < 0.5:
                node, path = rng.choice(insts)
            node.state = v
            ops.append(["set", [list(x) for x in path], v])
        elif k == "save":
            ref.saved = ref.save()
            ops.append(["save"])
        elif k == "load":
            if ref.saved is None:
                continue
            do_load()
        elif k == "restart":
            # new interpreter; usually followed by a load of the saved state and new connections
            ref.root = ref.create(tree, (tree["a"], None))
            ref.counts = {}
            ops.append(["restart"])
            if ref.saved is not None and rng.random() < 0.8:
                do_load()
        else:   # operation on a path that does not exist
            bad = [list(x) for x in path] + [[rng.choice(all_aliases), rng.choice([None, 0, 7])]]
            ops.append(rng.choice([["inst", bad, rng.choice(all_aliases)], ["destroy", bad, [1, 0]],
                                   ["send", bad, [1, None], 0], ["set", bad, 3]]))
    return ops


def classes(tree):
    yield tree
    for s in tree["s"]:
        yield from classes(s)


# ---------------------------------------------------------------------------
# generation of class trees
# ---------------------------------------------------------------------------

def gen_tree(rng, max_depth=4, degenerate=False, inherit=0.45, mixins=0.3):
    """Random layer tree, depth <= max_depth.  Static aliases come from a small pool (the same
    alias may occur at several positions: scoping); contextual aliases are unique in the tree
    (INSTCOUNT is per class); a static sub-layer never has its parent's alias; sibling aliases
    are distinct (LAYERS is a dict)."""
    nxt = [20]
    def node(depth, a, ctx):
        t = {"a": a, "x": ctx, "h": [], "s": []}
        if depth < max_depth:
            used = {a}
            for _ in range(rng.choice([0, 1, 2, 2, 3] if depth > 1 else [1, 2, 3])):
                if rng.random() < 0.4:
                    nxt[0] += 1
                    t["s"].append(node(depth + 1, nxt[0], True))
                else:
                    cand = [x for x in range(1, 8) if x not in used]
                    sa = rng.choice(cand)
                    if degenerate and a not in [x["a"] for x in t["s"]] and rng.random() < 0.4:
                        sa = a       # static sub-layer carrying its parent's alias (outside wf_cls)
                    used.add(sa)
                    t["s"].append(node(depth + 1, sa, False))
        return t
    tree = node(1, rng.randrange(1, 8), False)
    aliases = sorted({c["a"] for c in classes(tree)})
    for c in classes(tree):
        hid = 0
        for _ in range(rng.choice([0, 1, 2, 3, 4])):
            decos = []
            ctx = rng.random() < 0.35
            one_src = rng.choice(aliases) if rng.random() < 0.6 else None
            for _ in range(rng.choice([1, 1, 2, 2, 3, 4])):
                src = one_src if one_src is not None else (rng.choice(aliases) if rng.random() < 0.95 else 99)
                tag = rng.choice([0, 0, 1, 2, 3])
                dctx = ctx if rng.random() < 0.9 else (not ctx)
                form = "instance" if dctx and rng.random() < 0.5 else "source"
                decos.append([src, tag, dctx, form])
            c["h"].append([hid, decos])
            hid += rng.choice([1, 1, 2])
    for i, c in enumerate(classes(tree)):
        c["id"] = i
        c["base"] = None
    # inheritance between layer classes (static from static, contextual from contextual): a class may
    # derive from another generated class, in any position of the tree (so that either may be instantiated first); it inherits
    # the base's handlers, overrides some (other decorators, or none at all) and adds handlers for
    # new tags / new sources
    pool = {c["id"]: c for c in classes(tree)}
    parent_of = {s2["id"]: c for c in classes(tree) for s2 in c["s"]}
    order = list(classes(tree))
    rng.shuffle(order)
    for k, c in enumerate(order):
        if k == 0 or rng.random() > inherit:
            continue
        cands = [b for b in order[:k] if b["x"] == c["x"]]
        if not cands:
            continue
        b = rng.choice(cands)
        c["base"] = b["id"]
        if c["x"]:
            r = rng.random()
            gb = pool.get(b.get("base")) if b.get("base") is not None else None
            if r < 0.45 and gb is not None and gb["a"] != b["a"]:
                c["a"] = gb["a"]   # A('x') <- M('y') <- B('x'): a differently-aliased class between two classes sharing an alias
            elif r < 0.65:
                c["a"] = b["a"]    # contextual class deriving from a contextual class and keeping its alias
        beff = effective(b, pool)
        own = {}
        def rdeco(src_pool):
            src = rng.choice(src_pool) if src_pool and rng.random() < 0.7 else rng.choice(aliases)
            return [src, rng.choice([0, 1, 2, 3]), rng.random() < 0.3, "source"]
        bsrc = sorted({d[0] for _h, decos, _c in beff for d in decos})
        for hid, decos, _dc in beff:        # overriding
            r = rng.random()
            if r < 0.15:
                own[hid] = []                # plain method: the base handler disappears
            elif r < 0.35:
                own[hid] = [rdeco(bsrc) for _ in range(rng.choice([1, 2]))]
        top = max([x for x, _d, _c in beff] + [0]) + 8
        free = [h for h in range(0, top) if h not in {x for x, _d, _c in beff}]
        for hid in rng.sample(free, min(len(free), rng.choice([1, 2, 3]))):   # added handlers: new tags / new sources
            own[hid] = [rdeco(bsrc) for _ in range(rng.choice([1, 1, 2, 3]))]
        for hid in own:
            for d in own[hid]:
                d[3] = "instance" if d[2] and rng.random() < 0.5 else "source"
        c["h"] = [[hid, own[hid]] for hid in sorted(own)]
    # plain mixin classes (no alias, no LAYERS; each used by one class) listed before and/or after the
    # layer base class; they may bring handlers or plain methods, with names that also exist elsewhere
    for c in classes(tree):
        c["pre"], c["post"] = [], []
        if rng.random() > mixins:
            continue
        known = sorted({hid for k in mro(c, pool) for hid, _d in k["h"]}) or [0]
        def mixin():
            ms = {}
            for _ in range(rng.choice([0, 1, 1, 2])):
                hid = rng.choice(known) if rng.random() < 0.5 else rng.randrange(0, max(known) + 6)
                ms[hid] = [] if rng.random() < 0.2 else [[rng.choice(aliases), rng.choice([0, 1, 2, 3]), rng.random() < 0.3, "source"]
                                                          for _ in range(rng.choice([1, 1, 2]))]
            return [[hid, ms[hid]] for hid in sorted(ms)]
        r = rng.random()
        if r < 0.6:
            c["pre"].append(mixin())
        if r > 0.4:
            c["post"].append(mixin())
        if rng.random() < 0.15:
            c["pre"].append(mixin())
    return tree


def wf_tree(t):
    """hypothesis of C12_load_save_id (wf_cls): sibling aliases distinct, no static sub-layer with
    its parent's alias"""
    al = [s["a"] for s in t["s"]]
    return (len(set(al)) == len(al) and all(s["x"] or s["a"] != t["a"] for s in t["s"])
            and all(wf_tree(s) for s in t["s"]))


# ---------------------------------------------------------------------------
# class pool + set-up program (add / remove calls) and their elaboration into a class tree
# ---------------------------------------------------------------------------

def tree_to_program(tree):
    """every node a class with an (empty) LAYERS of its own, add() calls in tree order"""
    pool, setup = [], []
    def walk(t):
        pool.append({"id": t["id"], "a": t["a"], "x": t["x"], "h": t["h"], "base": t.get("base"), "own_layers": True,
                     "pre": t.get("pre", []), "post": t.get("post", [])})
        for sub in t["s"]:
            setup.append(["add", t["id"], sub["id"]])
        for sub in t["s"]:
            walk(sub)
    walk(tree)
    return pool, setup, tree["id"]


def run_program(pool, setup):
    """reference semantics of add/remove: own = {class id: [(alias, sub id), ...]} for the classes
    that have a LAYERS dictionary of their own; others see the nearest base class's one"""
    pd = {c["id"]: c for c in pool}
    own = {c["id"]: [] for c in pool if c.get("own_layers")}
    def layers(cid):
        seen = 0
        while cid is not None and seen <= len(pool):
            if cid in own:
                return own[cid]
            cid = pd[cid].get("base"); seen += 1
        return None
    for k, c, sub in setup:
        a = pd[sub]["a"]
        cur = layers(c)
        if k == "add":
            d = list(cur) if cur is not None else []
            if any(x == a for x, _ in d):
                d = [(x, sub if x == a else y) for x, y in d]
            else:
                d.append((a, sub))
            own[c] = d
        else:
            if cur is not None and any(x == a for x, _ in cur):
                own[c] = [(x, y) for x, y in cur if x != a]
    return own, layers


def elaborate(pool, setup, root, max_depth=4, max_nodes=45):
    """the class tree of a stack of root class `root`; None when cyclic / too deep / too large"""
    pd = {c["id"]: c for c in pool}
    _own, layers = run_program(pool, setup)
    count = [0]
    def build(cid, depth, path):
        if cid in path or depth > max_depth:
            raise ValueError("cyclic or too deep")
        count[0] += 1
        if count[0] > max_nodes:
            raise ValueError("too large")
        c = pd[cid]
        return {"id": cid, "a": c["a"], "x": c["x"], "h": c["h"], "base": c.get("base"), "pre": c.get("pre", []), "post": c.get("post", []),
                "s": [build(sub, depth + 1, path | {cid}) for _a, sub in (layers(cid) or [])]}
    try:
        return build(root, 1, frozenset())
    except ValueError:
        return None


def gen_program(rng, max_depth=4, degenerate=False):
    """class pool with inheritance (handlers AND sub-layers) + add/remove program, and the tree it yields"""
    for _attempt in range(30):
        tree = gen_tree(rng, max_depth=max_depth, degenerate=degenerate)
        pool, setup, root = tree_to_program(tree)
        pd = {c["id"]: c for c in pool}
        for c in pool:
            if c["base"] is None:
                continue
            r = rng.random()
            if r < 0.4:
                continue                      # declares its own LAYERS: no sub-layer inherited
            c["own_layers"] = False           # inherits the base class's sub-layers ...
            if r > 0.8:                       # ... and never calls add() itself: shares the base's dictionary
                setup = [st for st in setup if st[1] != c["id"]]
            elif rng.random() < 0.4:          # removes one of the inherited sub-layers
                inh = [st for st in setup if st[0] == "add" and st[1] == c["base"]]
                if inh:
                    setup.append(["remove", c["id"], rng.choice(inh)[2]])
        if rng.random() < 0.5:
            rng.shuffle(setup)
        for _ in range(rng.choice([0, 0, 1, 2])):     # remove (and maybe re-add) a sub-layer, as tests do
            adds = [j for j, st in enumerate(setup) if st[0] == "add"]
            if not adds:
                break
            j = rng.choice(adds)
            k = rng.randrange(j + 1, len(setup) + 1)
            setup.insert(k, ["remove", setup[j][1], setup[j][2]])
            if rng.random() < 0.6:
                setup.insert(rng.randrange(k + 1, len(setup) + 1), ["add", setup[j][1], setup[j][2]])
        t = elaborate(pool, setup, root, max_depth=4)
        if t is not None:
            return {"pool": pool, "setup": setup, "root": root, "tree": t}
    tree = gen_tree(rng, max_depth=max_depth, degenerate=degenerate)
    pool, setup, root = tree_to_program(tree)
    return {"pool": pool, "setup": setup, "root": root, "tree": elaborate(pool, setup, root, max_depth=9, max_nodes=10 ** 6)}


def as_program(case):
    """cases / corpus files that only carry a tree get the equivalent program"""
    if "pool" not in case:
        pool, setup, root = tree_to_program(normalise(case["tree"]))
        case = dict(case, pool=pool, setup=setup, root=root)
    return case


def tree_depth(t):
    return 1 + max([tree_depth(s) for s in t["s"]] or [0])


# ---------------------------------------------------------------------------
# wire formats
# ---------------------------------------------------------------------------

def case_to_impl(case):
    case = as_program(case)
    def hs(h):
        return [[hid, [[astr(s), tstr(tg), cx, f] for s, tg, cx, f in decos]] for hid, decos in h]
    return {"pool": [{"id": c["id"], "base": c.get("base"), "a": astr(c["a"]), "x": c["x"], "own_layers": bool(c.get("own_layers")),
                      "h": hs(c["h"]), "pre": [hs(m) for m in c.get("pre", [])], "post": [hs(m) for m in c.get("post", [])]}
                     for c in case["pool"]],
            "setup": case["setup"], "root": case["root"], "ops": [op_to_impl(o) for o in case["ops"]]}

def op_to_impl(op):
    k = op[0]
    if k == "inst":
        return ["inst", [nstr(tuple(x)) for x in op[1]], astr(op[2])]
    if k == "destroy":
        return ["destroy", [nstr(tuple(x)) for x in op[1]], nstr(tuple(op[2]))]
    if k == "send":
        return ["send", [nstr(tuple(x)) for x in op[1]], nstr(tuple(op[2])), tstr(op[3])]
    if k == "set":
        return ["set", [nstr(tuple(x)) for x in op[1]], op[2]]
    return [k]

def cname(n):
    return "(%d,%s)" % (n[0], "None" if n[1] is None else "Some %d" % n[1])

def cpath(p):
    return clist([cname(tuple(x)) for x in p])

def chs(h):
    return clist(["Hd %d %s" % (hid, clist(["Dc %d %d %s" % (s, tg, cbool(c)) for s, tg, c, _f in decos]))
                  for hid, decos in h])

def cprogram(case):
    """Coq literals: class pool, classes with an own (empty) LAYERS, set-up program, root class"""
    case = as_program(case)
    pool = clist(["(%d, CDf %d %s %s %s %s %s)" % (c["id"], c["a"], cbool(c["x"]), chs(c["h"]), clist([chs(m) for m in c.get("pre", [])]),
                                                   "None" if c.get("base") is None else "(Some %d)" % c["base"],
                                                   clist([chs(m) for m in c.get("post", [])])) for c in case["pool"]])
    ls0 = clist(["(%d, [])" % c["id"] for c in case["pool"] if c.get("own_layers")])
    prog = clist([("SAdd %d %d" if k == "add" else "SRemove %d %d") % (c, sub) for k, c, sub in case["setup"]])
    return "%s, %s, %s, %d" % (pool, ls0, prog, case["root"])

def cop(op):
    k = op[0]
    if k == "inst":
        return "OInst %s %d" % (cpath(op[1]), op[2])
    if k == "destroy":
        return "ODestroy %s %s" % (cpath(op[1]), cname(tuple(op[2])))
    if k == "send":
        return "OSend %s %s %d" % (cpath(op[1]), cname(tuple(op[2])), op[3])
    if k == "set":
        return "OSet %s %d" % (cpath(op[1]), op[2])
    return {"save": "OSave", "load": "OLoad", "restart": "ORestart"}[k]

class Untranslatable(Exception):
    pass

def cn(s):
    n = nparse(s)
    if n is None:
        raise Untranslatable("name %r" % (s,))
    return cname(n)

def clive(l):
    return clist(["(%d,%s)" % (u, cn(n)) for u, n in l])

def csave(s):
    st = s[2]
    if st == {}:
        v = "None"
    elif set(st) == {"val"} and isinstance(st["val"], int):
        v = "(Some %d)" % st["val"]
    else:
        raise Untranslatable("state %r" % (st,))
    if s[0] is not None and s[0] != s[1]:
        raise Untranslatable("sublayer key %r holds layer %r" % (s[0], s[1]))
    return "(SS %s %s %s)" % (cn(s[1]), v, clist([csave(k) for k in s[3]]))

EXC = {"AssertionError": 1, "KeyError": 2}

def cevent(e):
    k = e["k"]
    if k == "skip":
        return "ESkip"
    if k == "inst":
        return "EInst %s %s" % ("None" if e["name"] is None else "(Some %s)" % cn(e["name"]), clive(e["live"]))
    if k == "destroy":
        return "EDestroy %s" % clive(e["live"])
    if k == "send":
        if e["bad_data"]:
            raise Untranslatable("handler got foreign data")
        return "ESend %s" % clist(["(%d,%d,%s)" % (u, h, "None" if s is None else "Some %s" % cn(s)) for u, h, s in e["d"]])
    if k == "set":
        return "ESet"
    if k == "save":
        return "ESave %s" % csave(e["s"])
    if k == "load":
        return "ELoad %s %s" % (clive(e["live"]), csave(e["s"]))
    if k == "loadraise":
        return "ELoadRaise %d" % EXC.get(e["cls"], 99)
    if k == "restart":
        return "ERestart %s" % clive(e["live"])
    raise Untranslatable("event %r" % (k,))


# ---------------------------------------------------------------------------
# oracle: the property on the real framework's observations
# ---------------------------------------------------------------------------

def canon_ref_save(s):
    """reference save -> same shape as the driver's canonical save (key dropped)"""
    return [s[0], s[1], [canon_ref_save(k) for k in s[2]]]

def canon_impl_save(s):
    return [s[1], s[2], [canon_impl_save(k) for k in s[3]]]

def keys_ok(s):
    return (s[0] is None or s[0] == s[1]) and all(keys_ok(k) for k in s[3])


def oracle(case, events, stats):
    """Returns a list of (what, op_index, expected, observed).  Follows the implementation's
    instance names (any fresh name is acceptable) and object ids."""
    tree, ops = case["tree"], case["ops"]
    ref = Ref(tree, case.get("pool"))
    out = []
    def adopt(livelist, i, what):
        mine = [n for n, _p in ref.nodes()]
        names = [nparse(x[1]) for x in livelist]
        if names != [n.name for n in mine]:
            out.append(("live instance names differ from the reference after " + what, i,
                        [nstr(n.name) for n in mine], [x[1] for x in livelist]))
            return False
        for n, (u, _nm) in zip(mine, livelist):
            n.uid = u
        return True
    if events and events[0]["k"] == "init_exc":
        return [("building the stack raised " + events[0]["cls"], -1, [nstr(n.name) for n, _p in ref.nodes()], events[0])]
    if not events or events[0]["k"] != "init":
        return [("driver produced no initial snapshot", -1, None, events[:1])]
    if not adopt(events[0]["live"], -1, "construction"):
        return out
    first = {}
    for n, _p in ref.nodes():
        first.setdefault(n.cls["id"], n.uid)
    for c in classes(tree):
        if c.get("base") is not None and c["id"] in first and c["base"] in first:
            k2 = "derived_created_after_base" if first[c["base"]] < first[c["id"]] else "derived_created_before_base"
            stats[k2] = stats.get(k2, 0) + 1
    dict_cache = {}
    epoch_lookups = set()
    restarted = loaded_after_restart = False
    for i, op in enumerate(ops):
        if i + 1 >= len(events):
            out.append(("operation sequence stopped early", i, "an event per operation", None))
            break
        e = events[i + 1]
        k = op[0]
        stats["op_" + k] = stats.get("op_" + k, 0) + 1
        if e["k"] == "exc":
            out.append(("operation raised " + e["cls"], i, "no exception", e))
            break
        if k in ("inst", "destroy", "send", "set"):
            node = ref.resolve(op[1])
            if node is None:
                stats["skip_bad_path"] = stats.get("skip_bad_path", 0) + 1
                if e["k"] != "skip":
                    out.append(("operation on a non-existent layer had an effect", i, "skip", e)); break
                continue
        if k == "inst":
            c = ref.find_sub(node, op[2])
            if c is None:
                if e["k"] != "skip":
                    out.append(("instantiate of an unknown class had an effect", i, "skip", e)); break
                continue
            if e["k"] != "inst":
                out.append(("unexpected event for instantiate", i, "inst", e)); break
            if not c["x"]:
                stats["inst_noncontextual"] = stats.get("inst_noncontextual", 0) + 1
                if e["name"] is not None:
                    out.append(("instantiate of a non-contextual class created a layer", i, None, e["name"])); break
                adopt(e["live"], i, "instantiate(non-contextual)")
                continue
            nm = nparse(e["name"])
            if nm is None or nm[0] != c["a"] or nm[1] is None:
                out.append(("new instance has a malformed name", i, astr(c["a"]) + "#<n>", e["name"])); break
            livenames = [n.name for n, _p in ref.nodes()]
            if nm in livenames:
                out.append(("new instance shares its name with a live instance", i,
                            "a name no live instance has", e["name"]))
                # the dictionary of the parent now holds the new object under that name
            ni = ref.create(c, nm)
            old = node.kid(nm)
            if old is not None:
                node.kids[node.kids.index(old)] = ni
            else:
                node.kids.append(ni)
            n_inst = sum(1 for n in livenames if n[1] is not None)
            stats["max_live_instances"] = max(stats.get("max_live_instances", 0), n_inst + 1)
            if nm[1] >= 2:
                stats["inst_third_or_later"] = stats.get("inst_third_or_later", 0) + 1
            if loaded_after_restart and any(n[0] == nm[0] and n[1] is not None for n in livenames):
                stats["inst_after_restart_and_load"] = stats.get("inst_after_restart_and_load", 0) + 1
            if not adopt(e["live"], i, "instantiate"):
                break
            if ni.uid != e["uid"]:
                out.append(("instantiate returned another object than the one registered", i, ni.uid, e["uid"])); break
        elif k == "destroy":
            kid = node.kid(tuple(op[2]))
            if kid is None:
                if e["k"] != "skip":
                    out.append(("destroy of an unknown layer had an effect", i, "skip", e)); break
                continue
            if e["k"] != "destroy":
                out.append(("unexpected event for destroy", i, "destroy", e)); break
            node.kids.remove(kid)
            if kid.name[1] is None:
                ref.static_destroyed = True
            epoch_lookups = set()
            if not adopt(e["live"], i, "destroy"):
                break
        elif k == "send":
            if e["k"] != "send":
                out.append(("unexpected event for send", i, "send", e)); break
            dst, tag = tuple(op[2]), op[3]
            target, how = ref.lookup([tuple(x) for x in op[1]], dst)
            expected = []
            if target is not None:
                key = id(target.cls)
                if key not in dict_cache:
                    dict_cache[key] = handler_dict(target.cls, ref.pool)
                d = dict_cache[key]
                src_alias = node.name[0]
                h = d.get((src_alias, tag))
                kind = "exact-tag"
                if h is None:
                    h = d.get((src_alias, 0)); kind = "default-fallback"
                if tag == 0 and h is not None:
                    kind = "default-tag"
                if target.cls.get("base") is not None:
                    vis = {hid for hid, _d, _c in effective(target.cls, ref.pool)}
                    for c in mro(target.cls, ref.pool)[1:]:
                        for hid, decos in c["h"]:
                            owner = [dc for hh, _d, dc in effective(target.cls, ref.pool) if hh == hid][0]
                            if owner is not c and any(sx == src_alias and tx == tag for sx, tx, _c2, _f in decos):
                                stats["send_pair_declared_only_by_hidden_base_method"] = stats.get("send_pair_declared_only_by_hidden_base_method", 0) + 1
                if h is None:
                    stats["send_no_handler"] = stats.get("send_no_handler", 0) + 1
                else:
                    expected = [[target.uid, h[0], nstr(node.name) if h[1] else None]]
                    stats["send_" + kind] = stats.get("send_" + kind, 0) + 1
                    stats["send_contextual" if h[1] else "send_plain"] = stats.get("send_contextual" if h[1] else "send_plain", 0) + 1
                    if target.name[1] is not None:
                        stats["send_to_instance"] = stats.get("send_to_instance", 0) + 1
                    if node.name[1] is not None:
                        stats["send_from_instance"] = stats.get("send_from_instance", 0) + 1
                    eff = effective(target.cls, ref.pool)
                    multi = [1 for hid, decos, _dc in eff if hid == h[0]
                             and len({tg for s, tg, _c, _f in decos if s == src_alias}) > 1]
                    if multi:
                        stats["send_multi_tag_handler"] = stats.get("send_multi_tag_handler", 0) + 1
                    if target.cls.get("base") is not None:
                        stats["send_to_derived_class"] = stats.get("send_to_derived_class", 0) + 1
                        dc = [c for hid, _d, c in eff if hid == h[0]][0]
                        if dc is not target.cls:
                            stats["send_inherited_handler"] = stats.get("send_inherited_handler", 0) + 1
                        elif any(hh == h[0] for c in mro(target.cls, ref.pool)[1:] for hh, _d in c["h"]):
                            stats["send_overriding_handler"] = stats.get("send_overriding_handler", 0) + 1
                        else:
                            stats["send_handler_added_by_derived"] = stats.get("send_handler_added_by_derived", 0) + 1
                stats["lookup_" + how] = stats.get("lookup_" + how, 0) + 1
                lk = (tuple(map(tuple, op[1])), dst)
                if lk in epoch_lookups and how in ("descendant", "via-ancestor"):
                    stats["lookup_repeated_memoised"] = stats.get("lookup_repeated_memoised", 0) + 1
                epoch_lookups.add(lk)
            else:
                stats["send_no_layer"] = stats.get("send_no_layer", 0) + 1
            got = e["d"]
            liveuids = {n.uid for n, _p in ref.nodes()}
            if e["bad_data"]:
                out.append(("a handler received other data/arguments than the ones sent", i, expected, got)); break
            if len(got) > 1:
                out.append(("message delivered more than once", i, expected, got)); break
            if any(u not in liveuids for u, _h, _s in got):
                out.append(("message delivered to an instance that is not live (destroyed or replaced)", i, expected, got)); break
            if got != expected:
                what = "message not delivered to the declared handler"
                if expected and got and got[0][0] != expected[0][0]:
                    what = "message delivered to another instance than the one addressed"
                elif expected and got and got[0][1] == expected[0][1]:
                    what = "handler called with the wrong source convention"
                elif not expected:
                    what = "message delivered although no layer/handler is declared for it"
                elif not got:
                    what = "message for a declared (source, tag) was not delivered"
                out.append((what, i, expected, got)); break
        elif k == "set":
            if e["k"] != "set":
                out.append(("unexpected event for set", i, "set", e)); break
            node.state = op[2]
        elif k == "save":
            if e["k"] != "save":
                out.append(("unexpected event for save", i, "save", e)); break
            exp = canon_ref_save(ref.save())
            got = canon_impl_save(e["s"])
            if not keys_ok(e["s"]) or got != exp:
                out.append(("save() output differs from the live stack", i, exp, got)); break
            ref.saved = ref.save()
            ref.saved_static_destroyed = ref.static_destroyed
        elif k == "restart":
            if e["k"] != "restart":
                out.append(("unexpected event for restart", i, "restart", e)); break
            ref.root = ref.create(tree, (tree["a"], None))
            ref.static_destroyed = False
            restarted = True
            epoch_lookups = set()
            if not adopt(e["live"], i, "restart"):
                break
        elif k == "load":
            if ref.saved is None:
                if e["k"] != "skip":
                    out.append(("unexpected event for load without save", i, "skip", e)); break
                continue
            if ref.saved_static_destroyed or not wf_tree(tree):
                # the saved stack lacks a static layer / a static layer carries its parent's alias:
                # 'a fresh stack of the same shape' does not apply
                stats["load_outside_hypotheses"] = stats.get("load_outside_hypotheses", 0) + 1
                return out
            if e["k"] == "loadraise":
                out.append(("load() of a saved state raised " + e["cls"], i, "state reproduced", e)); break
            if e["k"] != "load":
                out.append(("unexpected event for load", i, "load", e)); break
            exp = canon_ref_save(ref.saved)
            got = canon_impl_save(e["s"])
            stats["load_with_instances"] = stats.get("load_with_instances", 0) + (1 if "#" in json.dumps(exp) else 0)
            if not keys_ok(e["s"]) or got != exp:
                out.append(("save() after load() into a fresh stack differs from the saved state", i, exp, got)); break
            ref.root = ref.from_saved(tree, ref.saved)
            ref.static_destroyed = False
            loaded_after_restart = restarted
            epoch_lookups = set()
            if not adopt(e["live"], i, "load"):
                break
    return out


# ---------------------------------------------------------------------------
# run
# ---------------------------------------------------------------------------

def run_impl_cases(cases):
    req = {"cases": [case_to_impl(c) for c in cases]}
    return C.run_impl("C12.py", req)["cases"]


def shrink(case, what, budget=60):
    """cut after the failing operation, then greedy removal of single operations while the
    same oracle message persists"""
    def fails(c, ev):
        r = oracle(c, ev, {})
        return r[0] if r and r[0][0] == what else None
    cur = case
    r = fails(cur, run_impl_cases([cur])[0])
    if r is None:
        return case
    cur = dict(cur, ops=cur["ops"][:r[1] + 1])
    t_end = time.time() + 12
    for _ in range(budget):
        if time.time() > t_end:
            break
        cands = [dict(cur, ops=cur["ops"][:j] + cur["ops"][j + 1:]) for j in range(len(cur["ops"]) - 1)]
        if not cands:
            break
        evs = run_impl_cases(cands)
        keep = None
        for cand, ev in zip(cands, evs):
            r = fails(cand, ev)
            if r is not None:
                keep = dict(cand, ops=cand["ops"][:r[1] + 1])
                break
        if keep is None:
            break
        cur = keep
    return cur


def corpus_cases():
    d = os.path.join(C.VERIF, "corpus", PID)
    out = []
    for fn in sorted(os.listdir(d)) if os.path.isdir(d) else []:
        if fn.endswith(".json"):
            w = json.load(open(os.path.join(d, fn)))
            w["tree"] = normalise(w["tree"])
            out.append(as_program({k: w[k] for k in ("tree", "ops", "pool", "setup", "root") if k in w} | {"corpus": fn}))
    return out


def gen_cases(ctx):
    rng = ctx.rng
    cases = corpus_cases()
    n = 10000 if ctx.thorough else 500
    for j in range(n):
        g = gen_program(rng, max_depth=rng.choice([2, 3, 4, 4]))
        nops = rng.choice([8, 15, 25, 40]) if not ctx.thorough else rng.choice([10, 25, 40, 70])
        cases.append(dict(g, ops=predict_ops(rng, g["tree"], nops, pool=g["pool"])))
    # separate stream: static layers destroyed too (no load), operations on bad paths
    for j in range(n // 8):
        g = gen_program(rng, max_depth=rng.choice([3, 4]))
        cases.append(dict(g, ops=predict_ops(rng, g["tree"], 20, allow_static_destroy=True, with_load=False, pool=g["pool"]),
                          stream="static-destroy"))
    # separate stream: degenerate trees (a static sub-layer carries its parent's alias): outside the
    # hypotheses of the save/load theorem; model and implementation must still agree
    for j in range(n // 10):
        g = gen_program(rng, max_depth=rng.choice([2, 3, 4]), degenerate=True)
        cases.append(dict(g, ops=predict_ops(rng, g["tree"], 20, pool=g["pool"]), stream="degenerate"))
    return cases


def run(ctx):
    C.build_dir(PID, clean=True)
    ctx.cov["trusted_base"] = [
        "Coq 8.16.1 kernel + vm_compute (no native_compute); theorems closed under the global context (Print Assumptions checked each run)",
        "hand-written model coq/theories/C12/Model.v tied to whad/common/stack/layer.py by the correspondence of this run (same trees and operation sequences evaluated inside Coq and compared with the observations of the real framework)",
        "names abstracted: aliases/tags are strings without '#' and ':' (mapped to numbers); the handler key '%s:%s' and the '#' split of instance names are injective under that assumption",
        "Python facts: dict preserves insertion order; dir() lists attributes in sorted order (handler methods are registered in name order); Layer.configure() runs once per object before populate()",
        "the lookup cache is not observable on the repaired code (that is the theorem); its model is tied by reading and by the seeded reverts, where it becomes observable",
    ]
    ctx.assumptions = [
        "LAYERS is a dict, so sibling aliases are distinct",
        "layer classes: one layer base per generated class (static from static, contextual from contextual) plus plain mixin classes (no alias, no LAYERS, used by one class) listed before/after it - the shapes for which the C3 linearisation is a concatenation; the stack structure results from a sequence of cls.add(sub)/cls.remove(sub) calls executed after the classes exist; the resulting containment is a finite tree (no class contains itself)",
        "UNRELATED contextual classes of one stack have distinct aliases (INSTCOUNT lives in the base-most class of a hierarchy carrying the alias; the model's counter is per alias)",
        "load(): the state was produced by save() on a stack of the same classes (possibly before an interpreter restart) and is loaded into a freshly built stack; for the identity theorem: no static layer was destroyed, no static sub-layer has its parent's alias (wf_cls, static_ok; evaluated in Coq on every case)",
        "interpreter restart = class objects defined again (no INSTCOUNT), live stack gone, saved state kept",
        "handlers do not send messages themselves while being called (single dispatch per send)",
        "operations are applied by one thread",
    ]
    proofs_ok, detail = ctx.check_proofs()
    ctx.log("proofs:", proofs_ok, detail.splitlines()[0][:200])
    if ctx.thorough and proofs_ok:
        rc, out = C.sh(["timeout", "900", "coqchk", "-o", "-silent", "-Q", os.path.join(C.COQ, "theories"), "Whad",
                        "Whad.C12.Property"], cwd=C.COQ, timeout=930)
        axioms = re.search(r"\* Axioms:\s*(.*?)\n\s*\n", out, re.S)
        ctx.cov["coqchk"] = {"rc": rc, "axioms": (axioms.group(1).strip() if axioms else "?")}
        ctx.log("coqchk -o:", rc, ctx.cov["coqchk"]["axioms"])
        if rc != 0 or ctx.cov["coqchk"]["axioms"] != "<none>":
            proofs_ok, detail = False, "coqchk: " + out[-1500:]

    cases = gen_cases(ctx)
    events = run_impl_cases(cases)
    ctx.log("implementation ran %d cases" % len(cases))
    ctx.cov["evaluations"] = len(cases)
    ctx.cov["traces_validated_against_impl"] = len(cases)

    # ---- oracle ------------------------------------------------------------
    stats, nviol, seen = {}, 0, set()
    for ci, (case, ev) in enumerate(zip(cases, events)):
        res = oracle(case, ev, stats)
        stats["cases_with_oracle_failure"] = stats.get("cases_with_oracle_failure", 0) + (1 if res else 0)
        if res and len(seen) < MAX_REPORTED and res[0][0] not in seen:
            what, i, exp, got = res[0]
            seen.add(what)
            small = shrink(case, what) if i >= 0 else dict(case, ops=[])
            r2 = oracle(small, run_impl_cases([small])[0], {})
            if r2 and r2[0][0] == what:
                what, i, exp, got = r2[0]
            else:
                small = case
            nviol += ctx.violation(what, {"tree": small["tree"], "ops": small["ops"], "failing_op": i, "pool": small["pool"],
                                          "setup": small["setup"], "root": small["root"]},
                                   expected=exp, observed=got)
    ctx.log("oracle: %d cases fail" % stats.get("cases_with_oracle_failure", 0))

    # ---- correspondence inside Coq -------------------------------------------
    pre = "From Whad Require Import C12.Model.\nOpen Scope N_scope."
    terms, idx, untrans, nhyp = [], [], [], 0
    for ci, (case, ev) in enumerate(zip(cases, events)):
        try:
            if not ev or ev[0]["k"] != "init":
                raise Untranslatable("no init")
            obs = [cevent(e) for e in ev[1:]]
            ops = case["ops"][:len(obs)]
            hy = wf_tree(case["tree"]) and all(o[0] != "destroy" or o[2][1] is not None for o in ops)
            nhyp += 1 if hy else 0
            terms.append("(%s, %s, %s, %s, %s)" % (cprogram(case), clist([cop(o) for o in ops]),
                                                   clist(obs), clive(ev[0]["live"]), cbool(hy)))
            idx.append(ci)
        except Untranslatable as e:
            untrans.append((ci, str(e)))
    bad, logs = C.run_cases(PID, "cases", pre, "pcase", terms, "check_pcase", shard=60, max_chars=300000)
    # how many cases of the degenerate stream leave the model's scope (load() searching beyond own layers)
    deg = [t for t, ci in zip(terms, idx) if cases[ci].get("stream") == "degenerate"]
    outside, _l = C.run_cases(PID, "degenerate", pre, "pcase", deg, "inside_model_p", shard=60, max_chars=300000) if deg else ([], [])
    ctx.notes += logs[:4]
    ctx.log("correspondence: %d cases, %d disagree, %d not expressible" % (len(terms), len(bad), len(untrans)))

    # ---- coverage ---------------------------------------------------------------
    nontrivial = [c for c in cases if any(o[0] == "send" for o in c["ops"]) and any(o[0] == "inst" for o in c["ops"])]
    ctx.cov["distinct_nontrivial"] = C.distinct_count([[c["pool"], c["setup"], c["ops"]] for c in nontrivial])
    ctx.cov["rule"] = ("a case = random layer tree (depth <= 4; tagged/untagged/contextual handlers, several tags and sources per handler, "
                       "the same static alias at several positions) + random operation sequence (instantiate/destroy/send/set/save/load/restart, "
                       "plus operations on non-existent layers; separate streams: static layers destroyed, degenerate trees). Non-trivial = contains at least one instantiate and one send; distinct by content hash")
    branches = ["send_exact-tag", "send_default-fallback", "send_default-tag", "send_no_handler", "send_no_layer",
                "send_contextual", "send_plain", "send_to_instance", "send_from_instance", "send_multi_tag_handler",
                "lookup_own-alias", "lookup_own-layer", "lookup_descendant", "lookup_via-ancestor", "lookup_repeated_memoised",
                "inst_third_or_later", "inst_noncontextual", "load_with_instances", "skip_bad_path",
                "op_inst", "op_destroy", "op_send", "op_set", "op_save", "op_load", "op_restart", "inst_after_restart_and_load", "load_outside_hypotheses",
                "send_to_derived_class", "send_inherited_handler", "send_overriding_handler", "send_handler_added_by_derived",
                "send_pair_declared_only_by_hidden_base_method", "derived_created_after_base", "derived_created_before_base"]
    progs = [as_program(c) for c in cases]
    setup_stats = {"add_statements": sum(1 for c in progs for st in c["setup"] if st[0] == "add"),
                   "remove_statements": sum(1 for c in progs for st in c["setup"] if st[0] == "remove"),
                   "derived_classes": sum(1 for c in progs for d in c["pool"] if d.get("base") is not None),
                   "derived_contextual_classes": sum(1 for c in progs for d in c["pool"] if d.get("base") is not None and d["x"]),
                   "classes_with_mixin_first": sum(1 for c in progs for d in c["pool"] if d.get("pre")),
                   "classes_with_mixin_last": sum(1 for c in progs for d in c["pool"] if d.get("post")),
                   "contextual_derived_mixin_first_same_alias": sum(1 for c in progs for d in c["pool"] if d.get("pre") and d["x"] and d.get("base") is not None
                                                                    and d["a"] == {e["id"]: e for e in c["pool"]}[d["base"]]["a"]),
                   "contextual_alias_change_in_the_middle": sum(1 for c in progs for d in c["pool"] if d["x"] and d.get("base") is not None
                                                                and (lambda pd: pd[d["base"]]["a"] != d["a"] and pd[d["base"]].get("base") is not None
                                                                     and pd[pd[d["base"]]["base"]]["a"] == d["a"])({e["id"]: e for e in c["pool"]})),
                   "derived_contextual_same_alias": sum(1 for c in progs for d in c["pool"] if d.get("base") is not None and d["x"]
                                                        and d["a"] == {e["id"]: e for e in c["pool"]}[d["base"]]["a"]),
                   "derived_inheriting_sublayers": sum(1 for c in progs for d in c["pool"] if d.get("base") is not None and not d.get("own_layers")),
                   "derived_with_own_LAYERS": sum(1 for c in progs for d in c["pool"] if d.get("base") is not None and d.get("own_layers")),
                   "derived_never_calling_add": sum(1 for c in progs for d in c["pool"] if d.get("base") is not None and not d.get("own_layers")
                                                    and not any(st[1] == d["id"] for st in c["setup"])),
                   "shared_class_at_several_positions": sum(1 for c in cases if len({x["id"] for x in classes(c["tree"])}) < len(list(classes(c["tree"]))))}
    ctx.cov["distribution"] = {"cases": len(cases), "setup": setup_stats, "tree_depth": {str(d): sum(1 for c in cases if tree_depth(c["tree"]) == d) for d in range(1, 6)},
                               "classes_per_tree_max": max(len(list(classes(c["tree"]))) for c in cases),
                               "ops_total": sum(len(c["ops"]) for c in cases),
                               "branches": {b: stats.get(b, 0) for b in branches},
                               "max_live_instances": stats.get("max_live_instances", 0),
                               "uncovered_branches": [b for b in branches if not stats.get(b)]}
    pick = [c for c in range(len(cases)) if len(cases[c]["ops"]) >= 6][:3]
    ctx.cov["samples"] = [{"tree": cases[c]["tree"], "ops": cases[c]["ops"][:8], "impl_events": events[c][1:9]} for c in pick]
    ctx.cov["source_ties"] = [C.source_tie("whad/common/stack/layer.py", 193, 232),    # source / instance decorators
                              C.source_tie("whad/common/stack/layer.py", 345, 380),    # Layer.__init__ (handler table)
                              C.source_tie("whad/common/stack/layer.py", 381, 441),    # populate / instantiate / create_layer / destroy / clear_layer_cache
                              C.source_tie("whad/common/stack/layer.py", 476, 529),    # get_handler / get_layer
                              C.source_tie("whad/common/stack/layer.py", 610, 645),    # send / send_from
                              C.source_tie("whad/common/stack/layer.py", 658, 702)]    # save / load
    ctx.cov["correspondence"] = {"cases": len(terms), "bad": len(bad), "not_expressible": len(untrans),
                                 "degenerate_stream_cases": len(deg), "degenerate_cases_outside_model_scope (compared up to that load)": len(outside),
                                 "cases_meeting_load_save_hypotheses (wf_clsb, static_okb evaluated in Coq and compared)": nhyp}

    # ---- verdict ---------------------------------------------------------------------
    if (bad or untrans or not proofs_ok) and not ctx.violations:
        first = None
        if bad:
            ci = idx[bad[0]]
            first = dict({k: cases[ci][k] for k in ("tree", "ops", "pool", "setup", "root")}, impl_events=events[ci])
        elif untrans:
            ci = untrans[0][0]
            first = dict({k: cases[ci][k] for k in ("tree", "ops", "pool", "setup", "root")}, impl_events=events[ci], why=untrans[0][1])
        what = ("correspondence C12.Model vs whad.common.stack.Layer (%d of %d cases disagree, %d not expressible)"
                % (len(bad), len(terms), len(untrans))) if (bad or untrans) else \
               "proof obligations of theories/C12: " + detail.splitlines()[0][:200]
        ctx.broken_obligation(what, detail if not proofs_ok else "\n".join(logs), first)


def replay(payload):
    case = payload.get("case") or payload.get("first_disagreeing_case")
    if not case:
        print("nothing to replay"); return 0
    case["tree"] = normalise(case["tree"])
    c = as_program({k: case[k] for k in ("tree", "ops", "pool", "setup", "root") if k in case})
    ev = run_impl_cases([c])[0]
    for op, e in zip([["<init>"]] + c["ops"], ev):
        print(json.dumps(op), "->", json.dumps(e)[:300])
    res = oracle(c, ev, {})
    if res:
        what, i, exp, got = res[0]
        print("ORACLE: %s at op %d\n expected: %s\n observed: %s" % (what, i, json.dumps(exp), json.dumps(got)))
        return 1
    print("ORACLE: the property holds on this case now")
    return 0
